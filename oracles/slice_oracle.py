#!/usr/bin/env python3
"""C14 oracle: Python's own indexing / slicing on lists, character operations on code points.

Line protocol (stdlib only, deterministic, one answer line per request line). A sequence is a
comma-separated list of integers (array elements, or the code points of a string; may be empty).
`N` stands for None (an absent or `none` bound).

  S <seq>|<start>,<stop>,<step>;<start>,<stop>,<step>;...
        -> one result per triple, joined by ';':  =<selected elements, comma separated>   or   E
           (E = Python raises ValueError: slice step cannot be zero). This is literally
           list[slice(start, stop, step)].
  I <seq>|<i>;<i>;...
        -> one result per index, joined by ';':   =<element>   or   U   (IndexError: out of range)
  C <code points>|<k>,<k>,...|<code points of the `end` string>
        -> "<length> =<reversed code points> =<truncate k1>;=<truncate k2>;..."
           truncate(k) = the text as is when it has at most k characters, otherwise its first k
           characters followed by `end` (docs of the `truncate` filter), all on code points.
"""
import sys


def ints(txt):
    return [int(x) for x in txt.split(",")] if txt else []


def opt(txt):
    return None if txt == "N" else int(txt)


def join(xs):
    return "=" + ",".join(str(x) for x in xs)


def answer(line):
    kind, rest = line.split(" ", 1)
    parts = rest.split("|")
    seq = ints(parts[0])
    if kind == "S":
        out = []
        for triple in parts[1].split(";"):
            a, b, c = (opt(x) for x in triple.split(","))
            try:
                out.append(join(seq[slice(a, b, c)]))
            except ValueError:
                out.append("E")
        return ";".join(out)
    if kind == "I":
        out = []
        for i in parts[1].split(";"):
            try:
                out.append("=%d" % seq[int(i)])
            except IndexError:
                out.append("U")
        return ";".join(out)
    if kind == "C":
        ks = ints(parts[1])
        end = ints(parts[2])
        trunc = []
        for k in ks:
            trunc.append(join(seq if len(seq) <= k else seq[:k] + end))
        return "%d %s %s" % (len(seq), join(seq[::-1]), ";".join(trunc))
    raise ValueError("bad request " + line)


def main():
    out = sys.stdout
    for line in sys.stdin:
        line = line.rstrip("\n")
        try:
            out.write(answer(line) + "\n")
        except Exception as e:  # the harness treats this as a machinery failure
            out.write("!oracle-exception %r\n" % (e,))
        out.flush()


if __name__ == "__main__":
    main()
