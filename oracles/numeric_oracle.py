#!/usr/bin/env python3
"""C13 oracle: exact integer arithmetic, IEEE double arithmetic and exact mixed comparison.

Line protocol (stdlib only, deterministic, one answer line per request line):

  A <a> <b>   ->  "<add> <sub> <mul> <div> <floordiv> <mod> <pow> <cmp>"
  N <a>       ->  "<neg>"
  Q <a> <b> <q> <r>   (plain decimals: the engine's own a // b and a % b)
              ->  "ok" | "reconstruct" | "range" | "reconstruct,range"
                  whether q * b + r == a and 0 <= r < |b| hold exactly

Operands:   i<decimal>            an integer (any size; the encoding used by the engine is irrelevant
                                  to the mathematics, only the value matters)
            f<16 hex digits>      a double, by bit pattern

Result token = alternatives joined by '|', each alternative one of
            E                     the engine must refuse (Err)
            I<decimal>            exactly this integer, printed as an integer
            F<16 hex digits>      exactly this double (bit pattern; +0.0 and -0.0 differ)
            Fnan                  any NaN
            U<16 hex digits>      a double within 1 ulp of this one (libm `pow` is not under test)
<cmp> is one of  <  =  >  : the exact mathematical order of a and b (NaN == NaN, NaN after everything).

Rules (property C13 / DESIGN.md section 4):
  * integers: result exact if operands and result fit i128, otherwise E; `//` and `%` Euclidean
    (0 <= a % b < |b|, (a // b) * b + a % b == a); division by zero E; `/` is float(a) / float(b).
  * an integer operand outside i128 (u128 above i128::MAX) is E; when the other operand is a float
    the statement has two clauses that both apply, so E or the double result are both accepted.
  * any float operand: IEEE double operation on float(a), float(b) (int -> double is round-to-nearest-even
    both here and in Rust's `as f64`); `//` and `%` are the Euclidean pair in double arithmetic as
    documented for f64::div_euclid / f64::rem_euclid, re-derived below from fmod and trunc.
  * integer ** negative integer: pinned, not asserted (engine computes it in floating point):
    E, the double within 1 ulp, or the exact integer when the mathematical result is one.
"""
import math
import struct
import sys
from fractions import Fraction

I128_MIN = -(1 << 127)
I128_MAX = (1 << 127) - 1


def fits(v):
    return I128_MIN <= v <= I128_MAX


def bits(f):
    return struct.unpack("<Q", struct.pack("<d", f))[0]


def from_bits(b):
    return struct.unpack("<d", struct.pack("<Q", b))[0]


def parse(tok):
    if tok[0] == "i":
        return ("i", int(tok[1:]))
    if tok[0] == "f":
        return ("f", from_bits(int(tok[1:], 16)))
    raise ValueError("bad operand " + tok)


def tok_float(f, approx=False):
    if f != f:
        return "Fnan"
    return ("U" if approx else "F") + "%016x" % bits(f)


def tok_int(v):
    return "I%d" % v if fits(v) else "E"


def as_float(x):
    kind, v = x
    return float(v) if kind == "i" else v


def trunc(x):
    if x != x or x in (math.inf, -math.inf):
        return x
    t = float(math.trunc(x))
    if t == 0.0:
        t = math.copysign(0.0, x)
    return t


def fmod(a, b):
    """C fmod (what Rust's `%` on f64 is), total: NaN where Python raises a domain error."""
    if a != a or b != b:
        return math.nan
    if a in (math.inf, -math.inf) or b == 0.0:
        return math.nan
    return math.fmod(a, b)


def is_odd_integer(f):
    if f != f or f in (math.inf, -math.inf):
        return False
    if f != math.floor(f):
        return False
    return int(f) % 2 == 1


def fpow(a, b):
    """C99 pow, total."""
    try:
        return math.pow(a, b)
    except OverflowError:
        neg = a < 0 and is_odd_integer(b)
        return -math.inf if neg else math.inf
    except ValueError:
        if a == 0.0 and b < 0:
            neg = math.copysign(1.0, a) < 0 and is_odd_integer(b)
            return -math.inf if neg else math.inf
        return math.nan


def float_op(op, fa, fb):
    """Returns a token for the IEEE double operation (division by zero is E)."""
    if op == "+":
        return tok_float(fa + fb)
    if op == "-":
        return tok_float(fa - fb)
    if op == "*":
        return tok_float(fa * fb)
    if op in ("/", "//", "%") and fb == 0.0:
        return "E"
    if op == "/":
        return tok_float(fa / fb)
    if op == "//":
        q = trunc(fa / fb)
        if fmod(fa, fb) < 0.0:
            q = q - 1.0 if fb > 0.0 else q + 1.0
        return tok_float(q)
    if op == "%":
        r = fmod(fa, fb)
        if r < 0.0:
            r = r + abs(fb)
        return tok_float(r)
    if op == "**":
        return tok_float(fpow(fa, fb), approx=True)
    raise ValueError(op)


def int_op(op, a, b):
    if op == "+":
        return tok_int(a + b)
    if op == "-":
        return tok_int(a - b)
    if op == "*":
        return tok_int(a * b)
    if op in ("/", "//", "%") and b == 0:
        return "E"
    if op == "/":
        return tok_float(float(a) / float(b))
    if op in ("//", "%"):
        r = a % abs(b)  # Python: 0 <= r < |b| for a positive modulus
        q = (a - r) // b  # exact: b divides a - r
        assert q * b + r == a and 0 <= r < abs(b)
        return tok_int(q if op == "//" else r)
    if op == "**":
        if b < 0:
            alts = ["E", tok_float(fpow(float(a), float(b)), approx=True)]
            if a == 1:
                alts.append("I1")
            elif a == -1:
                alts.append("I%d" % (1 if b % 2 == 0 else -1))
            return "|".join(alts)
        if a == 0:
            return tok_int(1 if b == 0 else 0)
        if a == 1:
            return tok_int(1)
        if a == -1:
            return tok_int(1 if b % 2 == 0 else -1)
        if b > 127:
            return "E"  # |a| >= 2: |a ** b| >= 2 ** 128
        return tok_int(a**b)
    raise ValueError(op)


OPS = ["+", "-", "*", "/", "//", "%", "**"]


def arith(op, a, b):
    (ka, va), (kb, vb) = a, b
    big = (ka == "i" and not fits(va)) or (kb == "i" and not fits(vb))
    if ka == "i" and kb == "i":
        if big:
            return "E"
        return int_op(op, va, vb)
    t = float_op(op, as_float(a), as_float(b))
    if big and t != "E":
        return "E|" + t
    return t


def negate(a):
    ka, va = a
    if ka == "i":
        if not fits(va):
            return "E"
        return tok_int(-va)
    if va != va:
        return "Fnan"
    return "F%016x" % (bits(va) ^ (1 << 63))


def order_key(x):
    kind, v = x
    if kind == "f":
        if v == math.inf:
            return (1, Fraction(0))
        if v == -math.inf:
            return (-1, Fraction(0))
    return (0, Fraction(v))


def compare(a, b):
    an = a[0] == "f" and a[1] != a[1]
    bn = b[0] == "f" and b[1] != b[1]
    if an and bn:
        return "="
    if an:
        return ">"
    if bn:
        return "<"
    x, y = order_key(a), order_key(b)
    return "<" if x < y else (">" if x > y else "=")


def answer(line):
    parts = line.split()
    if parts[0] == "A":
        a, b = parse(parts[1]), parse(parts[2])
        out = [arith(op, a, b) for op in OPS]
        out.append(compare(a, b))
        return " ".join(out)
    if parts[0] == "N":
        return negate(parse(parts[1]))
    if parts[0] == "Q":
        a, b, q, r = (int(x) for x in parts[1:5])
        bad = []
        if q * b + r != a:
            bad.append("reconstruct")
        if not (0 <= r < abs(b)):
            bad.append("range")
        return ",".join(bad) if bad else "ok"
    raise ValueError("bad request " + line)


def main():
    out = sys.stdout
    for line in sys.stdin:
        line = line.strip()
        if not line:
            out.write("\n")
        else:
            try:
                out.write(answer(line) + "\n")
            except Exception as e:  # the harness treats this as a machinery failure
                out.write("!oracle-exception %r\n" % (e,))
        out.flush()


if __name__ == "__main__":
    main()
