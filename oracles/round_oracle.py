#!/usr/bin/env python3
"""Exact-arithmetic authority for the `round` filter (C17). Stdlib only.

One request per line:   <kind> <value> <method> <precision>
  kind    i = integer receiver (value is a decimal integer)
          b = f64 receiver (value is the IEEE-754 bit pattern as a decimal u64; finite only)
  method  n = nearest, ties away from zero ("common" rounding) | c = ceil | f = floor
  precision  decimal integer (number of decimal places; may be negative or absurdly large)

One answer per line: the bit patterns (decimal u64, space separated) of every acceptable result:
the correctly rounded double of k / 10^precision for each acceptable integer k, where
  x = value * 10^precision            (exact rational)
  k = floor(x) | ceil(x) | x rounded half away from zero
and, for precision != 0 only, BOTH neighbours are acceptable when x lies within a relative
2^-48 (or an absolute 2^-1074, the spacing of subnormal doubles) of the decision point (a tie
for `n`, an integer for `c`/`f`): that is the documented tolerance for the artefacts of
computing value * 10^precision in binary floating point (1.45 is really
1.4499999999999999556, 1.45 * 10 rounds to exactly 14.5, 5e-324 * 0.1 is not representable ...).
For precision == 0 there is no such tolerance: the answer is exact.
"""
import math
import struct
import sys
from fractions import Fraction


def to_float(fr):
    """Correctly rounded double of a Fraction (CPython int/int true division is correctly rounded)."""
    try:
        return fr.numerator / fr.denominator
    except OverflowError:
        return math.inf if fr > 0 else -math.inf


def bits(f):
    return struct.unpack("<Q", struct.pack("<d", f))[0]


def handle(line):
    kind, val, method, p = line.split()
    p = int(p)
    if kind == "i":
        v = Fraction(int(val))
    else:
        v = Fraction(struct.unpack("<d", struct.pack("<Q", int(val)))[0])
    # every double is an integer multiple of 2^-1074 and smaller than 10^309: beyond +-1100 decimal
    # places nothing changes any more
    p = max(-1100, min(1100, p))
    scale = Fraction(10) ** p
    x = v * scale
    fl = math.floor(x)
    ce = math.ceil(x)
    # binary granularity of the product: relative 2^-48, and never finer than the smallest subnormal
    tol = Fraction(0) if p == 0 else max(abs(x) / (1 << 48), Fraction(1, 1 << 1074))
    ks = set()
    if fl == ce:
        ks.add(fl)
    elif method == "f":
        ks.add(fl)
        if ce - x <= tol:
            ks.add(ce)
    elif method == "c":
        ks.add(ce)
        if x - fl <= tol:
            ks.add(fl)
    else:
        d = x - fl
        half = Fraction(1, 2)
        if tol > 0 and abs(d - half) <= tol:
            ks.update((fl, ce))
        elif d > half:
            ks.add(ce)
        elif d < half:
            ks.add(fl)
        else:  # exact tie, no tolerance: away from zero
            ks.add(ce if x > 0 else fl)
    out = sorted({bits(to_float(Fraction(k) / scale)) for k in ks})
    return " ".join(str(b) for b in out)


def main():
    for line in sys.stdin:
        line = line.strip()
        if not line:
            continue
        try:
            print(handle(line), flush=True)
        except Exception as e:  # never leave the harness waiting for an answer
            print("ERROR " + repr(e), flush=True)


if __name__ == "__main__":
    main()
