//! C14 — indexing and slicing follow Python semantics and respect character boundaries.
//!
//! Families (all executed on the real engine, judged by `oracles/slice_oracle.py`, i.e. by Python's
//! own `list[slice(a, b, c)]` / `list[i]` on the array elements or on the code points of the string):
//!   slices  every sequence x every (start, stop, step) of the bound alphabets x `[` and `?[` x
//!           spellings (bounds as context values in their exact integer encoding; literal spelling
//!           for the i64-range part, also with the sequence itself written as a literal); plus
//!           non-integer bounds (must be refused) and u128 bounds above i128::MAX (must behave like any far-out-of-range integer).
//!   index   every sequence x every index of the index alphabet x `{{ x[i] }}`, `x[i] is defined`,
//!           `x[i] | default`, with `[` and `?[`, context and literal spelling; non-integer indices.
//!   chars   every string: `for c in s` (with loop counters), `length`, `reverse`,
//!           `truncate(length=k)` for k = 0..7 and i64::MAX with three `end` strings.
//!
//! One work item = one sequence x everything, sent to Python as one batch per kind of question.

use mccore::engine::{self, Out};
use mccore::pyoracle::PyOracle;
use mccore::vals::{self, V};
use mccore::{Acc, Family, Run, Violation, json};
use std::cell::RefCell;

// ------------------------------------------------------------------------------------- oracle

thread_local! {
    static ORACLE: RefCell<Option<PyOracle>> = const { RefCell::new(None) };
}

fn ask1(req: String) -> String {
    let ans = ORACLE.with(|o| {
        o.borrow_mut()
            .get_or_insert_with(|| PyOracle::spawn("slice_oracle.py"))
            .ask(std::slice::from_ref(&req))
    });
    if ans[0].starts_with('!') {
        eprintln!("MACHINERY: slice oracle failed on request {req:?}: {}", ans[0]);
        std::process::exit(mccore::kernel::EXIT_MACHINERY);
    }
    ans.into_iter().next().unwrap()
}

fn parse_elems(txt: &str) -> Vec<i64> {
    // "=1,2,3" / "="
    let body = txt.strip_prefix('=').unwrap_or_else(|| {
        eprintln!("MACHINERY: slice oracle answered {txt:?}");
        std::process::exit(mccore::kernel::EXIT_MACHINERY)
    });
    if body.is_empty() {
        vec![]
    } else {
        body.split(',').map(|x| x.parse().expect("oracle element")).collect()
    }
}

// ------------------------------------------------------------------------------------- sequences

#[derive(Clone, Copy, PartialEq, Debug)]
enum SeqKind {
    IntArr,
    StrArr,
    Str,
}

struct Seq {
    v: V,
    kind: SeqKind,
    /// what Python sees: array elements (ints / element numbers) or code points
    ids: Vec<i64>,
    /// thorough tier: crossed with the extended bound alphabets (every integer encoding); the other
    /// sequences (the bulk of the byte-length patterns) are crossed with the base alphabets, since
    /// the encoding of a bound is consumed before the sequence is looked at
    wide: bool,
}

/// Characters by UTF-8 length (row) and position (column): all distinct inside one string.
const CHARS: [[char; 8]; 4] = [
    ['a', 'b', 'c', 'd', 'e', 'f', 'g', 'h'],
    ['é', 'ü', 'ñ', 'ö', 'ß', 'Ω', 'Ж', 'λ'],
    ['€', '你', '好', '한', '✓', '→', 'あ', '\u{fffd}'],
    ['😀', '𝄞', '🚀', '𐍈', '🎉', '𠀀', '🦀', '\u{10ffff}'],
];
/// Elements of the string arrays (an array of strings must be sliced by elements, not characters).
const NAMES: [&str; 6] = ["a", "é€", "", "😀b", "xy", "ß"];

impl Seq {
    fn int_arr(n: usize) -> Seq {
        let ids: Vec<i64> = (0..n as i64).map(|i| 10 + i).collect();
        Seq { v: V::Arr(ids.iter().map(|i| V::I64(*i)).collect()), kind: SeqKind::IntArr, ids, wide: true }
    }
    fn str_arr(n: usize) -> Seq {
        let ids: Vec<i64> = (0..n as i64).collect();
        Seq { v: V::Arr(ids.iter().map(|i| V::s(NAMES[*i as usize])).collect()), kind: SeqKind::StrArr, ids, wide: true }
    }
    /// A string whose i-th character has UTF-8 length `classes[i]` (1..=4).
    fn string(classes: &[u8]) -> Seq {
        let s: String = classes.iter().enumerate().map(|(p, c)| CHARS[(*c - 1) as usize][p % 8]).collect();
        Seq::text(&s)
    }
    fn text(s: &str) -> Seq {
        Seq { v: V::s(s), kind: SeqKind::Str, ids: s.chars().map(|c| c as i64).collect(), wide: true }
    }
    fn kind_name(&self) -> &'static str {
        if self.kind == SeqKind::Str { "string" } else { "array" }
    }
    fn py(&self) -> String {
        self.ids.iter().map(|i| i.to_string()).collect::<Vec<_>>().join(",")
    }
    /// How the engine prints the sub-sequence made of these elements.
    fn show_many(&self, ids: &[i64]) -> String {
        match self.kind {
            SeqKind::Str => ids.iter().map(|c| char::from_u32(*c as u32).expect("code point")).collect(),
            SeqKind::IntArr => format!("[{}]", ids.iter().map(|i| i.to_string()).collect::<Vec<_>>().join(", ")),
            SeqKind::StrArr => format!("[{}]", ids.iter().map(|i| format!("{:?}", NAMES[*i as usize])).collect::<Vec<_>>().join(", ")),
        }
    }
    /// How the engine prints one element on its own.
    fn show_one(&self, id: i64) -> String {
        match self.kind {
            SeqKind::Str => char::from_u32(id as u32).expect("code point").to_string(),
            SeqKind::IntArr => id.to_string(),
            SeqKind::StrArr => NAMES[id as usize].to_string(),
        }
    }
    fn literal(&self) -> String {
        self.v.literal().expect("sequences have a literal spelling")
    }
}

fn sequences(thorough: bool) -> Vec<Seq> {
    let mut out = vec![];
    let max_arr = if thorough { 7 } else { 5 };
    for n in 0..=max_arr {
        out.push(Seq::int_arr(n));
    }
    for n in if thorough { vec![0, 1, 2, 3, 4, 5, 6] } else { vec![3] } {
        out.push(Seq::str_arr(n));
    }
    if thorough {
        // every byte-length pattern of every length 0..=5
        for len in 0..=5u32 {
            for code in 0..4u32.pow(len) {
                let classes: Vec<u8> = (0..len).map(|p| ((code / 4u32.pow(p)) % 4) as u8 + 1).collect();
                let mut seq = Seq::string(&classes);
                // one mixed pattern per length (byte lengths rotate with the position) keeps the wide alphabets
                seq.wide = classes.iter().enumerate().all(|(p, c)| *c as usize == (p + len as usize) % 4 + 1);
                out.push(seq);
            }
        }
    } else {
        // one mixed string per length 0..=5, plus an all-ASCII one
        let patterns: [&[u8]; 7] = [&[], &[2], &[1, 3], &[4, 1, 2], &[2, 3, 4, 1], &[1, 4, 3, 2, 1], &[1, 1, 1]];
        for classes in patterns {
            out.push(Seq::string(classes));
        }
    }
    // strings stored out of line (more than 21 bytes)
    out.push(Seq::string(&[4, 3, 2, 4, 4, 3, 4])); // 7 characters, 24 bytes
    if thorough {
        out.push(Seq::string(&[4, 4, 4, 4, 4, 4])); // 6 characters, 24 bytes
        out.push(Seq::string(&[1, 2, 3, 4, 1, 2, 3, 4])); // 8 characters, 20 bytes (inline)
        out.push(Seq::text("abcdefghijklmnopqrstuvwxyz0123")); // 30 ASCII characters
        out.push(Seq::text("e\u{301}a\u{308}\u{1f468}\u{200d}\u{1f469}z")); // combining marks, ZWJ: code points, not graphemes
        out.push(Seq::text("<é>&\u{a0}\t")); // markup characters, NBSP, a tab
    }
    out
}

// ------------------------------------------------------------------------------------- parameters

#[derive(Clone, Debug, PartialEq)]
enum P {
    Absent,
    NoneLit,
    Val(V),
}

impl P {
    fn py(&self) -> String {
        match self {
            P::Absent | P::NoneLit => "N".into(),
            P::Val(v) => int_text(v),
        }
    }
    fn describe(&self) -> String {
        match self {
            P::Absent => "absent".into(),
            P::NoneLit => "none".into(),
            P::Val(v) => v.describe(),
        }
    }
    /// Spelling inside the template source, when there is one.
    fn literal(&self) -> Option<String> {
        match self {
            P::Absent => Some(String::new()),
            P::NoneLit => Some("none".into()),
            P::Val(V::I64(i)) if *i != i64::MIN => Some(i.to_string()),
            _ => None,
        }
    }
    fn ctx_value(&self) -> V {
        match self {
            P::Absent => V::Undef,
            P::NoneLit => V::None,
            P::Val(v) => v.clone(),
        }
    }
}

fn int_text(v: &V) -> String {
    match v {
        V::I64(i) => i.to_string(),
        V::U64(i) => i.to_string(),
        V::I128(i) => i.to_string(),
        V::U128(i) => i.to_string(),
        _ => unreachable!("integer parameters only"),
    }
}

fn is_negative(v: &V) -> bool {
    matches!(v, V::I64(i) if *i < 0) || matches!(v, V::I128(i) if *i < 0)
}

/// Index alphabet I of DESIGN.md section 4 (the i64-range part is I64-encoded and has a literal spelling),
/// followed by the same small values in the other integer encodings and the 64-bit extremes.
fn index_alphabet() -> Vec<V> {
    let mut v = vec![V::I128(i128::MIN), V::I128(-(1i128 << 64))];
    for i in -7..=7i64 {
        v.push(V::I64(i));
    }
    v.push(V::I128(1i128 << 64));
    v.push(V::I128(i128::MAX));
    v.push(V::U128(u128::MAX));
    v.extend(other_encodings());
    v.push(V::U128(1u128 << 127));
    // just beyond the signed 64-bit range on the negative side (reached as `-m` with m a u64)
    v.push(V::I128(-(1i128 << 63) - 1));
    v.push(V::I128(-(u64::MAX as i128)));
    v
}

/// m such that `-m` is the index: held unsigned (u64 when it fits) for a non-positive index, signed
/// for a positive one. (Seeded change C14-13 negated a u64 through a wrapping cast to i64.)
fn negation_operand(i: &V) -> Option<V> {
    let x = i.as_i128()?;
    let m = x.checked_neg()?;
    Some(if m >= 0 {
        match u64::try_from(m) {
            Ok(u) => V::U64(u),
            Err(_) => V::U128(m as u128),
        }
    } else {
        match i64::try_from(m) {
            Ok(s) => V::I64(s),
            Err(_) => V::I128(m),
        }
    })
}

fn other_encodings() -> Vec<V> {
    vec![
        V::U64(0),
        V::U64(2),
        V::I128(-2),
        V::I128(1),
        V::U128(1),
        V::U128(3),
        V::I64(i64::MIN),
        V::I64(i64::MAX),
        V::U64(u64::MAX),
    ]
}

fn bound_alphabet(thorough: bool) -> Vec<P> {
    let mut v = vec![P::Absent, P::NoneLit, P::Val(V::I128(i128::MIN)), P::Val(V::I128(-(1i128 << 64)))];
    for i in -7..=7i64 {
        v.push(P::Val(V::I64(i)));
    }
    v.push(P::Val(V::I128(1i128 << 64)));
    v.push(P::Val(V::I128(i128::MAX)));
    if thorough {
        v.extend(other_encodings().into_iter().map(P::Val));
    }
    v
}

fn step_alphabet(thorough: bool) -> Vec<P> {
    let mut v = vec![P::Absent, P::NoneLit, P::Val(V::I128(i128::MIN)), P::Val(V::I128(-(1i128 << 64)))];
    for i in [-3i64, -2, -1, 0, 1, 2, 3] {
        v.push(P::Val(V::I64(i)));
    }
    v.push(P::Val(V::I128(1i128 << 64)));
    v.push(P::Val(V::I128(i128::MAX)));
    if thorough {
        v.extend(other_encodings().into_iter().map(P::Val));
        v.push(P::Val(V::I128(0)));
    }
    v
}

/// One value per non-integer kind (an unbound variable included): never acceptable as index / bound.
fn non_integers() -> Vec<(&'static str, V)> {
    vec![
        ("float", V::F64(1.0)),
        ("string", V::s("1")),
        ("bool", V::Bool(true)),
        ("array", V::Arr(vec![V::I64(1)])),
        ("map", V::map(&[("a", V::I64(1))])),
        ("undefined", V::Undef),
    ]
}

/// `x[s:e:t]` with the given spellings of the three parts ("" = absent).
fn slice_src(seq: &str, bracket: &str, s: &str, e: &str, t: &str) -> String {
    if t.is_empty() {
        format!("{{{{ {seq}{bracket}{s}:{e}] }}}}")
    } else {
        format!("{{{{ {seq}{bracket}{s}:{e}:{t}] }}}}")
    }
}

const BRACKETS: [&str; 2] = ["[", "?["];

// ------------------------------------------------------------------------------------- self-test

/// Hand-transcribed from docs/content/_index.md "Slicing", MIGRATION.md "Slicing" and the snapshot
/// test indexing.txt (numbers = [1, 2, 3], product.name = "Moto G").
fn documented_examples() -> Vec<(&'static str, &'static str)> {
    vec![
        ("{{ numbers[0] }}", "1"),
        ("{{ numbers?[0] }}", "1"),
        ("{{ numbers[-1] }}", "3"),
        ("{{ numbers[:-1] }}", "[1, 2]"),
        ("{{ numbers[:2] }}", "[1, 2]"),
        ("{{ numbers[1:2] }}", "[2]"),
        ("{{ numbers[0:2:2] }}", "[1]"),
        ("{{ numbers[::2] }}", "[1, 3]"),
        ("{{ numbers[::-2] }}", "[3, 1]"),
        ("{{ numbers[10:20] }}", "[]"),
        ("{{ numbers[::-1] }}", "[3, 2, 1]"),
        ("{{ name[::2] }}", "Mt "),
        ("{{ name[-1] }}", "G"),
        ("{{ name[::-1] }}", "G otoM"),
        ("{{ name[1:] }}", "oto G"),
        ("{{ name[:-1] }}", "Moto "),
        ("{{ numbers[10::-1] }}", "[3, 2, 1]"),
        ("{{ numbers[1000:] }}", "[]"),
        ("{{ numbers[:1000] }}", "[1, 2, 3]"),
        ("{{ numbers[-100:] }}", "[1, 2, 3]"),
        ("{{ numbers[:-100:-1] }}", "[3, 2, 1]"),
        ("{{ numbers[none:2] }}", "[1, 2]"),
        ("{{ numbers[1:none] }}", "[2, 3]"),
        ("{{ numbers[::none] }}", "[1, 2, 3]"),
    ]
}

/// Parses the tiny documented-example syntax `{{ var[...] }}` into an oracle request.
fn example_request(src: &str) -> (bool, String) {
    let inner = src.trim_start_matches("{{ ").trim_end_matches(" }}");
    let (var, rest) = inner.split_once('[').map(|(a, b)| (a.trim_end_matches('?'), b)).unwrap();
    let rest = rest.trim_end_matches(']');
    let seq = if var == "numbers" { "1,2,3".to_string() } else { "Moto G".chars().map(|c| (c as u32).to_string()).collect::<Vec<_>>().join(",") };
    let is_str = var != "numbers";
    if rest.contains(':') {
        let mut parts: Vec<String> = rest.split(':').map(|p| if p.is_empty() || p == "none" { "N".to_string() } else { p.to_string() }).collect();
        while parts.len() < 3 {
            parts.push("N".into());
        }
        (is_str, format!("S {seq}|{}", parts.join(",")))
    } else {
        (is_str, format!("I {seq}|{rest}"))
    }
}

fn self_test(run: &mut Run, tera: &tera::Tera) {
    let numbers = V::Arr(vec![V::I64(1), V::I64(2), V::I64(3)]);
    let name = V::s("Moto G");
    let ctx = vals::context(&[("numbers", &numbers), ("name", &name)]);
    let mut bad = vec![];
    let mut n = 0;
    for (src, want) in documented_examples() {
        n += 1;
        let (is_str, req) = example_request(src);
        let ans = ask1(req.clone());
        let is_slice = req.starts_with('S');
        let ids = if ans == "E" || ans == "U" { None } else { Some(parse_elems(&ans)) };
        let oracle_text = ids.map(|ids| {
            if is_str {
                ids.iter().map(|c| char::from_u32(*c as u32).unwrap()).collect::<String>()
            } else if is_slice {
                format!("[{}]", ids.iter().map(|i| i.to_string()).collect::<Vec<_>>().join(", "))
            } else {
                ids[0].to_string()
            }
        });
        if oracle_text.as_deref() != Some(want) {
            bad.push(format!("{src}: documented {want:?}, oracle {oracle_text:?} (request {req:?})"));
        }
        let out = engine::render_str(tera, src, &ctx, false);
        if out.ok() != Some(want) {
            run.direct_violation(
                "documented-examples",
                Violation {
                    signature: format!("documented-example:{}", if is_slice { "slice" } else { "index" }),
                    message: format!("{src} with numbers=[1, 2, 3], name=\"Moto G\" gave {}, documented {want:?}", out.show()),
                    case: json!({"template": src, "numbers": numbers.describe(), "name": name.describe()}),
                },
            );
        }
    }
    // character operations, by hand: "aé€😀" has 4 characters (1+2+3+4 bytes)
    let ans = ask1("C 97,233,8364,128512|0,2,4,5|8230".to_string());
    let want = "4 =128512,8364,233,97 =8230;=97,233,8230;=97,233,8364,128512;=97,233,8364,128512";
    n += 1;
    if ans != want {
        bad.push(format!("character operations on \"aé€😀\": expected {want:?}, oracle {ans:?}"));
    }
    if !bad.is_empty() {
        for b in &bad {
            println!("MACHINERY: oracle self-test failed: {b}");
        }
        std::process::exit(mccore::kernel::EXIT_MACHINERY);
    }
    run.extra("oracle_selftest_examples", json!(n));
    run.guard("oracle-selftest", true, format!("slice_oracle.py reproduced all {n} hand-transcribed documented examples"));
    ORACLE.with(|o| *o.borrow_mut() = None);
}

// ------------------------------------------------------------------------------------- main

fn main() {
    let mut run = Run::from_env("C14", "exploration");
    // the full bounds cost only a few seconds: both tiers run them
    let thorough = true;
    run.rule(
        "slices: every sequence x every (start, stop, step) triple of the bound alphabets x `[`/`?[` x every available \
         spelling (context values; literals when all three parts are i64-range; sequence literal), one case per rendered \
         template, plus one-position deviations to each non-integer kind and to u128 values above i128::MAX. index: every \
         sequence x every index x 3 observations x `[`/`?[` x spellings. chars: every string x 5 character operations. \
         Non-trivial = the sequence has at least one element or the oracle expects an error (on an empty sequence every \
         slice is empty and every index undefined). Cases are distinct (sequence, parameters, form, spelling) tuples.",
    );
    run.assume("oracle = CPython's own list slicing / indexing (arbitrarily large slice integers) on array elements or on the code points of the string; default feature set of tera: characters are code points (the `unicode` grapheme feature is off)");
    run.assume("an index / bound of a non-integer kind (float, string, bool, array, map, unbound variable) must be refused; `none` as a bound means absent");
    run.assume("a slice bound or step held as u128 above i128::MAX must select what Python selects for that integer (it was refused before fix 62601b6); as an *index* such a value must give undefined.");
    run.assume("sequence lengths above the bound (arrays > 7, strings > 8 characters except one 30-character string) and element kinds other than integers / strings are not explored");

    let seqs = sequences(thorough);
    let nseq = seqs.len() as u64;
    let bounds = bound_alphabet(thorough);
    let steps = step_alphabet(thorough);
    let (bounds_base, steps_base) = (bound_alphabet(false), step_alphabet(false));
    let nwide = seqs.iter().filter(|s| s.wide).count();
    let indices = index_alphabet();
    let strings: Vec<usize> = seqs.iter().enumerate().filter(|(_, s)| s.kind == SeqKind::Str).map(|(i, _)| i).collect();
    run.extra(
        "alphabets",
        json!({
            "sequences": if thorough { json!(format!("{} sequences: int arrays of length 0..=7, string arrays 0..=6, all {} strings of 0..=5 characters over every UTF-8 byte-length pattern, 6 longer / special strings", nseq, strings.len() - 6)) } else { json!(seqs.iter().map(|s| s.v.describe()).collect::<Vec<_>>()) },
            "start_stop": bounds.iter().map(|p| p.describe()).collect::<Vec<_>>(),
            "step": steps.iter().map(|p| p.describe()).collect::<Vec<_>>(),
            "start_stop_base": bounds_base.iter().map(|p| p.describe()).collect::<Vec<_>>(),
            "step_base": steps_base.iter().map(|p| p.describe()).collect::<Vec<_>>(),
            "sequences_with_full_alphabets": nwide,
            "index": indices.iter().map(|p| p.describe()).collect::<Vec<_>>(),
            "non_integer_kinds": non_integers().iter().map(|(k, _)| *k).collect::<Vec<_>>(),
            "truncate_lengths": "0..=7, 9223372036854775807; end = default ellipsis, \"\", \"→é\"",
        }),
    );
    run.extra(
        "bounds",
        json!(format!(
            "{} sequences x {}x{}x{} (start, stop, step) triples ({} sequences: {}x{}x{} with every integer encoding) x 2 bracket forms; {} indices; {} strings for character operations",
            nseq, bounds_base.len(), bounds_base.len(), steps_base.len(), nwide, bounds.len(), bounds.len(), steps.len(), indices.len(), strings.len()
        )),
    );
    let tera_inst = tera::Tera::default();
    if run.is_supervisor() {
        self_test(&mut run, &tera_inst);
    }

    // ---------------------------------------------------------------- slices
    run.family(
        Family::new(
            "slices",
            nseq,
            &format!(
                "{nseq} sequences x all {}x{}x{} start/stop/step triples ({nwide} of them x {}x{}x{}: every integer encoding of the bounds) x `[` and `?[` x context/literal spellings; non-integer and u128 bounds",
                bounds_base.len(), bounds_base.len(), steps_base.len(), bounds.len(), bounds.len(), steps.len()
            ),
        )
        .describe(|i| json!({"x": seqs[i as usize].v.describe(), "parameters": "every (start, stop, step) triple"})),
        |item, acc: &mut Acc| {
            let seq = &seqs[item as usize];
            let kind = seq.kind_name();
            let nonempty = !seq.ids.is_empty();
            let seq_lit = seq.literal();
            let (bounds, steps) = if seq.wide { (&bounds, &steps) } else { (&bounds_base, &steps_base) };
            // ---- the full product
            let mut triples = String::new();
            for s in bounds {
                for e in bounds {
                    for t in steps {
                        if !triples.is_empty() {
                            triples.push(';');
                        }
                        triples.push_str(&format!("{},{},{}", s.py(), e.py(), t.py()));
                    }
                }
            }
            let answer = ask1(format!("S {}|{triples}", seq.py()));
            let mut results = answer.split(';');
            for s in bounds {
                for e in bounds {
                    for t in steps {
                        let res = results.next().expect("one oracle result per triple");
                        let want: Option<String> = if res == "E" { None } else { Some(seq.show_many(&parse_elems(res))) };
                        let neg_step = matches!(t, P::Val(v) if is_negative(v));
                        let dir = if neg_step { "neg-step" } else { "pos-step" };
                        let ctx = vals::context(&[("x", &seq.v), ("s", &s.ctx_value()), ("e", &e.ctx_value()), ("t", &t.ctx_value())]);
                        let name = |p: &P, n: &str| if *p == P::Absent { String::new() } else { n.to_string() };
                        let mut forms: Vec<(String, &'static str)> = vec![];
                        for br in BRACKETS {
                            forms.push((slice_src("x", br, &name(s, "s"), &name(e, "e"), &name(t, "t")), "ctx"));
                        }
                        if let (Some(ls), Some(le), Some(lt)) = (s.literal(), e.literal(), t.literal()) {
                            for br in BRACKETS {
                                forms.push((slice_src("x", br, &ls, &le, &lt), "lit"));
                            }
                            forms.push((slice_src(&seq_lit, "[", &ls, &le, &lt), "seq-lit"));
                        }
                        for (src, spelling) in forms {
                            let out = engine::render_str(&tera_inst, &src, &ctx, false);
                            let case = || json!({"template": src, "x": seq.v.describe(), "s": s.describe(), "e": e.describe(), "t": t.describe(), "spelling": spelling});
                            match (&out, &want) {
                                (Out::Ok(got), Some(w)) if got == w => {}
                                (Out::Err(..), None) => {}
                                (Out::Panic(p), _) => acc.violation(format!("slice-panic:{kind}:{dir}"), format!("{src} panicked: {p}"), case),
                                (Out::Ok(got), Some(w)) => acc.violation(
                                    format!("slice-mismatch:{kind}:{dir}"),
                                    format!("{src} on x={} (s={}, e={}, t={}) gave {got:?}, Python selects {w:?}", seq.v.describe(), s.describe(), e.describe(), t.describe()),
                                    case,
                                ),
                                (Out::Ok(got), None) => acc.violation(
                                    format!("slice-step-zero:no-error:{kind}"),
                                    format!("{src} with a zero step gave {got:?}, expected an error"),
                                    case,
                                ),
                                (Out::Err(..), Some(w)) => acc.violation(
                                    format!("slice-unexpected-err:{kind}:{dir}"),
                                    format!("{src} on x={} (s={}, e={}, t={}) gave {}, Python selects {w:?}", seq.v.describe(), s.describe(), e.describe(), t.describe(), out.show()),
                                    case,
                                ),
                            }
                            acc.case(nonempty || want.is_none(), out.class());
                            if spelling != "ctx" {
                                acc.count("literal_spellings", 1);
                            }
                            if out.is_ok() && neg_step && want.as_deref().is_some_and(|w| w.chars().count() > if kind == "array" { 2 } else { 0 }) {
                                acc.count("nonempty_negative_step_results", 1);
                            }
                            if item == 4 && *s == P::Val(V::I64(-2)) && *e == P::Absent && spelling == "ctx" {
                                acc.sample(|| json!({"template": src, "x": seq.v.describe(), "s": s.describe(), "e": e.describe(), "t": t.describe(), "observed": out.show(), "python": res}));
                            }
                        }
                    }
                }
            }
            // ---- one position deviates to a non-integer kind: must be refused
            let others = [P::Absent, P::Val(V::I64(1))];
            for pos in 0..3 {
                for (kname, bad) in non_integers() {
                    for o1 in &others {
                        for o2 in &others {
                            let mut ps = [o1.clone(), o2.clone(), o2.clone()];
                            ps[pos] = P::Val(bad.clone());
                            ps[(pos + 1) % 3] = o1.clone();
                            ps[(pos + 2) % 3] = o2.clone();
                            let ctx = vals::context(&[("x", &seq.v), ("s", &ps[0].ctx_value()), ("e", &ps[1].ctx_value()), ("t", &ps[2].ctx_value())]);
                            let name = |p: &P, n: &str| if *p == P::Absent { String::new() } else { n.to_string() };
                            for br in BRACKETS {
                                let src = slice_src("x", br, &name(&ps[0], "s"), &name(&ps[1], "e"), &name(&ps[2], "t"));
                                let out = engine::render_str(&tera_inst, &src, &ctx, false);
                                if !out.is_err() {
                                    acc.violation(
                                        format!("slice-non-integer-bound:{}:{kind}", if out.is_panic() { "panic" } else { "accepted" }),
                                        format!("{src} with a {kname} as {} gave {}, expected an error", ["start", "stop", "step"][pos], out.show()),
                                        || json!({"template": src, "x": seq.v.describe(), "s": ps[0].describe(), "e": ps[1].describe(), "t": ps[2].describe()}),
                                    );
                                }
                                acc.case(true, if out.is_err() { "refused-non-integer" } else { out.class() });
                            }
                        }
                    }
                }
            }
            // ---- one position holds a u128 above i128::MAX: must select what Python selects
            let small = [P::Absent, P::Val(V::I64(0)), P::Val(V::I64(2)), P::Val(V::I64(-1))];
            let mut wide_cases: Vec<[P; 3]> = vec![];
            for pos in 0..3 {
                for big in [V::U128(1u128 << 127), V::U128(u128::MAX)] {
                    for o1 in &small {
                        for o2 in &small {
                            let mut ps = [P::Absent, P::Absent, P::Absent];
                            ps[pos] = P::Val(big.clone());
                            ps[(pos + 1) % 3] = o1.clone();
                            ps[(pos + 2) % 3] = o2.clone();
                            wide_cases.push(ps);
                        }
                    }
                }
            }
            let req = wide_cases.iter().map(|ps| format!("{},{},{}", ps[0].py(), ps[1].py(), ps[2].py())).collect::<Vec<_>>().join(";");
            let answer = ask1(format!("S {}|{req}", seq.py()));
            for (ps, res) in wide_cases.iter().zip(answer.split(';')) {
                let want: Option<String> = if res == "E" { None } else { Some(seq.show_many(&parse_elems(res))) };
                let ctx = vals::context(&[("x", &seq.v), ("s", &ps[0].ctx_value()), ("e", &ps[1].ctx_value()), ("t", &ps[2].ctx_value())]);
                let name = |p: &P, n: &str| if *p == P::Absent { String::new() } else { n.to_string() };
                let src = slice_src("x", "[", &name(&ps[0], "s"), &name(&ps[1], "e"), &name(&ps[2], "t"));
                let out = engine::render_str(&tera_inst, &src, &ctx, false);
                let fine = match (&out, &want) {
                    (Out::Err(..), None) => true,
                    (Out::Ok(got), Some(w)) => got == w,
                    _ => false,
                };
                if !fine {
                    acc.violation(
                        format!("slice-u128-bound:{}:{kind}", if out.is_panic() { "panic" } else if out.is_err() { "refused" } else { "wrong-result" }),
                        format!("{src} (s={}, e={}, t={}) gave {}, Python selects {want:?}", ps[0].describe(), ps[1].describe(), ps[2].describe(), out.show()),
                        || json!({"template": src, "x": seq.v.describe(), "s": ps[0].describe(), "e": ps[1].describe(), "t": ps[2].describe()}),
                    );
                }
                acc.case(true, if out.is_err() { "u128-bound-refused" } else { "u128-bound-computed" });
            }
        },
    );

    // ---------------------------------------------------------------- index
    run.family(
        Family::new(
            "index",
            nseq,
            &format!("{nseq} sequences x {} integer indices (+ one value per non-integer kind) x (print, is defined, default) x `[` and `?[` x context/literal spelling", indices.len()),
        )
        .describe(|i| json!({"x": seqs[i as usize].v.describe(), "index": "every value of the index alphabet"})),
        |item, acc: &mut Acc| {
            let seq = &seqs[item as usize];
            let kind = seq.kind_name();
            let nonempty = !seq.ids.is_empty();
            let req = indices.iter().map(int_text).collect::<Vec<_>>().join(";");
            let answer = ask1(format!("I {}|{req}", seq.py()));
            for (iv, res) in indices.iter().zip(answer.split(';')) {
                // None = undefined
                let want: Option<String> = if res == "U" { None } else { Some(seq.show_one(parse_elems(res)[0])) };
                let neg = negation_operand(iv);
                let ctx = vals::context(&[("x", &seq.v), ("i", iv), ("m", neg.as_ref().unwrap_or(&V::Undef))]);
                let mut spell: Vec<(String, &'static str)> = vec![("i".into(), "ctx")];
                if let Some(l) = P::Val(iv.clone()).literal() {
                    spell.push((l, "lit"));
                }
                if neg.is_some() {
                    // the minus written in the template, its operand from the context
                    spell.push(("-m".into(), "negated-ctx"));
                }
                for (isrc, spelling) in spell {
                    for br in BRACKETS {
                        let access = format!("x{br}{isrc}]");
                        let case = |src: &str| json!({"template": src, "x": seq.v.describe(), "i": iv.describe(), "spelling": spelling});
                        // 1. printing: the element, or an error (never a panic) when undefined
                        let src = format!("{{{{ {access} }}}}");
                        let out = engine::render_str(&tera_inst, &src, &ctx, false);
                        match (&out, &want) {
                            (Out::Ok(g), Some(w)) if g == w => {}
                            (Out::Err(..), None) => {}
                            (Out::Panic(p), _) => acc.violation(format!("index-panic:{kind}"), format!("{src} with i={} panicked: {p}", iv.describe()), || case(&src)),
                            (_, Some(w)) => acc.violation(
                                format!("index-mismatch:{kind}"),
                                format!("{src} on x={} with i={} gave {}, Python gives {w:?}", seq.v.describe(), iv.describe(), out.show()),
                                || case(&src),
                            ),
                            (_, None) => acc.violation(
                                format!("index-out-of-range:printed:{kind}"),
                                format!("{src} on x={} with i={} gave {}, the index is out of range (undefined cannot be printed)", seq.v.describe(), iv.describe(), out.show()),
                                || case(&src),
                            ),
                        }
                        acc.case(nonempty, if want.is_some() { "element" } else { "undefined:print-refused" });
                        // 2. definedness
                        let src = format!("{{% if {access} is defined %}}D{{% else %}}U{{% endif %}}");
                        let out = engine::render_str(&tera_inst, &src, &ctx, false);
                        let w = if want.is_some() { "D" } else { "U" };
                        if out.ok() != Some(w) {
                            acc.violation(
                                format!("index-definedness:{}:{kind}", if out.is_panic() { "panic" } else if want.is_some() { "in-range-not-defined" } else { "out-of-range-not-undefined" }),
                                format!("{src} on x={} with i={} gave {}, expected {w:?}", seq.v.describe(), iv.describe(), out.show()),
                                || case(&src),
                            );
                        }
                        acc.case(nonempty, if want.is_some() { "defined" } else { "undefined" });
                        // 3. through `default`
                        let src = format!("{{{{ {access} | default(value=\"~\") }}}}");
                        let out = engine::render_str(&tera_inst, &src, &ctx, false);
                        let w = want.clone().unwrap_or_else(|| "~".to_string());
                        if out.ok() != Some(w.as_str()) {
                            acc.violation(
                                format!("index-default:{}:{kind}", if out.is_panic() { "panic" } else { "mismatch" }),
                                format!("{src} on x={} with i={} gave {}, expected {w:?}", seq.v.describe(), iv.describe(), out.show()),
                                || case(&src),
                            );
                        }
                        acc.case(nonempty, if want.is_some() { "element" } else { "undefined:defaulted" });
                        if spelling == "lit" {
                            acc.count("literal_spellings", 3);
                        }
                        if item == 3 && matches!(iv, V::I64(-1) | V::I64(5)) && br == "[" {
                            acc.sample(|| json!({"template": src, "x": seq.v.describe(), "i": iv.describe(), "observed": out.show(), "python": res}));
                        }
                    }
                }
            }
            // non-integer index: an error in every observation (an unbound index variable included)
            for (kname, bad) in non_integers() {
                let ctx = vals::context(&[("x", &seq.v), ("i", &bad)]);
                for br in BRACKETS {
                    for src in [
                        format!("{{{{ x{br}i] }}}}"),
                        format!("{{% if x{br}i] is defined %}}D{{% else %}}U{{% endif %}}"),
                        format!("{{{{ x{br}i] | default(value=\"~\") }}}}"),
                    ] {
                        let out = engine::render_str(&tera_inst, &src, &ctx, false);
                        if !out.is_err() {
                            acc.violation(
                                format!("index-non-integer:{}:{kind}", if out.is_panic() { "panic" } else { "accepted" }),
                                format!("{src} with a {kname} index gave {}, expected an error", out.show()),
                                || json!({"template": src, "x": seq.v.describe(), "i": bad.describe()}),
                            );
                        }
                        acc.case(true, if out.is_err() { "refused-non-integer" } else { out.class() });
                    }
                }
            }
        },
    );

    // ---------------------------------------------------------------- chars
    let nstr = strings.len() as u64;
    let ks: Vec<i64> = (0..=7).chain([i64::MAX]).collect();
    let ends: [(&str, &str); 3] = [("", "…"), (", end=\"\"", ""), (", end=\"→é\"", "→é")];
    run.family(
        Family::new(
            "chars",
            nstr,
            &format!("{nstr} strings x for-loop (characters and loop counters), length, reverse, truncate(length=0..=7 and i64::MAX) x 3 end strings"),
        )
        .describe(|i| json!({"x": seqs[strings[i as usize]].v.describe()})),
        |item, acc: &mut Acc| {
            let seq = &seqs[strings[item as usize]];
            let ctx = vals::context(&[("x", &seq.v)]);
            let text = |ids: &[i64]| seq.show_many(ids);
            let multibyte = seq.ids.iter().any(|c| *c > 0x7f);
            let kreq = ks.iter().map(|k| k.to_string()).collect::<Vec<_>>().join(",");
            let check = |acc: &mut Acc, what: &str, src: String, want: String| {
                let out = engine::render_str(&tera_inst, &src, &ctx, false);
                if out.ok() != Some(want.as_str()) {
                    acc.violation(
                        format!("chars:{what}{}", if out.is_panic() { ":panic" } else { "" }),
                        format!("{src} on x={} gave {}, by characters it is {want:?}", seq.v.describe(), out.show()),
                        || json!({"template": src, "x": seq.v.describe()}),
                    );
                }
                acc.case(multibyte, out.class());
                if item == 5 && what != "truncate" {
                    acc.sample(|| json!({"template": src, "x": seq.v.describe(), "observed": out.show()}));
                }
            };
            for (ei, (end_src, end_text)) in ends.iter().enumerate() {
                let end_cps = end_text.chars().map(|c| (c as u32).to_string()).collect::<Vec<_>>().join(",");
                let ans = ask1(format!("C {}|{kreq}|{end_cps}", seq.py()));
                let fields: Vec<&str> = ans.split(' ').collect();
                assert!(fields.len() == 3, "oracle C answer: {ans:?}");
                let n: usize = fields[0].parse().expect("length");
                if ei == 0 {
                    check(acc, "length", "{{ x | length }}".into(), n.to_string());
                    check(acc, "reverse", "{{ x | reverse }}".into(), text(&parse_elems(fields[1])));
                    check(
                        acc,
                        "for",
                        "{% for c in x %}[{{ c }}]{% endfor %}".into(),
                        seq.ids.iter().map(|c| format!("[{}]", seq.show_one(*c))).collect(),
                    );
                    check(
                        acc,
                        "loop-counters",
                        "{% for c in x %}{{ loop.index0 }}/{{ loop.length }}{% if loop.first %}^{% endif %}{% if loop.last %}${% endif %};{% endfor %}".into(),
                        (0..n).map(|i| format!("{i}/{n}{}{};", if i == 0 { "^" } else { "" }, if i + 1 == n { "$" } else { "" })).collect(),
                    );
                    check(acc, "for", "{% for c in x | reverse %}[{{ c }}]{% endfor %}".into(), seq.ids.iter().rev().map(|c| format!("[{}]", seq.show_one(*c))).collect());
                }
                for (k, t) in ks.iter().zip(fields[2].split(';')) {
                    check(acc, "truncate", format!("{{{{ x | truncate(length={k}{end_src}) }}}}"), text(&parse_elems(t)));
                    if (*k as usize) < n {
                        acc.count("truncations_that_cut", 1);
                    }
                }
            }
        },
    );

    if run.is_supervisor() {
        let (ok, err) = (run.outcome("slices", "ok"), run.outcome("slices", "err"));
        run.guard("slices-both-outcomes", ok > 0 && err > 0, format!("ok={ok} err={err} (err = zero step)"));
        let neg = run.counter("nonempty_negative_step_results");
        run.guard("negative-step-selects", neg > 100, format!("{neg} negative-step slices selected elements"));
        let (d, u) = (run.outcome("index", "defined"), run.outcome("index", "undefined"));
        run.guard("index-both-outcomes", d > 0 && u > 0, format!("defined={d} undefined={u}"));
        let refused = run.outcome_any("refused-non-integer");
        run.guard("non-integer-refusals-exercised", refused > 0, format!("{refused} non-integer indices / bounds refused"));
        let lit = run.counter("literal_spellings");
        run.guard("literal-spellings-exercised", lit > 1000, format!("{lit} cases spelled with literals"));
        let cut = run.counter("truncations_that_cut");
        run.guard("truncate-cuts", cut > 10, format!("{cut} truncate calls with length below the number of characters"));
        let mb = seqs.iter().filter(|s| s.kind == SeqKind::Str && s.ids.iter().any(|c| *c > 0x7f)).count();
        run.guard("multibyte-strings", mb >= 5, format!("{mb} strings contain multi-byte characters"));
        let u128_total = run.outcome("slices", "u128-bound-refused") + run.outcome("slices", "u128-bound-computed");
        run.extra("u128_bound_cases", json!({"u128_bound_refused": run.outcome("slices", "u128-bound-refused"), "u128_bound_computed": run.outcome("slices", "u128-bound-computed"), "total": u128_total}));
    }
    run.finish();
}
