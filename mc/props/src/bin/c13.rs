//! C13 — integer arithmetic is exact or an error; mixed numeric comparisons are exact.
//!
//! Families (all executed on the real engine through `{{ a OP b }}` / `{{ -a }}`):
//!   arithmetic  every ordered pair (a, b) of the numeric alphabet N x `+ - * / // % **`, operands
//!               supplied as context values (exact encoding i64/u64/i128/u128/f64) and, where the
//!               language can spell them, also as literals in the template source (all four
//!               combinations of spelling). Judged by `oracles/numeric_oracle.py` (Python ints,
//!               IEEE doubles); additionally both Euclidean identities of the statement are checked
//!               on the engine's own `//` and `%` outputs with checked i128 arithmetic.
//!   comparison  every ordered pair x `== != < <= > >=` (same spellings) plus `Value::eq`,
//!               `partial_cmp`, `cmp` at the API; judged by exact `fractions.Fraction` order in Python
//!               and cross-checked against the bit-level reference `mccore::numref`.
//!   negation    unary `-` on every value (context value and literal spelling).
//!
//! One work item = one left operand `a` x every `b` x every operator, sent to Python as one batch.

use mccore::engine::{self, Out};
use mccore::numref::{cmp_exact, num_of};
use mccore::pyoracle::PyOracle;
use mccore::vals::{self, V};
use mccore::{Acc, Family, Run, Violation, json};
use std::cell::RefCell;
use std::cmp::Ordering;

// ------------------------------------------------------------------------------------- oracle

thread_local! {
    static ORACLE: RefCell<Option<PyOracle>> = const { RefCell::new(None) };
}

/// One oracle subprocess per worker process, started on first use.
fn ask(reqs: &[String]) -> Vec<String> {
    let ans = ORACLE.with(|o| {
        o.borrow_mut()
            .get_or_insert_with(|| PyOracle::spawn("numeric_oracle.py"))
            .ask(reqs)
    });
    for (r, a) in reqs.iter().zip(&ans) {
        if a.starts_with('!') || a.is_empty() {
            eprintln!("MACHINERY: numeric oracle failed on request {r:?}: {a}");
            std::process::exit(mccore::kernel::EXIT_MACHINERY);
        }
    }
    ans
}

/// Operand encoding for the oracle: the mathematical value only.
fn enc(v: &V) -> String {
    match v {
        V::I64(i) => format!("i{i}"),
        V::U64(i) => format!("i{i}"),
        V::I128(i) => format!("i{i}"),
        V::U128(i) => format!("i{i}"),
        V::F64(f) => format!("f{:016x}", f.to_bits()),
        _ => unreachable!("numeric alphabet only"),
    }
}

// ------------------------------------------------------------------------------------- alphabet

/// Every encoding that can hold the integer (sign, magnitude).
fn encodings(neg: bool, mag: u128) -> Vec<V> {
    let mut out = vec![];
    if !neg {
        if mag <= i64::MAX as u128 {
            out.push(V::I64(mag as i64));
        }
        if mag <= u64::MAX as u128 {
            out.push(V::U64(mag as u64));
        }
        if mag <= i128::MAX as u128 {
            out.push(V::I128(mag as i128));
        }
        out.push(V::U128(mag));
    } else {
        if mag <= 1u128 << 63 {
            out.push(V::I64((mag as i128).wrapping_neg() as i64));
        }
        if mag <= 1u128 << 127 {
            out.push(V::I128((mag as i128).wrapping_neg()));
        }
    }
    out
}

fn push_unique(v: &mut Vec<V>, x: V) {
    // f64 NaN != NaN under PartialEq: compare by description
    let d = x.describe();
    if !v.iter().any(|y| y.describe() == d) {
        v.push(x);
    }
}

fn alphabet(thorough: bool) -> Vec<V> {
    let mut ints: Vec<(bool, u128)> = vec![];
    let mut add = |neg: bool, mag: u128| {
        let neg = neg && mag != 0;
        if neg && mag > 1u128 << 127 {
            return;
        }
        if !ints.contains(&(neg, mag)) {
            ints.push((neg, mag));
        }
    };
    // DESIGN.md section 4, alphabet N
    for m in [0u128, 1, 2, 3] {
        add(false, m);
        add(true, m);
    }
    add(false, 7);
    add(false, 10);
    add(false, 1 << 31);
    add(true, 1 << 31);
    add(false, 1 << 32);
    add(false, (1 << 53) - 1);
    add(false, 1 << 53);
    add(false, (1 << 53) + 1);
    add(false, (1 << 63) - 1);
    add(false, 1 << 63);
    add(true, 1 << 63);
    add(false, (1 << 64) - 1);
    add(false, 1 << 64);
    add(false, (1 << 64) + 1);
    add(true, (1 << 64) + 1);
    add(false, (1 << 127) - 1);
    add(true, 1 << 127);
    add(false, 1 << 127);
    add(false, u128::MAX);
    // the +-1 neighbours of every width boundary, both signs (quick tier already)
    for sh in [31u32, 32, 53, 63, 64, 127] {
        let b = 1u128 << sh;
        for m in [b - 1, b, b + 1] {
            add(false, m);
            add(true, m);
        }
    }
    add(false, u128::MAX - 1);
    if thorough {
        // further powers of two with their neighbours (u8/i8 .. u32, f32 and f64 mantissas, 2^62..2^65,
        // 2^96, 2^126), both signs
        for sh in [7u32, 8, 15, 16, 24, 52, 54, 62, 65, 96, 126] {
            let b = 1u128 << sh;
            for m in [b - 1, b, b + 1] {
                add(false, m);
                add(true, m);
            }
        }
        // where `*` by 2, 3, 7, 10 crosses i128::MAX / i128::MIN
        for d in [2u128, 3, 7, 10] {
            let q = i128::MAX as u128 / d;
            for m in [q, q + 1] {
                add(false, m);
                add(true, m);
            }
        }
        // floor(sqrt(2^127 - 1)) and its successor: squares on both sides of the boundary
        add(false, 13043817825332782212);
        add(false, 13043817825332782213);
        add(true, 13043817825332782212);
        add(true, 13043817825332782213);
        // +-2 around the f64 exactness boundary and the 64-bit boundaries
        for m in [(1u128 << 53) + 2, (1 << 53) + 3, (1 << 63) + 2, (1 << 64) + 2, (1 << 64) - 2] {
            add(false, m);
            add(true, m);
        }
    }
    let mut out = vec![];
    for (neg, mag) in ints {
        for v in encodings(neg, mag) {
            push_unique(&mut out, v);
        }
    }
    // exponents that put `**` on both sides of the i128 boundary (one encoding is enough)
    for e in [63i64, 64, 126, 127, 128] {
        push_unique(&mut out, V::I64(e));
    }
    // 10^38 < 2^127 < 10^39; 7^45 < 2^127 < 7^46; 3^80 < 2^127 < 3^81
    for e in [4i64, 5, -7, -10, 38, 39, 45, 46, 80, 81] {
        push_unique(&mut out, V::I64(e));
    }
    if thorough {
        for e in [6i64, 9, 11, 12, 13, 19, 20, 21, 25, 31, 32, 33, 42, 43, 62, 100, 125, 129, 1000, -4, -5, -63, -64, -127, -128] {
            push_unique(&mut out, V::I64(e));
        }
    }
    let mut floats = vec![
        0.0,
        -0.0,
        0.5,
        -0.5,
        1.5,
        2.5,
        1e10,
        9007199254740992.0,      // 2^53
        9223372036854775808.0,   // 2^63
        18446744073709551616.0,  // 2^64
        1.7014118346046923e38,   // 2^127
        3.402823669209385e38,    // 2^128
        1e300,
        f64::MAX,
        f64::MIN_POSITIVE,
        f64::INFINITY,
        f64::NEG_INFINITY,
        f64::NAN,
    ];
    {
        let p63 = 9223372036854775808.0f64;
        let p64 = 18446744073709551616.0f64;
        let p127 = 1.7014118346046923e38f64;
        let p128 = 3.402823669209385e38f64;
        let prev = |f: f64| f64::from_bits(f.to_bits() - 1);
        let next = |f: f64| f64::from_bits(f.to_bits() + 1);
        floats.extend([
            1.0,
            -1.0,
            2.0,
            3.0,
            -1.5,
            -2.5,
            -3.0,
            0.1,
            7.0,
            -7.0,
            127.0,
            -1e10,
            9007199254740991.0, // 2^53 - 1
            9007199254740994.0, // 2^53 + 2
            -9007199254740992.0,
            prev(p63),
            next(p63),
            -p63,
            prev(-p63), // bits - 1 on a negative double moves towards zero: -(2^63 - 1024)
            prev(p64),
            next(p64),
            -p64,
            prev(p127),
            next(p127),
            -p127,
            next(-p127), // bits + 1 on a negative double moves away from zero: just below i128::MIN
            prev(p128),
            next(p128),
            -p128,
            -1e300,
            1e-300,
            f64::MIN,
            -f64::MIN_POSITIVE,
            5e-324,
            -5e-324,
        ]);
    }
    if thorough {
        floats.extend([
            4503599627370496.0, // 2^52
            4503599627370496.5, // the last double with a fraction is 2^52 - 0.5; this literal rounds to 2^52
            4503599627370495.5, // 2^52 - 0.5
            -4503599627370495.5,
            9007199254740993.0, // rounds to 2^53 (ties-to-even)
            2147483648.0,
            4294967296.0,
            4294967295.5,
            -2147483648.5,
            0.25,
            -0.25,
            0.75,
            3.5,
            -3.5,
            10.0,
            -10.0,
            63.0,
            64.0,
            126.0,
            128.0,
            -127.0,
            1e15,
            1e16,
            1e17,
            123456789.125,
            -123456789.125,
            1e-10,
            -0.1,
            0.30000000000000004,
            1.0000000000000002, // 1 + ulp
            0.9999999999999999, // 1 - ulp/2
            8.98846567431158e307, // 2^1023
            -8.98846567431158e307,
            1e308,
            2.2250738585072009e-308, // largest subnormal
        ]);
    }
    for f in floats {
        push_unique(&mut out, V::F64(f));
    }
    out
}

/// Template literal for the value when the language can spell it (the lexer reads digits and one
/// dot only: no exponent, no i64::MIN, nothing wider than i64). Negative ones are parenthesised
/// so that `-` stays a unary minus on the literal whatever the operator around it.
fn literal(v: &V) -> Option<String> {
    match v {
        V::I64(i) if *i >= 0 => Some(format!("{i}")),
        V::I64(i) if *i != i64::MIN => Some(format!("(-{})", i.unsigned_abs())),
        V::F64(f) if f.is_finite() => {
            let s = format!("{:?}", f.abs());
            if s.contains('e') || s.contains('E') {
                return None;
            }
            Some(if f.is_sign_negative() { format!("(-{s})") } else { s })
        }
        _ => None,
    }
}

fn enc_name(v: &V) -> &'static str {
    match v {
        V::I64(_) => "i64",
        V::U64(_) => "u64",
        V::I128(_) => "i128",
        V::U128(_) => "u128",
        V::F64(_) => "f64",
        _ => "?",
    }
}

fn is_int(v: &V) -> bool {
    !matches!(v, V::F64(_))
}

/// Honest non-triviality rule for an operand: it sits at / beyond a representation boundary.
fn beyond_53(v: &V) -> bool {
    match v {
        V::F64(_) => true,
        V::I64(i) => i.unsigned_abs() as u128 > 1u128 << 53,
        V::U64(i) => *i as u128 > 1u128 << 53,
        V::I128(i) => i.unsigned_abs() > 1u128 << 53,
        V::U128(i) => *i > 1u128 << 53,
        _ => false,
    }
}

// ------------------------------------------------------------------------------------- judging

#[derive(Debug, Clone, PartialEq)]
enum Got {
    Int(String),
    Float(f64),
    Bool(bool),
    Err,
    Panic,
    Garbage,
}

fn classify(out: &Out) -> Got {
    match out {
        Out::Err(..) => Got::Err,
        Out::Panic(_) => Got::Panic,
        Out::Ok(s) => {
            let digits = s.strip_prefix('-').unwrap_or(s);
            if !digits.is_empty() && digits.bytes().all(|b| b.is_ascii_digit()) {
                Got::Int(s.clone())
            } else if s == "true" || s == "false" {
                Got::Bool(s == "true")
            } else if s.contains('.') || s.contains('e') || s == "inf" || s == "-inf" || s == "NaN" {
                // `{:?}` of an f64 always carries one of these marks and parses back exactly
                match s.parse::<f64>() {
                    Ok(f) => Got::Float(f),
                    Err(_) => Got::Garbage,
                }
            } else {
                Got::Garbage
            }
        }
    }
}

fn ordered(bits: u64) -> i128 {
    let mag = (bits & 0x7fff_ffff_ffff_ffff) as i128;
    if bits >> 63 == 1 { -mag } else { mag }
}

fn alt_matches(got: &Got, alt: &str) -> bool {
    match (got, alt.as_bytes()[0]) {
        (Got::Err, b'E') => true,
        (Got::Int(s), b'I') => s == &alt[1..],
        (Got::Float(f), b'F') => {
            if &alt[1..] == "nan" {
                f.is_nan()
            } else {
                u64::from_str_radix(&alt[1..], 16).map(|b| b == f.to_bits()).unwrap_or(false)
            }
        }
        (Got::Float(f), b'U') => match u64::from_str_radix(&alt[1..], 16) {
            Ok(b) => !f.is_nan() && (ordered(b) - ordered(f.to_bits())).abs() <= 1,
            Err(_) => false,
        },
        _ => false,
    }
}

fn token_matches(got: &Got, token: &str) -> bool {
    token.split('|').any(|alt| alt_matches(got, alt))
}

fn show_token(token: &str) -> String {
    token
        .split('|')
        .map(|alt| match alt.as_bytes()[0] {
            b'E' => "an error".to_string(),
            b'I' => format!("integer {}", &alt[1..]),
            b'F' if &alt[1..] == "nan" => "NaN".to_string(),
            b'F' => format!("float {:?}", f64::from_bits(u64::from_str_radix(&alt[1..], 16).unwrap_or(0))),
            b'U' => format!(
                "float {:?} (1 ulp)",
                f64::from_bits(u64::from_str_radix(&alt[1..], 16).unwrap_or(0))
            ),
            _ => alt.to_string(),
        })
        .collect::<Vec<_>>()
        .join(" or ")
}

/// What kind of disagreement: used in signatures.
fn mismatch_kind(got: &Got, token: &str) -> &'static str {
    let wants_err_only = token == "E";
    match got {
        Got::Panic => "panic",
        Got::Garbage | Got::Bool(_) => "unparsable-output",
        Got::Err => "unexpected-err",
        _ if wants_err_only => "missing-err",
        Got::Int(_) if !token.split('|').any(|a| a.starts_with('I')) => "wrong-type",
        Got::Float(_) if !token.split('|').any(|a| a.starts_with('F') || a.starts_with('U')) => "wrong-type",
        _ => "wrong-value",
    }
}

fn operand_class(a: &V, b: &V) -> &'static str {
    match (is_int(a), is_int(b)) {
        (true, true) => "int",
        (false, false) => "float",
        _ => "mixed",
    }
}

const ARITH_OPS: [&str; 7] = ["+", "-", "*", "/", "//", "%", "**"];
const CMP_OPS: [&str; 6] = ["==", "!=", "<", "<=", ">", ">="];

/// Signature of an arithmetic disagreement; the two defects known before building get their own.
fn arith_signature(op: &str, a: &V, b: &V, got: &Got, token: &str) -> String {
    if let (Some(x), Some(y)) = (a.as_i128(), b.as_i128())
        && is_int(a)
        && is_int(b)
        && *got == Got::Err
    {
        if op == "%" && x == i128::MIN && y == -1 {
            return "rem-min-by-minus-one".into();
        }
        if op == "**" && (-1..=1).contains(&x) && y >= 1i128 << 32 {
            return "pow-huge-exponent-trivial-base".into();
        }
    }
    format!("arith:{op}:{}:{}", mismatch_kind(got, token), operand_class(a, b))
}

/// The spellings of one binary case: (template source, which operands are literals).
fn spellings(op: &str, la: &Option<String>, lb: &Option<String>) -> Vec<(String, &'static str)> {
    let mut v = vec![(format!("{{{{ a {op} b }}}}"), "ctx/ctx")];
    if let Some(x) = la {
        v.push((format!("{{{{ {x} {op} b }}}}"), "lit/ctx"));
    }
    if let Some(y) = lb {
        v.push((format!("{{{{ a {op} {y} }}}}"), "ctx/lit"));
    }
    if let (Some(x), Some(y)) = (la, lb) {
        v.push((format!("{{{{ {x} {op} {y} }}}}"), "lit/lit"));
    }
    v
}

// ------------------------------------------------------------------------------------- self-test

enum Want {
    Int(&'static str),
    Float(f64),
    Err,
    Bool(bool),
}

/// Hand-transcribed examples: docs/content/_index.md "Math" / "Comparisons", the unit tests
/// `can_negate` / `arithmetic_in_i128` of number.rs, the snapshot input mixed_numeric_compare.txt,
/// and a few values worked out by hand from the property statement (Euclidean pairs, boundaries).
fn documented_examples() -> Vec<(V, &'static str, V, Want, &'static str)> {
    let i = V::I64;
    let f = V::F64;
    vec![
        (i(1), "+", i(1), Want::Int("2"), "docs: {{ 1 + 1 }} prints 2"),
        (i(2), "-", i(1), Want::Int("1"), "docs: {{ 2 - 1 }} prints 1"),
        // the docs print `5`; the property statement says `/` always yields the float quotient
        (i(10), "/", i(2), Want::Float(5.0), "docs: {{ 10 / 2 }} (statement: floating-point quotient)"),
        (i(5), "*", i(2), Want::Int("10"), "docs: {{ 5 * 2 }} prints 10"),
        (i(2), "%", i(2), Want::Int("0"), "docs: {{ 2 % 2 }} prints 0"),
        (i(-1), "+", V::U128(2), Want::Int("1"), "number.rs arithmetic_in_i128"),
        (V::U128(5), "-", V::U64(10), Want::Int("-5"), "number.rs arithmetic_in_i128"),
        (V::I128(i128::MAX), "+", V::I128(1), Want::Err, "number.rs arithmetic_in_i128"),
        (V::U128(u128::MAX), "+", V::U64(0), Want::Err, "number.rs arithmetic_in_i128 / as_number doc"),
        (i(2), "<", f(3.0), Want::Bool(true), "mixed_numeric_compare.txt"),
        (i(2), ">", f(3.0), Want::Bool(false), "mixed_numeric_compare.txt"),
        (i(2), "<=", f(3.0), Want::Bool(true), "mixed_numeric_compare.txt"),
        (i(2), ">=", f(3.0), Want::Bool(false), "mixed_numeric_compare.txt"),
        (f(3.0), "<", i(2), Want::Bool(false), "mixed_numeric_compare.txt"),
        (f(3.0), ">", i(2), Want::Bool(true), "mixed_numeric_compare.txt"),
        (i(2), "==", f(2.0), Want::Bool(true), "mixed_numeric_compare.txt"),
        (i(2), "<", f(2.0), Want::Bool(false), "mixed_numeric_compare.txt"),
        (i(2), "<=", f(2.0), Want::Bool(true), "mixed_numeric_compare.txt"),
        (i(1152921504606846976), "==", f(1152921504606846976.0), Want::Bool(true), "mixed_numeric_compare.txt"),
        (i(1152921504606846977), ">", f(1152921504606846976.0), Want::Bool(true), "mixed_numeric_compare.txt"),
        // by hand from the statement
        (i(-7), "//", i(2), Want::Int("-4"), "Euclidean: -7 = -4*2 + 1"),
        (i(-7), "%", i(2), Want::Int("1"), "Euclidean: -7 = -4*2 + 1"),
        (i(7), "//", i(-2), Want::Int("-3"), "Euclidean: 7 = -3*-2 + 1"),
        (i(7), "%", i(-2), Want::Int("1"), "Euclidean: 7 = -3*-2 + 1"),
        (i(-7), "//", i(-2), Want::Int("4"), "Euclidean: -7 = 4*-2 + 1"),
        (i(-7), "%", i(-2), Want::Int("1"), "Euclidean: -7 = 4*-2 + 1"),
        (V::I128(i128::MIN), "//", i(-1), Want::Err, "2^127 does not fit"),
        (V::I128(i128::MIN), "%", i(-1), Want::Int("0"), "the remainder 0 fits"),
        (i(2), "**", i(10), Want::Int("1024"), "2^10"),
        (i(2), "**", i(126), Want::Int("85070591730234615865843651857942052864"), "2^126"),
        (i(2), "**", i(127), Want::Err, "2^127 does not fit"),
        (i(-2), "**", i(127), Want::Int("-170141183460469231731687303715884105728"), "(-2)^127 = i128::MIN fits"),
        (i(7), "/", i(2), Want::Float(3.5), "float quotient"),
        (i(1), "/", i(0), Want::Err, "division by zero"),
        (i(1), "//", V::U64(0), Want::Err, "division by zero"),
        (i(1), "%", V::I128(0), Want::Err, "division by zero"),
        (f(1.0), "/", f(-0.0), Want::Err, "division by zero"),
        (f(1.5), "+", i(1), Want::Float(2.5), "float operand: floating point"),
        (V::U64(u64::MAX), "+", i(1), Want::Int("18446744073709551616"), "no wrap at 2^64"),
        (i(i64::MAX), "*", i(i64::MAX), Want::Int("85070591730234615847396907784232501249"), "no wrap at 2^63"),
        (V::I128((1 << 53) + 1), "==", f(9007199254740992.0), Want::Bool(false), "2^53+1 is not 2^53"),
        (V::I128((1 << 53) + 1), ">", f(9007199254740992.0), Want::Bool(true), "2^53+1 > 2^53"),
        (f(f64::NAN), "==", f(f64::NAN), Want::Bool(true), "statement: NaN equal to itself"),
        (f(f64::NAN), ">", f(f64::INFINITY), Want::Bool(true), "statement: NaN after every number"),
        (f(-0.0), "==", V::U64(0), Want::Bool(true), "-0.0 is zero"),
        (V::U128(u128::MAX), ">", V::I128(i128::MAX), Want::Bool(true), "2^128-1 > 2^127-1"),
        (V::U128(u128::MAX), "<", f(3.402823669209385e38), Want::Bool(true), "2^128-1 < 2^128"),
        (V::U128(u128::MAX), "==", f(3.402823669209385e38), Want::Bool(false), "2^128-1 != 2^128"),
        (V::I128(i128::MIN), "==", f(-1.7014118346046923e38), Want::Bool(true), "-2^127 == -2^127"),
    ]
}

fn documented_negations() -> Vec<(V, Want, &'static str)> {
    vec![
        (V::I128(i128::MIN), Want::Err, "number.rs can_negate"),
        (V::I64(5), Want::Int("-5"), "number.rs can_negate"),
        (V::I64(-5), Want::Int("5"), "number.rs can_negate"),
        (V::I128(i128::MAX), Want::Int("-170141183460469231731687303715884105727"), "number.rs can_negate"),
        (V::U128(5), Want::Int("-5"), "number.rs can_negate"),
        (V::U128(u128::MAX), Want::Err, "number.rs can_negate"),
        (V::I64(i64::MIN), Want::Int("9223372036854775808"), "no wrap at -2^63"),
        (V::F64(0.0), Want::Float(-0.0), "float negation flips the sign"),
    ]
}

fn want_as_got(w: &Want) -> Got {
    match w {
        Want::Int(s) => Got::Int(s.to_string()),
        Want::Float(f) => Got::Float(*f),
        Want::Err => Got::Err,
        Want::Bool(b) => Got::Bool(*b),
    }
}

fn cmp_truth(op: &str, ord: Ordering) -> bool {
    match op {
        "==" => ord == Ordering::Equal,
        "!=" => ord != Ordering::Equal,
        "<" => ord == Ordering::Less,
        "<=" => ord != Ordering::Greater,
        ">" => ord == Ordering::Greater,
        ">=" => ord != Ordering::Less,
        _ => unreachable!(),
    }
}

fn ord_of(tok: &str) -> Ordering {
    match tok {
        "<" => Ordering::Less,
        "=" => Ordering::Equal,
        ">" => Ordering::Greater,
        other => {
            eprintln!("MACHINERY: numeric oracle returned comparison token {other:?}");
            std::process::exit(mccore::kernel::EXIT_MACHINERY)
        }
    }
}

/// Supervisor only: the oracle must reproduce every hand-written example (else exit 2); the engine
/// disagreeing with one is a violation of its own.
fn self_test(run: &mut Run, tera: &tera::Tera) {
    let mut bad_oracle = vec![];
    let mut n = 0;
    for (a, op, b, want, src) in documented_examples() {
        n += 1;
        let ans = ask(&[format!("A {} {}", enc(&a), enc(&b))]);
        let toks: Vec<&str> = ans[0].split(' ').collect();
        let wg = want_as_got(&want);
        let oracle_ok = if let Some(k) = ARITH_OPS.iter().position(|o| *o == op) {
            // the oracle must expect exactly this (no alternative that would also let something else pass)
            toks.len() == 8 && !toks[k].contains('|') && token_matches(&wg, toks[k])
        } else {
            toks.len() == 8 && wg == Got::Bool(cmp_truth(op, ord_of(toks[7])))
        };
        if !oracle_ok {
            bad_oracle.push(format!("{} {op} {} ({src}): oracle answered {:?}", a.describe(), b.describe(), ans[0]));
        }
        let tpl = format!("{{{{ a {op} b }}}}");
        let out = engine::render_str(tera, &tpl, &vals::context(&[("a", &a), ("b", &b)]), false);
        let got = classify(&out);
        let engine_ok = match (&wg, &got) {
            (Got::Float(x), Got::Float(y)) => x.to_bits() == y.to_bits(),
            (x, y) => x == y,
        };
        if !engine_ok {
            let sig = if ARITH_OPS.contains(&op) {
                arith_signature(op, &a, &b, &got, toks[ARITH_OPS.iter().position(|o| *o == op).unwrap()])
            } else {
                format!("compare:{op}:{}/{}", enc_name(&a), enc_name(&b))
            };
            run.direct_violation(
                "documented-examples",
                Violation {
                    signature: sig,
                    message: format!("documented example ({src}): {tpl} gave {}", out.show()),
                    case: json!({"template": tpl, "a": a.describe(), "b": b.describe(), "source": src}),
                },
            );
        }
    }
    for (a, want, src) in documented_negations() {
        n += 1;
        let ans = ask(&[format!("N {}", enc(&a))]);
        let wg = want_as_got(&want);
        if ans[0].contains('|') || !token_matches(&wg, &ans[0]) {
            bad_oracle.push(format!("-{} ({src}): oracle answered {:?}", a.describe(), ans[0]));
        }
        let out = engine::render_str(tera, "{{ -a }}", &vals::context(&[("a", &a)]), false);
        let got = classify(&out);
        let engine_ok = match (&wg, &got) {
            (Got::Float(x), Got::Float(y)) => x.to_bits() == y.to_bits(),
            (x, y) => x == y,
        };
        if !engine_ok {
            run.direct_violation(
                "documented-examples",
                Violation {
                    signature: format!("negate:{}:{}", mismatch_kind(&got, &ans[0]), enc_name(&a)),
                    message: format!("documented example ({src}): {{{{ -a }}}} gave {}", out.show()),
                    case: json!({"template": "{{ -a }}", "a": a.describe(), "source": src}),
                },
            );
        }
    }
    if !bad_oracle.is_empty() {
        for b in &bad_oracle {
            println!("MACHINERY: oracle self-test failed: {b}");
        }
        std::process::exit(mccore::kernel::EXIT_MACHINERY);
    }
    run.extra("oracle_selftest_examples", json!(n));
    run.guard("oracle-selftest", true, format!("numeric_oracle.py reproduced all {n} hand-transcribed documented examples"));
    // the oracle subprocess of the supervisor is no longer needed
    ORACLE.with(|o| *o.borrow_mut() = None);
}

// ------------------------------------------------------------------------------------- main

fn main() {
    let mut run = Run::from_env("C13", "exploration");
    // the full bounds cost only a few seconds: both tiers run them
    let thorough = true;
    run.rule(
        "arithmetic: every ordered pair (a, b) of the numeric alphabet x 7 operators x every available spelling \
         (context value / literal per operand), one case per rendered template; comparison: every ordered pair x 6 \
         operators x spellings, plus one API case (==, partial_cmp, cmp) per pair; negation: every value x spellings. \
         Non-trivial = the case touches a representation question: the operands differ in encoding, or one of them is \
         a float or lies beyond +-2^53, or the oracle expects a refusal. Cases are distinct (a, b, operator, spelling) \
         tuples by construction.",
    );
    run.assume("oracle = Python 3 stdlib: unbounded ints, IEEE-754 doubles (same hardware arithmetic, round-to-nearest-even int->double), fractions.Fraction for order");
    run.assume("`**` with a float or negative exponent is compared to math.pow within 1 ulp (libm is not under test); float `//` and `%` follow the documented f64::div_euclid / rem_euclid definition re-derived in Python from fmod and trunc");
    run.assume("pinned, not asserted: integer ** negative integer is evaluated in floating point (Err, the float within 1 ulp, or the exact integer when there is one are accepted); an integer operand above i128::MAX combined with a float operand may be refused or computed in floating point");
    run.assume("engine output is read back from the rendered text: integers as decimal strings compared textually, floats parsed from Rust's shortest round-trip `{:?}` form and compared by bit pattern (any NaN equals any NaN)");
    run.assume("numbers outside the alphabet (in particular arbitrary interior values) are not explored; the alphabet holds every encoding of every width boundary and its neighbours");

    let ns = alphabet(thorough);
    let n = ns.len() as u64;
    let lits: Vec<Option<String>> = ns.iter().map(literal).collect();
    let encs: Vec<String> = ns.iter().map(enc).collect();
    let tv: Vec<tera::Value> = ns.iter().map(|v| v.to_tera()).collect();
    run.extra("numeric_alphabet_size", json!(n));
    run.extra(
        "alphabets",
        json!({
            "N": ns.iter().map(|v| v.describe()).collect::<Vec<_>>(),
            "with_literal_spelling": ns.iter().zip(&lits).filter(|(_, l)| l.is_some()).count(),
            "arithmetic_operators": ARITH_OPS,
            "comparison_operators": CMP_OPS,
        }),
    );
    run.extra(
        "bounds",
        json!(format!("all {n}x{n} ordered pairs x 13 binary operators, {n} negations, every context/literal spelling")),
    );
    let tera_inst = tera::Tera::default();

    if run.is_supervisor() {
        self_test(&mut run, &tera_inst);
    }

    // ---------------------------------------------------------------- arithmetic
    run.family(
        Family::new(
            "arithmetic",
            n,
            &format!("all {n}^2 ordered pairs of N x (+ - * / // % **) x context/literal spellings; Euclidean identities on the engine's own outputs"),
        )
        .describe(|i| json!({"a": ns[i as usize].describe(), "b": "every value of N", "ops": ARITH_OPS})),
        |item, acc: &mut Acc| {
            let ia = item as usize;
            let a = &ns[ia];
            let reqs: Vec<String> = encs.iter().map(|eb| format!("A {} {eb}", encs[ia])).collect();
            let answers = ask(&reqs);
            let mut identities: Vec<(usize, String, String, String)> = vec![];
            for (ib, b) in ns.iter().enumerate() {
                let toks: Vec<&str> = answers[ib].split(' ').collect();
                assert!(toks.len() == 8, "oracle answer has 8 fields: {:?}", answers[ib]);
                let ctx = vals::context(&[("a", a), ("b", b)]);
                let boundary = enc_name(a) != enc_name(b) || beyond_53(a) || beyond_53(b);
                let mut euclid: [Option<Got>; 2] = [None, None];
                for (k, op) in ARITH_OPS.iter().enumerate() {
                    let token = toks[k];
                    for (src, spelling) in spellings(op, &lits[ia], &lits[ib]) {
                        let out = engine::render_str(&tera_inst, &src, &ctx, false);
                        let got = classify(&out);
                        let ok = token_matches(&got, token);
                        if !ok {
                            acc.violation(
                                arith_signature(op, a, b, &got, token),
                                format!("{src} with a={}, b={} gave {}, expected {}", a.describe(), b.describe(), out.show(), show_token(token)),
                                || json!({"template": src, "a": a.describe(), "b": b.describe(), "spelling": spelling, "expected": token}),
                            );
                        }
                        let class = match &got {
                            Got::Int(_) => "ok-int",
                            Got::Float(_) => "ok-float",
                            Got::Err => "err",
                            Got::Panic => "panic",
                            _ => "unparsable",
                        };
                        let pinned = token.contains('|');
                        acc.case(boundary || token.contains('E'), if pinned { if got == Got::Err { "pinned:err" } else { "pinned:ok" } } else { class });
                        acc.count(&format!("op {op} {}", if got == Got::Err { "err" } else { "ok" }), 1);
                        if spelling != "ctx/ctx" {
                            acc.count("literal_spellings", 1);
                        }
                        if spelling == "ctx/ctx" {
                            if *op == "//" {
                                euclid[0] = Some(got.clone());
                            } else if *op == "%" {
                                euclid[1] = Some(got.clone());
                            }
                        }
                        if ia == 9 && (20..23).contains(&ib) && k == 4 && spelling == "ctx/ctx" {
                            acc.sample(|| json!({"template": src, "a": a.describe(), "b": b.describe(), "observed": out.show(), "oracle": token}));
                        }
                    }
                }
                // both identities of the statement on the engine's own outputs (integers only);
                // decided exactly by Python ints in a second batch (q * b can exceed i128 on the way)
                if let (Some(x), Some(y), true, true) = (a.as_i128(), b.as_i128(), is_int(a), is_int(b))
                    && let (Some(Got::Int(q)), Some(Got::Int(r))) = (&euclid[0], &euclid[1])
                {
                    identities.push((ib, format!("Q {x} {y} {q} {r}"), q.clone(), r.clone()));
                }
            }
            let verdicts = ask(&identities.iter().map(|t| t.1.clone()).collect::<Vec<_>>());
            for ((ib, _, q, r), verdict) in identities.iter().zip(&verdicts) {
                let b = &ns[*ib];
                for bad in verdict.split(',').filter(|v| *v != "ok") {
                    acc.violation(
                        format!("euclid-identity:{bad}"),
                        match bad {
                            "reconstruct" => format!("(a // b) * b + a % b != a for a={}, b={}: engine gave a // b = {q}, a % b = {r}", a.describe(), b.describe()),
                            _ => format!("a % b = {r} is not in 0 <= r < |b| for a={}, b={}", a.describe(), b.describe()),
                        },
                        || json!({"template": "{{ a // b }} {{ a % b }}", "a": a.describe(), "b": b.describe(), "q": q, "r": r}),
                    );
                }
                acc.count("euclid_identities_checked", 1);
            }
        },
    );

    // ---------------------------------------------------------------- comparison
    run.family(
        Family::new(
            "comparison",
            n,
            &format!("all {n}^2 ordered pairs of N x (== != < <= > >=) x context/literal spellings, and ==/partial_cmp/cmp at the API"),
        )
        .describe(|i| json!({"a": ns[i as usize].describe(), "b": "every value of N", "ops": CMP_OPS})),
        |item, acc: &mut Acc| {
            let ia = item as usize;
            let a = &ns[ia];
            let reqs: Vec<String> = encs.iter().map(|eb| format!("A {} {eb}", encs[ia])).collect();
            let answers = ask(&reqs);
            for (ib, b) in ns.iter().enumerate() {
                let tok = answers[ib].rsplit(' ').next().unwrap_or("");
                let want = ord_of(tok);
                // second, independent reference (bit-level, no Python): must agree with Fraction
                let second = cmp_exact(&num_of(a).unwrap(), &num_of(b).unwrap());
                if second != want {
                    // a broken oracle is a machinery failure (guard `oracles-agree`), not a verdict
                    acc.count("oracle_disagreements", 1);
                    acc.sample(|| json!({"oracle_disagreement": {"a": a.describe(), "b": b.describe(), "python": format!("{want:?}"), "numref": format!("{second:?}")}}));
                }
                let ctx = vals::context(&[("a", a), ("b", b)]);
                let boundary = enc_name(a) != enc_name(b) || beyond_53(a) || beyond_53(b);
                let sig = |what: &str| format!("compare:{what}:{}/{}", enc_name(a), enc_name(b));
                for op in CMP_OPS {
                    let truth = cmp_truth(op, want);
                    for (src, spelling) in spellings(op, &lits[ia], &lits[ib]) {
                        let out = engine::render_str(&tera_inst, &src, &ctx, false);
                        let got = classify(&out);
                        if got != Got::Bool(truth) {
                            acc.violation(
                                sig(op),
                                format!("{src} with a={}, b={} gave {}, exact values say {truth}", a.describe(), b.describe(), out.show()),
                                || json!({"template": src, "a": a.describe(), "b": b.describe(), "spelling": spelling, "expected": truth}),
                            );
                        }
                        acc.case(boundary, match &got { Got::Bool(true) => "true", Got::Bool(false) => "false", Got::Err => "err", Got::Panic => "panic", _ => "unparsable" });
                        acc.count(&format!("op {op} {}", match &got { Got::Bool(true) => "true", Got::Bool(false) => "false", _ => "other" }), 1);
                        if ia == 30 && ib == 31 && op == "<" {
                            acc.sample(|| json!({"template": src, "a": a.describe(), "b": b.describe(), "observed": out.show(), "exact_order": format!("{want:?}")}));
                        }
                    }
                }
                // membership is equality: `a in [b]`, `a not in [b]`, `[b] is containing(pat=a)` and
                // `Value::contains` answer `a == b`, whatever the encodings (seeded change C13-14
                // gave integer needles a fast path that never matched a float element)
                {
                    let eq = want == Ordering::Equal;
                    for (src, truth) in [
                        ("{{ a in [b] }}", eq),
                        ("{{ a not in [b] }}", !eq),
                        ("{{ a in [0.5, b, \"x\"] }}", eq || matches!(cmp_exact(&num_of(a).unwrap(), &num_of(&V::F64(0.5)).unwrap()), Ordering::Equal)),
                        ("{{ [b] is containing(pat=a) }}", eq),
                    ] {
                        let out = engine::render_str(&tera_inst, src, &ctx, false);
                        if classify(&out) != Got::Bool(truth) {
                            acc.violation(
                                sig("membership"),
                                format!("{src} with a={}, b={} gave {}, but a == b is {eq}", a.describe(), b.describe(), out.show()),
                                || json!({"template": src, "a": a.describe(), "b": b.describe(), "exact_order": format!("{want:?}")}),
                            );
                        }
                        acc.case(boundary, "membership");
                    }
                }
                // API level
                let (ta, tb) = (&tv[ia], &tv[ib]);
                match engine::guarded(|| (ta == tb, ta.partial_cmp(tb), ta.cmp(tb))) {
                    Ok((eq, pc, c)) => {
                        if eq != (want == Ordering::Equal) {
                            acc.violation(sig("api-eq"), format!("Value == is {eq}, exact order is {want:?}"), || json!({"a": a.describe(), "b": b.describe(), "api": "PartialEq::eq"}));
                        }
                        if pc != Some(want) {
                            acc.violation(sig("api-partial_cmp"), format!("partial_cmp is {pc:?}, exact order is {want:?}"), || json!({"a": a.describe(), "b": b.describe(), "api": "PartialOrd::partial_cmp"}));
                        }
                        if c != want {
                            acc.violation(sig("api-cmp"), format!("cmp is {c:?}, exact order is {want:?}"), || json!({"a": a.describe(), "b": b.describe(), "api": "Ord::cmp"}));
                        }
                        acc.case(boundary, match want { Ordering::Less => "api-less", Ordering::Equal => "api-equal", Ordering::Greater => "api-greater" });
                        // the same two numbers as `tera::Number` (what `Value::as_number` hands to
                        // custom filters / tests / functions): its own == and partial_cmp
                        if let (Some(na), Some(nb)) = (ta.as_number(), tb.as_number()) {
                            match engine::guarded(|| (na == nb, na.partial_cmp(&nb))) {
                                Ok((neq, npc)) => {
                                    if neq != (want == Ordering::Equal) {
                                        acc.violation(sig("number-eq"), format!("Number == is {neq}, exact order is {want:?}"), || json!({"a": a.describe(), "b": b.describe(), "api": "Value::as_number, Number::eq"}));
                                    }
                                    if npc != Some(want) {
                                        acc.violation(sig("number-partial_cmp"), format!("Number::partial_cmp is {npc:?}, exact order is {want:?}"), || json!({"a": a.describe(), "b": b.describe(), "api": "Value::as_number, Number::partial_cmp"}));
                                    }
                                }
                                Err(p) => acc.violation(sig("number-panic"), format!("Number comparison panicked: {p}"), || json!({"a": a.describe(), "b": b.describe()})),
                            }
                            acc.case(boundary, "number-api");
                        }
                    }
                    Err(p) => {
                        acc.violation(sig("api-panic"), format!("comparison panicked: {p}"), || json!({"a": a.describe(), "b": b.describe(), "api": "eq/partial_cmp/cmp"}));
                        acc.case(boundary, "panic");
                    }
                }
            }
        },
    );

    // ---------------------------------------------------------------- negation
    run.family(
        Family::new("negation", n, &format!("unary minus on all {n} values of N, context value and literal spelling")).workers(2),
        |item, acc: &mut Acc| {
            let ia = item as usize;
            let a = &ns[ia];
            let token = ask(&[format!("N {}", encs[ia])]).remove(0);
            let ctx = vals::context(&[("a", a)]);
            let mut forms = vec![("{{ -a }}".to_string(), "ctx")];
            if let Some(l) = &lits[ia] {
                forms.push((format!("{{{{ -{l} }}}}"), "lit"));
            }
            for (src, spelling) in forms {
                let out = engine::render_str(&tera_inst, &src, &ctx, false);
                let got = classify(&out);
                if !token_matches(&got, &token) {
                    acc.violation(
                        format!("negate:{}:{}", mismatch_kind(&got, &token), enc_name(a)),
                        format!("{src} with a={} gave {}, expected {}", a.describe(), out.show(), show_token(&token)),
                        || json!({"template": src, "a": a.describe(), "spelling": spelling, "expected": token}),
                    );
                }
                acc.case(beyond_53(a) || token == "E", match &got { Got::Int(_) => "ok-int", Got::Float(_) => "ok-float", Got::Err => "err", Got::Panic => "panic", _ => "unparsable" });
                acc.count(&format!("op neg {}", if got == Got::Err { "err" } else { "ok" }), 1);
                if ia < 2 {
                    acc.sample(|| json!({"template": src, "a": a.describe(), "observed": out.show(), "oracle": token}));
                }
            }
        },
    );

    // ---------------------------------------------------------------- integer literals
    // An integer written in the template is a number like any other: whatever the lexer makes of
    // a digit string, the value is exact or the template is refused. Digit strings around every
    // width boundary (most of them have no literal spelling the other families could use, because
    // the engine refuses them - which is one of the two allowed answers).
    let lit_digits: Vec<String> = {
        let mut v: Vec<String> = vec!["0".into(), "1".into(), "7".into(), "42".into(), "9007199254740993".into()];
        for b in [1u128 << 31, 1u128 << 32, 1u128 << 53, 1u128 << 63, 1u128 << 64, 1u128 << 127] {
            for d in [-1i8, 0, 1] {
                v.push(format!("{}", if d < 0 { b - 1 } else { b + d as u128 }));
            }
        }
        v.push(format!("{}", u128::MAX - 1));
        v.push(format!("{}", u128::MAX));
        v.push("340282366920938463463374607431768211456".into()); // 2^128
        v.push("340282366920938463463374607431768211457".into());
        v.push(format!("1{}", "0".repeat(39)));
        v.push(format!("1{}1", "0".repeat(39)));
        v.push("99999999999999999999".into());
        v.push("100000000000000000000".into());
        v.sort_by(|a, b| (a.len(), a.as_str()).cmp(&(b.len(), b.as_str())));
        v.dedup();
        v
    };
    let nl = lit_digits.len() as u64;
    run.extra("integer_literal_digit_strings", json!(lit_digits));
    run.family(
        Family::new(
            "integer-literals",
            nl,
            &format!("{nl} digit strings around 2^31, 2^32, 2^53, 2^63, 2^64, 2^127, 2^128, 10^39 written as template literals: printed alone, negated, and all {nl}^2 ordered pairs through - + == < (literal/literal) and == (literal vs the same number from the context in every encoding that holds it): the exact integer or a refusal, never another number"),
        ),
        |item, acc: &mut Acc| {
            let ia = item as usize;
            let la = &lit_digits[ia];
            let num_cmp = |a: &str, b: &str| (a.len(), a).cmp(&(b.len(), b));
            let as_i128 = |d: &str| d.parse::<i128>().ok();
            let judge = |acc: &mut Acc, what: &str, src: &str, ctx: &tera::Context, want: Option<String>| {
                // want = Some(text): the render, if it succeeds, must print exactly this; None: must be refused
                let out = engine::render_str(&tera_inst, src, ctx, false);
                let class = match (&out, &want) {
                    (Out::Ok(t), Some(w)) if t == w => "exact",
                    (Out::Err(..), _) => "refused",
                    (Out::Ok(_), _) => {
                        acc.violation(
                            format!("literal:{what}:wrong-value"),
                            format!("{src} gave {}, expected {}", out.show(), match &want { Some(w) => format!("{w:?} or a refusal"), None => "a refusal (the exact value does not fit 128 bits)".into() }),
                            || json!({"template": src, "expected": want}),
                        );
                        "WRONG"
                    }
                    (Out::Panic(p), _) => {
                        acc.violation(format!("literal:{what}:panic"), format!("{src} panicked: {p}"), || json!({"template": src}));
                        "PANIC"
                    }
                };
                acc.case(true, &format!("literal:{what}:{class}"));
                acc.count(&format!("literal {class}"), 1);
            };
            let empty = tera::Context::new();
            judge(acc, "print", &format!("{{{{ {la} }}}}"), &empty, Some(la.clone()));
            judge(acc, "negate", &format!("{{{{ -{la} }}}}"), &empty, Some(if la == "0" { "0".into() } else { format!("-{la}") }));
            // the same number from the context, in every encoding that holds it
            let mut same: Vec<V> = vec![];
            if let Ok(x) = la.parse::<i64>() { same.push(V::I64(x)); }
            if let Ok(x) = la.parse::<u64>() { same.push(V::U64(x)); }
            if let Ok(x) = la.parse::<i128>() { same.push(V::I128(x)); }
            if let Ok(x) = la.parse::<u128>() { same.push(V::U128(x)); }
            for v in &same {
                let ctx = vals::context(&[("a", v)]);
                judge(acc, "eq-context", &format!("{{{{ a == {la} }}}}"), &ctx, Some("true".into()));
                judge(acc, "ne-context", &format!("{{{{ {la} != a }}}}"), &ctx, Some("false".into()));
            }
            for lb in &lit_digits {
                let ord = num_cmp(la, lb);
                judge(acc, "eq", &format!("{{{{ {la} == {lb} }}}}"), &empty, Some((ord == std::cmp::Ordering::Equal).to_string()));
                judge(acc, "lt", &format!("{{{{ {la} < {lb} }}}}"), &empty, Some((ord == std::cmp::Ordering::Less).to_string()));
                let (xa, xb) = (as_i128(la), as_i128(lb));
                let diff = match (xa, xb) { (Some(x), Some(y)) => x.checked_sub(y).map(|d| d.to_string()), _ => None };
                let sum = match (xa, xb) { (Some(x), Some(y)) => x.checked_add(y).map(|d| d.to_string()), _ => None };
                judge(acc, "minus", &format!("{{{{ {la} - {lb} }}}}"), &empty, diff);
                judge(acc, "plus", &format!("{{{{ {la} + {lb} }}}}"), &empty, sum);
            }
        },
    );

    if run.is_supervisor() {
        let (ex, re) = (run.counter("literal exact"), run.counter("literal refused"));
        run.guard("integer-literals-both-outcomes", ex > 100 && re > 100, format!("exact={ex} refused={re}"));
        for op in ARITH_OPS.iter().copied().chain(["neg"]) {
            let (ok, err) = (run.counter(&format!("op {op} ok")), run.counter(&format!("op {op} err")));
            run.guard(&format!("both-outcomes:{op}"), ok > 0 && err > 0, format!("ok={ok} err={err}"));
        }
        for op in CMP_OPS {
            let (t, f, o) = (
                run.counter(&format!("op {op} true")),
                run.counter(&format!("op {op} false")),
                run.counter(&format!("op {op} other")),
            );
            run.guard(&format!("both-truth-values:{op}"), t > 0 && f > 0, format!("true={t} false={f} other={o}"));
        }
        let idn = run.counter("euclid_identities_checked");
        run.guard("euclid-identities-exercised", idn > 100, format!("{idn} (a, b) pairs had both a // b and a % b checked against the two identities"));
        let dis = run.counter("oracle_disagreements");
        run.guard("oracles-agree", dis == 0, format!("{dis} pairs where Python Fraction order and mccore::numref differ"));
        let lit = run.counter("literal_spellings");
        run.guard("literal-spellings-exercised", lit > 1000, format!("{lit} cases with at least one operand spelled as a literal"));
        let pinned = run.outcome("arithmetic", "pinned:ok") + run.outcome("arithmetic", "pinned:err");
        run.extra("pinned_cases", json!(pinned));
    }
    run.finish();
}
