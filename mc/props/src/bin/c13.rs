fn main(){}
