//! C10 — template registration is atomic and independent of history.
//!
//! Explicit-state search over operation histories on a live `tera::Tera`.
//!
//! Operations (per configuration; configuration = fallback prefixes none | ["p/"], set before any
//! template is added, as the API demands):
//!   * `autoescape_on(s)` for s in {[], [".html"], [".txt"], the default list};
//!   * `add_raw_template(n, src)` for every catalogue name n and every source of n's catalogue
//!     (plain; two different bases with blocks; extends / overrides-with-super() / includes each
//!     other name; override of block `u` (an orphan unless an ancestor defines `u`); defines
//!     component X; defines X differently; calls X; syntax error; unknown filter; extends itself;
//!     includes itself; extends a missing template);
//!   * `add_raw_templates([e1, e2])` for ordered pairs over a six-source sub-catalogue per name
//!     (same name twice, valid followed by invalid, references resolved only inside the batch ...).
//!
//! Invariant, evaluated after EVERY transition on the live instance (see `check_transition`):
//!   (a) the call returned Ok  => observation == observation of a FRESH instance that is given the
//!       resulting (name, source) set in one batch (built in sorted and in reverse order);
//!   (b) the call returned Err => observation == observation before the call;
//!   and in both cases the live instance accepted / refused the call exactly like a fresh instance
//!   holding the same prior set (same Ok/Err class, same error kind tag).
//!
//! Families:
//!   histories   every history of length <= 2 (quick) / <= 3 (thorough), NO deduplication, depth
//!               first with `Tera::clone` forks; one work item per first operation (quick) or per
//!               first two operations (thorough).
//!   dedup-bfs   breadth-first over canonical states (name -> source map, suffix setting) to depth
//!               3 (quick) / 5 (thorough); every canonical state is expanded from up to three live
//!               representatives reached by different histories (the first, one alternative
//!               accepted path when one exists, and one history that ends in a refused call), each
//!               judged against the same fresh-instance oracle, so deduplication cannot hide
//!               history dependence.

#[path = "c10x/glob.rs"]
mod globfam;

use mccore::engine::{self, Out};
use mccore::{Acc, Family, Json, Run, json};
use std::collections::{BTreeMap, HashMap};
use std::rc::Rc;
use tera::{Context, Tera};

// ------------------------------------------------------------------------------------------------
// alphabet
// ------------------------------------------------------------------------------------------------

/// Value bound to `v` in every render: every character `escape_html` rewrites.
const SPECIAL: &str = "<v&\"'/>";
/// Names other templates are referred to by (never the prefixed spelling).
const REF_NAMES: [&str; 3] = ["a.html", "b.html", "c.txt"];
const ALL_NAMES: [&str; 4] = ["a.html", "b.html", "c.txt", "p/a.html"];
const TAGS: [&str; 4] = ["A", "B", "C", "P"];
const BLOCKS: [&str; 2] = ["t", "u"];
const SUFFIX_SETTINGS: [(&str, &[&str]); 4] = [
    ("default", &[".html", ".htm", ".xml"]),
    ("none", &[]),
    ("html", &[".html"]),
    ("txt", &[".txt"]),
];

#[derive(Clone, Copy, PartialEq, Eq, Debug)]
enum Kind {
    Plain,
    Base,
    Base2,
    Extends(usize),
    Super(usize),
    UOverride(usize),
    Includes(usize),
    DefX,
    DefX2,
    CallX,
    Syntax,
    UnknownFilter,
    SelfExtends,
    SelfInclude,
    ExtendsMissing,
}

struct Src {
    kind: Kind,
    label: String,
    text: String,
}

fn source_text(name_idx: usize, kind: Kind) -> (String, String) {
    let tag = TAGS[name_idx];
    let own = ALL_NAMES[name_idx];
    match kind {
        Kind::Plain => ("plain".into(), format!("{tag}plain({{{{ v }}}})")),
        Kind::Base => (
            "base(t,u)".into(),
            format!(
                "{tag}[{{% block t %}}{tag}.t({{{{ v }}}}){{% endblock t %}}|{{% block u %}}{tag}.u{{% endblock u %}}]"
            ),
        ),
        Kind::Base2 => (
            "base2(t)".into(),
            format!("{tag}2<{{% block t %}}{tag}2.t{{% endblock t %}}>"),
        ),
        Kind::Extends(m) => (
            format!("extends({})", REF_NAMES[m]),
            format!("{{% extends \"{}\" %}}{tag}ignored", REF_NAMES[m]),
        ),
        Kind::Super(m) => (
            format!("super-t({})", REF_NAMES[m]),
            format!(
                "{{% extends \"{}\" %}}{{% block t %}}{tag}.t+{{{{ super() }}}}{{% endblock t %}}",
                REF_NAMES[m]
            ),
        ),
        Kind::UOverride(m) => (
            format!("override-u({})", REF_NAMES[m]),
            format!(
                "{{% extends \"{}\" %}}{{% block u %}}{tag}.u!({{{{ v }}}}){{% endblock u %}}",
                REF_NAMES[m]
            ),
        ),
        Kind::Includes(m) => (
            format!("includes({})", REF_NAMES[m]),
            format!("{tag}inc({{% include \"{}\" %}})({{{{ v }}}})", REF_NAMES[m]),
        ),
        Kind::DefX => (
            "defines-X".into(),
            format!(
                "{{% component X(label: string, n = 1) %}}<x1/{tag} {{{{ label }}}} {{{{ n }}}}>{{% endcomponent X %}}{tag}defX"
            ),
        ),
        Kind::DefX2 => (
            "defines-X-differently".into(),
            format!(
                "{{% component X(label, kind: string, size = 2, ...rest) %}}<x2/{tag} {{{{ label }}}} {{{{ kind }}}} {{{{ size }}}}>{{% endcomponent X %}}{tag}defX2"
            ),
        ),
        Kind::CallX => (
            "calls-X".into(),
            format!("{tag}call({{{{ <X label={{v}} /> }}}})"),
        ),
        Kind::Syntax => ("syntax-error".into(), format!("{tag}{{% if %}}")),
        Kind::UnknownFilter => ("unknown-filter".into(), format!("{tag}{{{{ v | nope }}}}")),
        Kind::SelfExtends => ("extends-itself".into(), format!("{{% extends \"{own}\" %}}")),
        Kind::SelfInclude => ("includes-itself".into(), format!("{tag}{{% include \"{own}\" %}}")),
        Kind::ExtendsMissing => (
            "extends-missing".into(),
            "{% extends \"missing.html\" %}".to_string(),
        ),
    }
}

/// The source catalogue of one template name.
fn name_sources(name_idx: usize) -> Vec<Src> {
    // names this template can refer to: every unprefixed name except its own spelling
    let others: Vec<usize> = (0..3).filter(|m| REF_NAMES[*m] != ALL_NAMES[name_idx]).collect();
    let next = next_ref(name_idx);
    let mut kinds = vec![Kind::Plain, Kind::Base, Kind::Base2];
    kinds.extend(others.iter().map(|m| Kind::Extends(*m)));
    kinds.extend(others.iter().map(|m| Kind::Super(*m)));
    kinds.push(Kind::UOverride(next));
    kinds.extend(others.iter().map(|m| Kind::Includes(*m)));
    kinds.extend([
        Kind::DefX,
        Kind::DefX2,
        Kind::CallX,
        Kind::Syntax,
        Kind::UnknownFilter,
        Kind::SelfExtends,
        Kind::SelfInclude,
        Kind::ExtendsMissing,
    ]);
    kinds
        .into_iter()
        .map(|kind| {
            let (label, text) = source_text(name_idx, kind);
            Src { kind, label, text }
        })
        .collect()
}

/// The "next" name a template refers to in the single-target sources: a -> b -> c -> a; the
/// prefixed template refers to "a.html" (itself through the fallback while a.html is absent).
fn next_ref(name_idx: usize) -> usize {
    match name_idx {
        0 => 1,
        1 => 2,
        2 => 0,
        _ => 0,
    }
}

/// Sub-catalogue used inside batches.
fn batch_kinds(name_idx: usize) -> [Kind; 6] {
    let next = next_ref(name_idx);
    [
        Kind::Plain,
        Kind::Base,
        Kind::Super(next),
        Kind::Includes(next),
        Kind::DefX,
        Kind::Syntax,
    ]
}

#[derive(Clone, Debug)]
enum Op {
    Auto(usize),
    Add(usize, usize),
    Batch([(usize, usize); 2]),
}

/// Canonical state: per catalogue name 0 = absent or 1 + index of its current source, plus the
/// suffix setting.
#[derive(Clone, Copy, PartialEq, Eq, Hash, PartialOrd, Ord, Debug)]
struct State {
    src: [u8; 4],
    auto: u8,
}

const EMPTY: State = State { src: [0; 4], auto: 0 };

struct Cfg {
    id: usize,
    prefixes: Vec<&'static str>,
    /// catalogue names of this configuration (indices into ALL_NAMES)
    names: Vec<usize>,
    sources: Vec<Vec<Src>>, // by name index (4 entries; the last unused without prefixes)
    ops: Vec<Op>,
    pristine: Tera,
}

impl Cfg {
    fn new(id: usize) -> Cfg {
        let prefixes: Vec<&'static str> = if id == 0 { vec![] } else { vec!["p/"] };
        let names: Vec<usize> = if id == 0 { vec![0, 1, 2] } else { vec![0, 1, 2, 3] };
        let sources: Vec<Vec<Src>> = (0..4).map(name_sources).collect();
        let mut ops = vec![];
        for s in 0..SUFFIX_SETTINGS.len() {
            ops.push(Op::Auto(s));
        }
        for &n in &names {
            for s in 0..sources[n].len() {
                ops.push(Op::Add(n, s));
            }
        }
        let mut elems: Vec<(usize, usize)> = vec![];
        for &n in &names {
            for k in batch_kinds(n) {
                let s = sources[n].iter().position(|x| x.kind == k).expect("batch kind in catalogue");
                elems.push((n, s));
            }
        }
        for &e1 in &elems {
            for &e2 in &elems {
                // With fallback prefixes the pairs that do not touch p/a.html repeat the
                // no-prefix configuration; keep every pair that involves the prefixed name.
                if id == 1 && e1.0 != 3 && e2.0 != 3 {
                    continue;
                }
                ops.push(Op::Batch([e1, e2]));
            }
        }
        let mut pristine = Tera::default();
        if !prefixes.is_empty() {
            pristine
                .set_fallback_prefixes(prefixes.clone())
                .expect("prefixes on an empty instance");
        }
        Cfg { id, prefixes, names, sources, ops, pristine }
    }

    fn op_templates(&self, op: &Op) -> Vec<(&str, &str)> {
        match op {
            Op::Auto(_) => vec![],
            Op::Add(n, s) => vec![(ALL_NAMES[*n], self.sources[*n][*s].text.as_str())],
            Op::Batch(es) => es
                .iter()
                .map(|(n, s)| (ALL_NAMES[*n], self.sources[*n][*s].text.as_str()))
                .collect(),
        }
    }

    fn op_json(&self, op: &Op) -> Json {
        match op {
            Op::Auto(s) => json!({"op": "autoescape_on", "suffixes": SUFFIX_SETTINGS[*s].1}),
            Op::Add(n, s) => json!({
                "op": "add_raw_template", "name": ALL_NAMES[*n],
                "kind": self.sources[*n][*s].label, "source": self.sources[*n][*s].text}),
            Op::Batch(es) => json!({
                "op": "add_raw_templates",
                "templates": es.iter().map(|(n, s)| json!({
                    "name": ALL_NAMES[*n], "kind": self.sources[*n][*s].label,
                    "source": self.sources[*n][*s].text})).collect::<Vec<_>>()}),
        }
    }

    fn op_class(&self, op: &Op) -> &'static str {
        match op {
            Op::Auto(_) => "autoescape",
            Op::Add(..) => "single",
            Op::Batch(_) => "batch",
        }
    }

    fn history_json(&self, hist: &[(u16, u8)]) -> Json {
        Json::Array(
            hist.iter()
                .map(|(o, r)| {
                    let mut j = self.op_json(&self.ops[*o as usize]);
                    j.as_object_mut().unwrap().insert("returned".into(), json!(res_name(*r)));
                    j
                })
                .collect(),
        )
    }

    fn state_json(&self, st: &State) -> Json {
        let mut m = serde_json::Map::new();
        for &n in &self.names {
            if st.src[n] != 0 {
                m.insert(ALL_NAMES[n].into(), json!(self.sources[n][st.src[n] as usize - 1].text));
            }
        }
        json!({"templates": m, "autoescape_suffixes": SUFFIX_SETTINGS[st.auto as usize].1})
    }

    /// Resulting-set semantics: re-adding a name replaces its source; later entries of a batch win.
    fn model(&self, st: State, op: &Op) -> State {
        let mut st = st;
        match op {
            Op::Auto(s) => st.auto = *s as u8,
            Op::Add(n, s) => st.src[*n] = *s as u8 + 1,
            Op::Batch(es) => {
                for (n, s) in es {
                    st.src[*n] = *s as u8 + 1;
                }
            }
        }
        st
    }
}

// ------------------------------------------------------------------------------------------------
// running the engine
// ------------------------------------------------------------------------------------------------

const R_OK: u8 = 0;
const R_PANIC: u8 = 250;
const KIND_TAGS: [&str; 14] = [
    "Msg",
    "SyntaxError",
    "RenderingError",
    "CircularExtend",
    "CircularInclude",
    "MissingParent",
    "TemplateNotFound",
    "ComponentNotFound",
    "InvalidArgument",
    "MissingArgument",
    "OutOfRangeArgument",
    "Io",
    "Utf8Conversion",
    "Other",
];

fn res_name(r: u8) -> String {
    match r {
        R_OK => "Ok".into(),
        R_PANIC => "PANIC".into(),
        k => format!("Err[{}]", KIND_TAGS[k as usize - 1]),
    }
}

/// One file per (name, source) of the catalogue, so that every `Add` / `Batch` operation can also be
/// issued through `add_template_file(path, Some(name))` / `add_template_files`.
struct FileStore {
    dir: std::path::PathBuf,
}

impl FileStore {
    fn path(&self, n: usize, s: usize) -> std::path::PathBuf {
        self.dir.join(format!("n{n}_s{s}.tpl"))
    }
    fn missing(&self) -> std::path::PathBuf {
        self.dir.join("does-not-exist.tpl")
    }
    /// Writes the catalogue (idempotent: same bytes every time).
    fn create(dir: std::path::PathBuf, cfg: &Cfg) -> FileStore {
        std::fs::create_dir_all(&dir).expect("scratch directory for the file API");
        let fs = FileStore { dir };
        for &n in &cfg.names {
            for (s, src) in cfg.sources[n].iter().enumerate() {
                let p = fs.path(n, s);
                if std::fs::read_to_string(&p).ok().as_deref() != Some(src.text.as_str()) {
                    std::fs::write(&p, &src.text).expect("write catalogue file");
                }
            }
        }
        let _ = std::fs::remove_file(fs.missing());
        fs
    }
}

fn apply(t: &mut Tera, cfg: &Cfg, op: &Op) -> (u8, String) {
    apply_via(t, cfg, op, None)
}

fn apply_via(t: &mut Tera, cfg: &Cfg, op: &Op, files: Option<&FileStore>) -> (u8, String) {
    let r = engine::guarded(|| match (op, files) {
        (Op::Auto(s), _) => {
            t.autoescape_on(SUFFIX_SETTINGS[*s].1.to_vec());
            Ok(())
        }
        (Op::Add(n, s), None) => t.add_raw_template(ALL_NAMES[*n], &cfg.sources[*n][*s].text),
        (Op::Batch(_), None) => t.add_raw_templates(cfg.op_templates(op)),
        (Op::Add(n, s), Some(f)) => t.add_template_file(f.path(*n, *s), Some(ALL_NAMES[*n])),
        (Op::Batch(es), Some(f)) => {
            t.add_template_files(es.iter().map(|(n, s)| (f.path(*n, *s), Some(ALL_NAMES[*n]))).collect::<Vec<_>>())
        }
    });
    match r {
        Ok(Ok(())) => (R_OK, String::new()),
        Ok(Err(e)) => {
            let tag = engine::kind_tag(e.kind());
            let k = KIND_TAGS.iter().position(|x| *x == tag).unwrap_or(KIND_TAGS.len() - 1);
            (k as u8 + 1, String::new())
        }
        Err(p) => (R_PANIC, p),
    }
}

type Obs = Vec<String>;

struct Probe {
    ctx: Context,
    comp_ctx: Context,
}

impl Probe {
    fn new() -> Probe {
        let mut ctx = Context::new();
        ctx.insert("v", SPECIAL);
        let mut comp_ctx = Context::new();
        comp_ctx.insert("label", SPECIAL);
        comp_ctx.insert("kind", "K&");
        Probe { ctx, comp_ctx }
    }
}

fn coarse(o: Out) -> String {
    match o {
        Out::Ok(s) => format!("Ok({s})"),
        Out::Err(k, _) => format!("Err[{k}]"),
        Out::Panic(m) => format!("PANIC({m})"),
    }
}

const CALL_X: &str = "one-off({{ <X label={v} /> }})";

/// Labels of the observation entries of a configuration, in order.
fn obs_labels(cfg: &Cfg) -> Vec<(String, &'static str)> {
    let mut l = vec![("get_template_names (sorted)".to_string(), "names")];
    for &n in &cfg.names {
        let name = ALL_NAMES[n];
        l.push((format!("render({name})"), "render"));
        for b in BLOCKS {
            l.push((format!("render_block({name}, {b})"), "render_block"));
        }
        l.push((format!("get_template_variables({name})"), "template_variables"));
    }
    l.push(("get_component_definition(X)".into(), "component_definition"));
    l.push((format!("render_str({CALL_X:?}, autoescape=true)"), "render_str"));
    l.push(("render_component(X, {label, kind}, autoescape=true)".into(), "render_component"));
    l
}

fn observe(t: &Tera, cfg: &Cfg, p: &Probe) -> Obs {
    let mut o: Obs = Vec::with_capacity(4 + 4 * cfg.names.len());
    let mut names: Vec<&str> = t.get_template_names().collect();
    names.sort();
    o.push(names.join(","));
    for &n in &cfg.names {
        let name = ALL_NAMES[n];
        o.push(coarse(engine::render(t, name, &p.ctx)));
        for b in BLOCKS {
            o.push(coarse(engine::render_block(t, name, b, &p.ctx)));
        }
        let vars = engine::guarded(|| {
            t.get_template_variables(name).map(|s| {
                let mut v: Vec<&str> = s.into_iter().collect();
                v.sort();
                v.join(",")
            })
        });
        o.push(coarse(engine::to_out(vars)));
    }
    let def = engine::guarded(|| match t.get_component_definition("X") {
        None => "None".to_string(),
        Some(info) => {
            let args: Vec<String> = info
                .args()
                .iter()
                .map(|a| {
                    format!(
                        "{}:{}={}{}",
                        a.name(),
                        a.arg_type().map(|t| t.as_str()).unwrap_or("-"),
                        a.default().map(|d| format!("{d:?}")).unwrap_or_else(|| "-".into()),
                        if a.is_required() { "!" } else { "" }
                    )
                })
                .collect();
            format!(
                "{}({}) rest={:?} metadata={:?}",
                info.name(),
                args.join(", "),
                info.rest_param(),
                info.metadata().keys().collect::<Vec<_>>()
            )
        }
    });
    o.push(match def {
        Ok(s) => s,
        Err(p) => format!("PANIC({p})"),
    });
    o.push(coarse(engine::render_str(t, CALL_X, &p.ctx, true)));
    o.push(coarse(engine::to_out(engine::guarded(|| {
        t.render_component("X", &p.comp_ctx, None, true)
    }))));
    o
}

fn first_diff(a: &Obs, b: &Obs) -> Option<usize> {
    (0..a.len().max(b.len())).find(|i| a.get(*i) != b.get(*i))
}

fn diff_json(cfg: &Cfg, expected: &Obs, observed: &Obs) -> Json {
    let labels = obs_labels(cfg);
    let mut out = vec![];
    for i in 0..expected.len().max(observed.len()) {
        if expected.get(i) != observed.get(i) {
            out.push(json!({
                "call": labels.get(i).map(|l| l.0.clone()).unwrap_or_default(),
                "expected": expected.get(i), "observed": observed.get(i)}));
        }
    }
    Json::Array(out)
}

// ------------------------------------------------------------------------------------------------
// the oracle: fresh instances (memoised per canonical state; a fresh instance has no history, so
// its behaviour is a function of the state alone)
// ------------------------------------------------------------------------------------------------

struct FreshEntry {
    /// does a fresh instance accept the set in one batch (both orders)?
    buildable: bool,
    /// cached one-batch instance (sorted order); dropped again when too many are alive
    tera: Option<Tera>,
    obs: Obs,
    /// problem found while building: (signature, message, detail)
    problem: Option<(String, String, Json)>,
    /// outcome of every operation applied to a clone of the instance (255 = not yet computed);
    /// allocated on first use
    outcomes: Vec<u8>,
}

struct Oracle {
    index: HashMap<State, usize>,
    entries: Vec<FreshEntry>,
    /// entries currently holding an instance, oldest first
    alive: std::collections::VecDeque<usize>,
    max_alive: usize,
    built: u64,
    calls: u64,
}

fn state_templates<'a>(cfg: &'a Cfg, st: &State) -> Vec<(&'a str, &'a str)> {
    let mut tpls: Vec<(&str, &str)> = cfg
        .names
        .iter()
        .filter(|n| st.src[**n] != 0)
        .map(|n| (ALL_NAMES[*n], cfg.sources[*n][st.src[*n] as usize - 1].text.as_str()))
        .collect();
    tpls.sort();
    tpls
}

/// Fresh instance: configuration first, then the set in sorted order in one batch.
fn fresh_sorted(cfg: &Cfg, st: &State) -> (Tera, Result<tera::TeraResult<()>, String>) {
    let mut t = cfg.pristine.clone();
    if st.auto != 0 {
        t.autoescape_on(SUFFIX_SETTINGS[st.auto as usize].1.to_vec());
    }
    let tpls = state_templates(cfg, st);
    let r = engine::guarded(|| t.add_raw_templates(tpls));
    (t, r)
}

impl Oracle {
    fn new(max_alive: usize) -> Oracle {
        Oracle {
            index: HashMap::new(),
            entries: vec![],
            alive: Default::default(),
            max_alive,
            built: 0,
            calls: 0,
        }
    }

    fn entry(&mut self, cfg: &Cfg, probe: &Probe, st: State) -> usize {
        if let Some(i) = self.index.get(&st) {
            return *i;
        }
        self.built += 1;
        let (t1, r1) = fresh_sorted(cfg, &st);
        // instance 2: the set in reverse order, then the configuration (always spelled out)
        let mut t2 = cfg.pristine.clone();
        let rev: Vec<(&str, &str)> = state_templates(cfg, &st).into_iter().rev().collect();
        let r2 = engine::guarded(|| t2.add_raw_templates(rev));
        t2.autoescape_on(SUFFIX_SETTINGS[st.auto as usize].1.to_vec());
        self.calls += 2;
        let mut problem = None;
        let ok1 = matches!(r1, Ok(Ok(())));
        let ok2 = matches!(r2, Ok(Ok(())));
        let e = if ok1 && ok2 {
            let o1 = observe(&t1, cfg, probe);
            let o2 = observe(&t2, cfg, probe);
            if let Some(i) = first_diff(&o1, &o2) {
                problem = Some((
                    format!("fresh-order-dependent:{}", obs_labels(cfg)[i].1),
                    "two fresh instances given the same set in one batch (sorted / reverse order) behave differently".to_string(),
                    diff_json(cfg, &o1, &o2),
                ));
            }
            FreshEntry { buildable: true, tera: None, obs: o1, problem, outcomes: vec![] }
        } else {
            let show = |r: &Result<tera::TeraResult<()>, String>| match r {
                Ok(Ok(())) => "Ok".to_string(),
                Ok(Err(e)) => format!(
                    "Err[{}]: {}",
                    engine::kind_tag(e.kind()),
                    engine::err_message(e).lines().next().unwrap_or("")
                ),
                Err(p) => format!("PANIC({p})"),
            };
            problem = Some((
                "fresh-batch-rejected".to_string(),
                "a fresh instance refuses the (name, source) set the live instance reached through successful calls".to_string(),
                json!({"sorted_order": show(&r1), "reverse_order": show(&r2)}),
            ));
            FreshEntry { buildable: false, tera: None, obs: vec![], problem, outcomes: vec![] }
        };
        self.entries.push(e);
        self.index.insert(st, self.entries.len() - 1);
        self.entries.len() - 1
    }

    /// How a fresh instance holding `st` answers operation `opi` (None if no such instance exists).
    fn outcome(&mut self, cfg: &Cfg, probe: &Probe, st: State, opi: usize) -> Option<u8> {
        let i = self.entry(cfg, probe, st);
        if !self.entries[i].buildable {
            return None;
        }
        if self.entries[i].outcomes.is_empty() {
            self.entries[i].outcomes = vec![255; cfg.ops.len()];
        }
        if self.entries[i].outcomes[opi] == 255 {
            if self.entries[i].tera.is_none() {
                if self.alive.len() >= self.max_alive
                    && let Some(old) = self.alive.pop_front()
                {
                    self.entries[old].tera = None;
                }
                self.entries[i].tera = Some(fresh_sorted(cfg, &st).0);
                self.alive.push_back(i);
                self.calls += 1;
            }
            let mut c = self.entries[i].tera.as_ref().unwrap().clone();
            self.entries[i].outcomes[opi] = apply(&mut c, cfg, &cfg.ops[opi]).0;
            self.calls += 1;
        }
        Some(self.entries[i].outcomes[opi])
    }
}

// ------------------------------------------------------------------------------------------------
// tally (cheap local accumulator, flushed into the kernel's Acc)
// ------------------------------------------------------------------------------------------------

const C_TRANSITIONS: usize = 0;
const C_OK: usize = 1;
const C_ERR: usize = 2;
const C_REPLACE_OK: usize = 3;
const C_REPLACE_ERR: usize = 4;
const C_BATCH_SECOND_INVALID: usize = 5;
const C_BATCH_SAME_NAME_OK: usize = 6;
const C_BATCH_SAME_NAME_ERR: usize = 7;
const C_BATCH_ONLY_VALID_TOGETHER: usize = 8;
const C_AUTO_CHANGED_OBS: usize = 9;
const C_FALLBACK_RESOLVED: usize = 10;
const C_COMPONENT_SHADOWED: usize = 11;
const C_SUPER_CHAIN3: usize = 12;
const C_ERR_NONEMPTY: usize = 13;
const C_OBS_PANICS: usize = 14;
const C_PARENT_REPLACED: usize = 15;
const C_PROVIDER_REPLACED: usize = 16;
const N_COUNTERS: usize = 17;
const COUNTER_NAMES: [&str; N_COUNTERS] = [
    "transitions",
    "ok_transitions",
    "err_transitions",
    "replacement_ok",
    "replacement_rolled_back",
    "batch_rolled_back_second_invalid",
    "batch_same_name_twice_ok",
    "batch_same_name_twice_err",
    "batch_valid_only_together",
    "autoescape_change_observable",
    "fallback_prefix_resolution_observed",
    "component_shadowed_by_priority",
    "super_chain_of_three",
    "err_on_nonempty_instance",
    "panics_inside_observation",
    "parent_or_include_target_replaced",
    "component_provider_replaced_while_called",
];

#[derive(Default)]
struct Tally {
    counters: [u64; N_COUNTERS],
    /// outcome class -> (cases, non-trivial cases)
    outcomes: BTreeMap<String, (u64, u64)>,
    violations: Vec<(String, String, Json)>,
    violation_count: u64,
    samples: Vec<Json>,
    extra: BTreeMap<String, u64>,
}

impl Tally {
    fn case(&mut self, nontrivial: bool, class: &str) {
        if let Some(e) = self.outcomes.get_mut(class) {
            e.0 += 1;
            e.1 += nontrivial as u64;
        } else {
            self.outcomes.insert(class.to_string(), (1, nontrivial as u64));
        }
    }
    fn violation(&mut self, sig: String, msg: String, case: impl FnOnce() -> Json) {
        self.violation_count += 1;
        let same = self.violations.iter().filter(|v| v.0 == sig).count();
        if same < 3 && self.violations.len() < 40 {
            self.violations.push((sig, msg, case()));
        }
    }
    fn merge(&mut self, o: Tally) {
        for i in 0..N_COUNTERS {
            self.counters[i] += o.counters[i];
        }
        for (k, v) in o.outcomes {
            let e = self.outcomes.entry(k).or_insert((0, 0));
            e.0 += v.0;
            e.1 += v.1;
        }
        for (k, v) in o.extra {
            *self.extra.entry(k).or_insert(0) += v;
        }
        let kept = o.violations.len() as u64;
        for (s, m, c) in o.violations {
            self.violation(s, m, || c);
        }
        self.violation_count += o.violation_count.saturating_sub(kept);
        self.samples.extend(o.samples);
    }
    fn flush(self, acc: &mut Acc) {
        for (i, n) in self.counters.iter().enumerate() {
            if *n > 0 {
                acc.count(COUNTER_NAMES[i], *n);
            }
        }
        for (k, n) in &self.extra {
            acc.count(k, *n);
        }
        for (k, (n, nt)) in &self.outcomes {
            acc.evaluations += n;
            acc.nontrivial += nt;
            *acc.outcomes.entry(k.clone()).or_insert(0) += n;
        }
        let kept = self.violations.len() as u64;
        for (s, m, c) in self.violations {
            acc.violation(s, m, || c);
        }
        acc.violation_count += self.violation_count.saturating_sub(kept);
        for s in self.samples {
            acc.sample(|| s);
        }
    }
}

// ------------------------------------------------------------------------------------------------
// one transition + the invariant
// ------------------------------------------------------------------------------------------------

struct Node {
    tera: Tera,
    st: State,
    obs: Rc<Obs>,
}

struct Cx<'a> {
    cfg: &'a Cfg,
    probe: Probe,
    oracle: Oracle,
    /// histories shorter than this (counting the call under judgement) are also executed by the
    /// `histories` family: they are judged again but not counted as distinct non-trivial cases
    distinct_from_len: usize,
    /// Some: the live instance is driven through `add_template_file(s)` (the oracle stays on the
    /// raw API: a fresh instance has no files)
    files: Option<FileStore>,
}

fn root(cx: &Cx) -> Node {
    let tera = cx.cfg.pristine.clone();
    let obs = Rc::new(observe(&tera, cx.cfg, &cx.probe));
    Node { tera, st: EMPTY, obs }
}

/// Executes operation `opi` on a fork of `parent` and (if `judge`) evaluates the invariant.
/// `hist` is the history that produced `parent`.
fn step(cx: &mut Cx, tally: &mut Tally, parent: &Node, opi: usize, hist: &[(u16, u8)], judge: bool) -> (Node, u8) {
    let cfg = cx.cfg;
    let op = &cfg.ops[opi];
    let mut tera = parent.tera.clone();
    let (res, panic_msg) = apply_via(&mut tera, cfg, op, cx.files.as_ref());
    let obs = observe(&tera, cfg, &cx.probe);
    let st = if res == R_OK { cfg.model(parent.st, op) } else { parent.st };
    if judge {
        check_transition(cx, tally, parent, opi, hist, res, &panic_msg, st, &obs);
    }
    let obs = if *parent.obs == obs { parent.obs.clone() } else { Rc::new(obs) };
    (Node { tera, st, obs }, res)
}

#[allow(clippy::too_many_arguments)]
fn check_transition(
    cx: &mut Cx,
    tally: &mut Tally,
    parent: &Node,
    opi: usize,
    hist: &[(u16, u8)],
    res: u8,
    panic_msg: &str,
    st: State,
    obs: &Obs,
) {
    let cfg = cx.cfg;
    let op = &cfg.ops[opi];
    let class = cfg.op_class(op);
    let labels_kind = |i: usize| obs_labels(cfg)[i].1;
    let api = if cx.files.is_some() { "add_template_file(s) on files holding the sources" } else { "add_raw_template(s)" };
    let case = |extra: Json| {
        let mut h: Vec<(u16, u8)> = hist.to_vec();
        h.push((opi as u16, res));
        json!({
            "fallback_prefixes": cfg.prefixes,
            "api": api,
            "history": cfg.history_json(&h),
            "set_before_last_call": cfg.state_json(&parent.st),
            "set_after_last_call": cfg.state_json(&st),
            "render_context": {"v": SPECIAL},
            "detail": extra,
        })
    };
    tally.counters[C_TRANSITIONS] += 1;

    // ---- bookkeeping for outcome classes and vacuity guards (model side only)
    let touched: Vec<(usize, usize)> = match op {
        Op::Auto(_) => vec![],
        Op::Add(n, s) => vec![(*n, *s)],
        Op::Batch(es) => es.to_vec(),
    };
    let replaces = touched
        .iter()
        .any(|(n, s)| parent.st.src[*n] != 0 && parent.st.src[*n] != *s as u8 + 1);
    let same_name_twice = matches!(op, Op::Batch(es) if es[0].0 == es[1].0);
    let nonempty_before = parent.st.src.iter().any(|s| *s != 0);
    let outcome_class = match (res, op) {
        (R_OK, Op::Auto(_)) => "ok:autoescape_on".to_string(),
        (R_OK, _) if replaces => format!("ok:{class}:replace"),
        (R_OK, _) => format!("ok:{class}:add"),
        (R_PANIC, _) => format!("panic:{class}"),
        (k, _) => format!("err:{class}:{}", KIND_TAGS[k as usize - 1]),
    };
    // non-trivial: the instance already went through a call, or the call is a batch, or it fails
    tally.case(
        hist.len() + 1 >= cx.distinct_from_len && (!hist.is_empty() || matches!(op, Op::Batch(_)) || res != R_OK),
        &outcome_class,
    );
    if res == R_OK {
        tally.counters[C_OK] += 1;
        if replaces {
            tally.counters[C_REPLACE_OK] += 1;
            // is the replaced template a parent / include target of another current template?
            let referred = touched.iter().any(|(n, _)| {
                cfg.names.iter().any(|&m| {
                    m != *n
                        && st.src[m] != 0
                        && match cfg.sources[m][st.src[m] as usize - 1].kind {
                            Kind::Extends(r) | Kind::Super(r) | Kind::UOverride(r) | Kind::Includes(r) => {
                                REF_NAMES[r] == ALL_NAMES[*n] || (*n == 3 && r == 0 && st.src[0] == 0)
                            }
                            _ => false,
                        }
                })
            });
            if referred {
                tally.counters[C_PARENT_REPLACED] += 1;
            }
            // is the replaced template the provider of component X while another template calls X?
            let provider = touched.iter().any(|(n, _)| {
                parent.st.src[*n] != 0
                    && matches!(cfg.sources[*n][parent.st.src[*n] as usize - 1].kind, Kind::DefX | Kind::DefX2)
                    && cfg.names.iter().any(|&m| {
                        m != *n && st.src[m] != 0 && cfg.sources[m][st.src[m] as usize - 1].kind == Kind::CallX
                    })
            });
            if provider {
                tally.counters[C_PROVIDER_REPLACED] += 1;
            }
        }
        if same_name_twice {
            tally.counters[C_BATCH_SAME_NAME_OK] += 1;
        }
        if let Op::Auto(_) = op
            && *parent.obs != *obs
        {
            tally.counters[C_AUTO_CHANGED_OBS] += 1;
        }
        if let Op::Batch(es) = op
            && !nonempty_before
            && es
                .iter()
                .any(|(n, s)| matches!(cfg.sources[*n][*s].kind, Kind::Super(_) | Kind::Includes(_)))
        {
            // accepted on an empty instance although one element refers to the other one: that
            // element alone is refused (missing parent / unknown template / cycle through itself)
            tally.counters[C_BATCH_ONLY_VALID_TOGETHER] += 1;
        }
        let defs = cfg
            .names
            .iter()
            .filter(|&&m| st.src[m] != 0 && matches!(cfg.sources[m][st.src[m] as usize - 1].kind, Kind::DefX | Kind::DefX2))
            .count();
        if defs >= 2 {
            tally.counters[C_COMPONENT_SHADOWED] += 1;
        }
        if cfg.id == 1 && st.src[0] == 0 && st.src[3] != 0 && obs.get(1).is_some_and(|r| r.starts_with("Ok(")) {
            tally.counters[C_FALLBACK_RESOLVED] += 1;
        }
        // x overrides t with super() over y which overrides t with super() over z
        let sup = |m: usize| match st.src[m] {
            0 => None,
            s => match cfg.sources[m][s as usize - 1].kind {
                Kind::Super(r) => Some(r),
                _ => None,
            },
        };
        if cfg.names.iter().any(|&m| sup(m).and_then(|r| if st.src[r] != 0 { sup(r) } else { None }).is_some()) {
            tally.counters[C_SUPER_CHAIN3] += 1;
        }
    } else {
        tally.counters[C_ERR] += 1;
        if nonempty_before {
            tally.counters[C_ERR_NONEMPTY] += 1;
        }
        if replaces {
            tally.counters[C_REPLACE_ERR] += 1;
        }
        if same_name_twice {
            tally.counters[C_BATCH_SAME_NAME_ERR] += 1;
        }
        if let Op::Batch(es) = op
            && cfg.sources[es[1].0][es[1].1].kind == Kind::Syntax
            && cfg.sources[es[0].0][es[0].1].kind != Kind::Syntax
        {
            // the first element was parsed and inserted before the second failed to parse
            tally.counters[C_BATCH_SECOND_INVALID] += 1;
        }
    }
    if obs.iter().any(|s| s.starts_with("PANIC(")) {
        tally.counters[C_OBS_PANICS] += 1;
    }

    // ---- the invariant
    if res == R_PANIC {
        tally.violation(format!("panic:add:{class}"), format!("the call panicked: {panic_msg}"), || case(json!(null)));
    }
    // acceptance must not depend on history: a fresh instance holding the prior set answers alike
    match cx.oracle.outcome(cfg, &cx.probe, parent.st, opi) {
        None => {} // the prior set itself is refused by a fresh instance: reported when it was reached
        Some(fresh) => {
            if (fresh == R_OK) != (res == R_OK) {
                tally.violation(
                    format!(
                        "accept-differs:{}:{class}",
                        if res == R_OK { "live-ok-fresh-err" } else { "live-err-fresh-ok" }
                    ),
                    format!(
                        "the live instance answered {} but a fresh instance holding the same set answers {} to the same call",
                        res_name(res),
                        res_name(fresh)
                    ),
                    || case(json!(null)),
                );
            } else if fresh != res {
                tally.violation(
                    format!("add-error-kind-differs:{class}"),
                    format!(
                        "the live instance failed with {} but a fresh instance holding the same set fails with {}",
                        res_name(res),
                        res_name(fresh)
                    ),
                    || case(json!(null)),
                );
            }
        }
    }
    if res == R_OK {
        // (a) behaves exactly like a fresh instance given the resulting set in one batch
        let i = cx.oracle.entry(cfg, &cx.probe, st);
        let e = &cx.oracle.entries[i];
        if let Some((sig, msg, detail)) = &e.problem {
            tally.violation(sig.clone(), msg.clone(), || case(detail.clone()));
        }
        if e.buildable
            && let Some(d) = first_diff(&e.obs, obs)
        {
            tally.violation(
                format!("ok-differs-from-fresh:{}:{class}", labels_kind(d)),
                "after a successful call the instance does not behave like a fresh instance given the resulting set in one batch".to_string(),
                || case(diff_json(cfg, &e.obs, obs)),
            );
        }
    } else {
        // (b) everything is exactly as before the call
        if let Some(d) = first_diff(&parent.obs, obs) {
            tally.violation(
                format!("err-changed-instance:{}:{class}", labels_kind(d)),
                "a failed call changed what the instance does".to_string(),
                || case(diff_json(cfg, &parent.obs, obs)),
            );
        }
    }
}

// ------------------------------------------------------------------------------------------------
// families
// ------------------------------------------------------------------------------------------------

/// Depth-first exploration of every continuation of length <= `left` below `node`.
fn dfs(cx: &mut Cx, tally: &mut Tally, node: &Node, hist: &mut Vec<(u16, u8)>, left: usize) {
    for opi in 0..cx.cfg.ops.len() {
        let (child, res) = step(cx, tally, node, opi, hist, true);
        if left > 1 {
            hist.push((opi as u16, res));
            dfs(cx, tally, &child, hist, left - 1);
            hist.pop();
        }
    }
}

struct BNode {
    st: State,
    hist: Vec<(u16, u8)>,
}

#[derive(Default, Clone, Copy)]
struct Seen {
    /// representatives whose history ends in an accepted call (or the empty history)
    accepted: u8,
    /// one more representative whose history ends in a refused call (instance after a rollback)
    rolled_back: bool,
    /// how many representatives of this state have been expanded (every operation applied)
    expanded: u8,
}

struct BfsSummary {
    states: u64,
    states_expanded: u64,
    states_expanded_twice: u64,
    states_expanded_thrice: u64,
    states_with_alternative: u64,
    states_with_rollback_rep: u64,
    expanded: u64,
    closed: bool,
}

const ACCEPTED_REPS: u8 = 2;

/// How much undo work a refused call demanded (used to choose the rollback representative).
fn rollback_interest(cfg: &Cfg, st: &State, op: &Op, res: u8) -> u8 {
    let touched: Vec<(usize, usize)> = match op {
        Op::Auto(_) => vec![],
        Op::Add(n, s) => vec![(*n, *s)],
        Op::Batch(es) => es.to_vec(),
    };
    let mut score = 0;
    if matches!(op, Op::Batch(_)) {
        score += 4;
    }
    if res != R_PANIC && KIND_TAGS[res as usize - 1] != "SyntaxError" {
        score += 2; // refused by finalize_templates: every element was inserted first
    }
    if touched.iter().any(|(n, s)| st.src[*n] != 0 && st.src[*n] != *s as u8 + 1) {
        score += 1; // an existing entry had to be put back
    }
    let _ = cfg;
    score
}

type OkCand = (u32, u16, State);
/// (state, interest, node index, op, result); the best is max interest, then min (node, op)
type FailCand = (State, u8, u32, u16, u8);

/// Breadth-first search with deduplication on the canonical state. Every state is expanded from
/// its first history, from one alternative accepted path when one exists, and from one history that
/// ends in a refused call (so a representative that went through a rollback is expanded too).
/// Level-synchronous and deterministic: the nodes of a level are expanded in parallel threads, the
/// successors are merged in (node, op) order.
fn bfs(cfg: &Cfg, max_depth: usize, distinct_from_len: usize, threads: usize, tally: &mut Tally) -> BfsSummary {
    let mut visited: HashMap<State, Seen> = HashMap::new();
    visited.insert(EMPTY, Seen { accepted: 1, rolled_back: false, expanded: 0 });
    let mut frontier = vec![BNode { st: EMPTY, hist: vec![] }];
    let mut oracles: Vec<Oracle> = (0..threads).map(|_| Oracle::new(8)).collect();
    let mut summary = BfsSummary {
        states: 1,
        states_expanded: 0,
        states_expanded_twice: 0,
        states_expanded_thrice: 0,
        states_with_alternative: 0,
        states_with_rollback_rep: 0,
        expanded: 0,
        closed: false,
    };
    for depth in 1..=max_depth {
        if frontier.is_empty() {
            break;
        }
        let mut results: Vec<(Tally, Vec<OkCand>, Vec<FailCand>)> = vec![];
        for node in &frontier {
            visited.entry(node.st).or_default().expanded += 1;
        }
        let visited_ref = &visited;
        let frontier_ref = &frontier;
        std::thread::scope(|s| {
            let mut handles = vec![];
            for (t, oracle) in oracles.iter_mut().enumerate() {
                let h = std::thread::Builder::new()
                    .stack_size(16 << 20)
                    .spawn_scoped(s, move || {
                        let mut cx = Cx { cfg, probe: Probe::new(), oracle: std::mem::replace(oracle, Oracle::new(8)), distinct_from_len, files: None };
                        let mut tally = Tally::default();
                        let mut cands: Vec<OkCand> = vec![];
                        let mut local: HashMap<State, u8> = HashMap::new();
                        let mut fails: BTreeMap<State, FailCand> = BTreeMap::new();
                        let mut replayed = 0u64;
                        for (i, node) in frontier_ref.iter().enumerate() {
                            // all representatives of a state go to the same thread (oracle cache)
                            if (mccore::kernel::fnv(&format!("{:?}", node.st)) as usize) % threads != t {
                                continue;
                            }
                            // rebuild the live instance by replaying its history
                            let mut live = root(&cx);
                            let mut same = true;
                            for (k, (opi, want)) in node.hist.iter().enumerate() {
                                let (child, res) = step(&mut cx, &mut tally, &live, *opi as usize, &node.hist[..k], false);
                                same &= res == *want;
                                live = child;
                            }
                            replayed += node.hist.len() as u64;
                            if !same || live.st != node.st {
                                tally.violation(
                                    "nondeterministic-replay".into(),
                                    "replaying a history gave different results than its first execution".into(),
                                    || json!({"fallback_prefixes": cfg.prefixes, "history": cfg.history_json(&node.hist)}),
                                );
                                continue;
                            }
                            let want_fail = !visited_ref.get(&node.st).map(|s| s.rolled_back).unwrap_or(false);
                            for opi in 0..cfg.ops.len() {
                                let (child, res) = step(&mut cx, &mut tally, &live, opi, &node.hist, true);
                                if res == R_OK {
                                    if visited_ref.get(&child.st).map(|s| s.accepted).unwrap_or(0) < ACCEPTED_REPS {
                                        let seen = local.entry(child.st).or_insert(0);
                                        if *seen < ACCEPTED_REPS {
                                            *seen += 1;
                                            cands.push((i as u32, opi as u16, child.st));
                                        }
                                    }
                                } else if want_fail {
                                    let score = rollback_interest(cfg, &node.st, &cfg.ops[opi], res);
                                    let better = match fails.get(&node.st) {
                                        None => true,
                                        Some(b) => score > b.1,
                                    };
                                    if better {
                                        fails.insert(node.st, (node.st, score, i as u32, opi as u16, res));
                                    }
                                }
                            }
                        }
                        tally.extra.insert("bfs_replayed_prefix_calls".into(), replayed);
                        *oracle = cx.oracle;
                        (tally, cands, fails.into_values().collect::<Vec<_>>())
                    })
                    .expect("spawn bfs thread");
                handles.push(h);
            }
            for h in handles {
                match h.join() {
                    Ok(r) => results.push(r),
                    Err(p) => std::panic::resume_unwind(p),
                }
            }
        });
        summary.expanded += frontier.len() as u64;
        let mut cands: Vec<OkCand> = vec![];
        let mut fails: Vec<FailCand> = vec![];
        for (t, c, f) in results {
            tally.merge(t);
            cands.extend(c);
            fails.extend(f);
        }
        cands.sort();
        let mut next: Vec<BNode> = vec![];
        let mut new_states = 0u64;
        for (i, opi, st) in cands {
            let n = visited.entry(st).or_default();
            if n.accepted >= ACCEPTED_REPS {
                continue;
            }
            if n.accepted == 0 {
                new_states += 1;
            } else {
                summary.states_with_alternative += 1;
            }
            n.accepted += 1;
            let mut hist = frontier[i as usize].hist.clone();
            hist.push((opi, R_OK));
            if tally.samples.len() < 2 && hist.len() >= 3 && n.accepted == 2 {
                tally.samples.push(json!({
                    "fallback_prefixes": cfg.prefixes,
                    "alternative_history_to_a_known_state": cfg.history_json(&hist),
                    "state": cfg.state_json(&st)}));
            }
            next.push(BNode { st, hist });
        }
        // best rollback representative per state: max interest, then first (node, op)
        fails.sort_by(|a, b| a.0.cmp(&b.0).then(b.1.cmp(&a.1)).then(a.2.cmp(&b.2)).then(a.3.cmp(&b.3)));
        for (st, _, i, opi, res) in fails {
            let n = visited.entry(st).or_default();
            if n.rolled_back {
                continue;
            }
            n.rolled_back = true;
            summary.states_with_rollback_rep += 1;
            let mut hist = frontier[i as usize].hist.clone();
            hist.push((opi, res));
            if tally.samples.len() < 3 && hist.len() >= 3 {
                tally.samples.push(json!({
                    "fallback_prefixes": cfg.prefixes,
                    "rollback_history_to_a_known_state": cfg.history_json(&hist),
                    "state": cfg.state_json(&st)}));
            }
            next.push(BNode { st, hist });
        }
        summary.states += new_states;
        tally.extra.insert(format!("bfs_config{}_depth{depth}_nodes_expanded", cfg.id), frontier.len() as u64);
        tally.extra.insert(format!("bfs_config{}_depth{depth}_new_states", cfg.id), new_states);
        frontier = next;
        if new_states == 0 {
            // every state discovered so far has been expanded and led to known states only
            summary.closed = true;
        }
    }
    for s in visited.values() {
        summary.states_expanded += (s.expanded >= 1) as u64;
        summary.states_expanded_twice += (s.expanded >= 2) as u64;
        summary.states_expanded_thrice += (s.expanded >= 3) as u64;
    }
    summary
}

fn main() {
    let mut run = Run::from_env("C10", "model_checking");
    let thorough = run.tier.is_thorough();
    run.rule(
        "one case per executed transition (API call on a live, forked Tera after a given history), judged by the \
         fresh-instance differential; non-trivial = the instance had already gone through at least one call, or the \
         call is a batch, or the call fails (rollback). Histories are distinct by construction (no deduplication in \
         `histories`; in `dedup-bfs` every canonical state is expanded from up to three different histories); \
         transitions of `dedup-bfs` whose history is short enough to be executed by `histories` as well are judged \
         again but not counted as distinct non-trivial cases.",
    );
    run.assume("three (four with fallback prefix p/) template names and the fixed source catalogue listed under `alphabets`; batches are ordered pairs over a six-source sub-catalogue; with fallback prefixes only the pairs that involve p/a.html");
    run.assume("history length <= 2 (quick) / <= 3 (thorough) without deduplication; to depth 3 / 5 modulo the canonical state, each state expanded from up to three live representatives (first history, one alternative accepted path, one history ending in a refused call)");
    run.assume("the observation (get_template_names, render, render_block t/u, get_template_variables per catalogue name; get_component_definition, render_str and render_component for X; one context with special characters) is what 'behaves exactly like' means; error messages are not compared, error kinds are");
    run.assume("fresh-instance behaviour is memoised per canonical state inside a worker (a fresh instance has no history); sorted-order and reverse-order one-batch instances are compared whenever an entry is built");
    run.assume("add_raw_template(s), autoescape_on, (family file-api) add_template_file(s) with an explicit name, and (family glob-api; the subject is built with its cargo feature glob_fs) load_from_glob / full_reload over six fixed directories; the glob operations are explored in their own histories, not interleaved with the catalogue of the other families; delimiters fixed");

    let cfgs = [Cfg::new(0), Cfg::new(1)];
    let n_ops: Vec<u64> = cfgs.iter().map(|c| c.ops.len() as u64).collect();

    // alphabets, verbatim
    let mut alpha = serde_json::Map::new();
    for c in &cfgs {
        let mut names = serde_json::Map::new();
        for &n in &c.names {
            names.insert(
                ALL_NAMES[n].into(),
                Json::Array(c.sources[n].iter().map(|s| json!({"kind": s.label, "source": s.text})).collect()),
            );
        }
        alpha.insert(
            format!("config{}", c.id),
            json!({
                "fallback_prefixes": c.prefixes,
                "operations": c.ops.len(),
                "autoescape_on": SUFFIX_SETTINGS.iter().map(|s| s.1).collect::<Vec<_>>(),
                "single_add_sources": names,
                "batch_sub_catalogue": "ordered pairs over, per name: plain, base(t,u), super-t(next), includes(next), defines-X, syntax-error",
                "batch_pairs": c.ops.iter().filter(|o| matches!(o, Op::Batch(_))).count(),
            }),
        );
    }
    run.extra("alphabets", Json::Object(alpha));
    run.extra("render_context", json!({"v": SPECIAL}));

    // debugging aid: C10_SHOW="cfg:op,op,..." prints the observation after that history and exits
    if let Ok(spec) = std::env::var("C10_SHOW")
        && run.is_supervisor()
    {
        let (c, rest) = spec.split_once(':').unwrap_or(("0", ""));
        let cfg = &cfgs[c.parse::<usize>().unwrap_or(0)];
        if rest == "ops" {
            for (i, op) in cfg.ops.iter().enumerate() {
                println!("{i}: {}", cfg.op_json(op));
            }
            std::process::exit(0);
        }
        let mut cx = Cx { cfg, probe: Probe::new(), oracle: Oracle::new(64), distinct_from_len: 0, files: None };
        let mut node = root(&cx);
        let mut hist = vec![];
        let mut tally = Tally::default();
        let (rest, bench) = match rest.strip_suffix(",bench") {
            Some(r) => (r, true),
            None => (rest, false),
        };
        for o in rest.split(',').filter(|x| !x.is_empty()) {
            let opi: usize = o.parse().expect("op index");
            let (child, res) = step(&mut cx, &mut tally, &node, opi, &hist, true);
            hist.push((opi as u16, res));
            node = child;
            println!("{} -> {}", cfg.op_json(&cfg.ops[opi]), res_name(res));
        }
        for (l, o) in obs_labels(cfg).iter().zip(node.obs.iter()) {
            println!("  {:<55} {}", l.0, o);
        }
        for v in &tally.violations {
            println!("VIOLATION {} :: {} :: {}", v.0, v.1, v.2);
        }
        if bench {
            let n = 20000;
            let t0 = std::time::Instant::now();
            for _ in 0..n {
                std::hint::black_box(node.tera.clone());
            }
            println!("clone            {:?}", t0.elapsed() / n);
            let t0 = std::time::Instant::now();
            for _ in 0..n {
                std::hint::black_box(observe(&node.tera, cfg, &cx.probe));
            }
            println!("observe          {:?}", t0.elapsed() / n);
            let t0 = std::time::Instant::now();
            let mut k = 0u32;
            for i in 0..n {
                let mut t = node.tera.clone();
                let r = apply(&mut t, cfg, &cfg.ops[i as usize % cfg.ops.len()]);
                k += (r.0 == R_OK) as u32;
            }
            println!("clone+apply(all) {:?}  ok={k}", t0.elapsed() / n);
            let t0 = std::time::Instant::now();
            for i in 0..n {
                let (c, _) = step(&mut cx, &mut tally, &node, i as usize % cfg.ops.len(), &hist, true);
                std::hint::black_box(c);
            }
            println!("full step        {:?}", t0.elapsed() / n);
        }
        std::process::exit(0);
    }

    // ------------------------------------------------------------------------------ histories
    let depth = if thorough { 3 } else { 2 };
    // work item = (configuration, first operation) for depth 2, (configuration, first two) for 3
    let per_cfg: Vec<u64> = n_ops.iter().map(|n| if thorough { n * n } else { *n }).collect();
    let items: u64 = per_cfg.iter().sum();
    let decode = |item: u64| -> (usize, Vec<usize>) {
        let (c, rest) = if item < per_cfg[0] { (0, item) } else { (1, item - per_cfg[0]) };
        if thorough {
            (c, vec![(rest / n_ops[c]) as usize, (rest % n_ops[c]) as usize])
        } else {
            (c, vec![rest as usize])
        }
    };
    let total_hist: u64 = n_ops.iter().map(|n| (1..=depth).map(|d| n.pow(d as u32)).sum::<u64>()).sum();
    run.family(
        Family::new(
            "histories",
            items,
            &format!(
                "ALL histories of length <= {depth} over {} + {} operations (no prefixes / prefixes [\"p/\"]), no deduplication: {total_hist} transitions",
                n_ops[0], n_ops[1]
            ),
        )
        .describe(|item| {
            let (c, first) = decode(item);
            json!({"fallback_prefixes": cfgs[c].prefixes,
                   "history_prefix": first.iter().map(|o| cfgs[c].op_json(&cfgs[c].ops[*o])).collect::<Vec<_>>(),
                   "note": "every continuation of this prefix up to the depth bound is executed inside the item"})
        })
        .crash_signature(|_, kind| format!("{kind}:histories"))
        .timeout(120.0),
        |item, acc: &mut Acc| {
            let (c, first) = decode(item);
            let cfg = &cfgs[c];
            thread_local! {
                static ORACLES: std::cell::RefCell<Vec<Option<Oracle>>> = const { std::cell::RefCell::new(Vec::new()) };
            }
            // the oracle cache lives as long as the worker
            let oracle = ORACLES.with(|o| {
                let mut o = o.borrow_mut();
                while o.len() < 2 {
                    o.push(None);
                }
                o[c].take().unwrap_or_else(|| Oracle::new(4096))
            });
            let mut cx = Cx { cfg, probe: Probe::new(), oracle, distinct_from_len: 0, files: None };
            let mut tally = Tally::default();
            let mut hist: Vec<(u16, u8)> = vec![];
            let mut node = root(&cx);
            if item == 0 || item == per_cfg[0] {
                // the empty history: a pristine instance against the fresh instance of the empty set
                let i = cx.oracle.entry(cfg, &cx.probe, EMPTY);
                if cx.oracle.entries[i].obs != *node.obs {
                    tally.violation("pristine-differs".into(), "two pristine instances differ".into(), || json!({"fallback_prefixes": cfg.prefixes}));
                }
            }
            for (k, opi) in first.iter().enumerate() {
                // a prefix transition is shared by many items: judge (and count) it in one of them
                let judge = first[k + 1..].iter().all(|o| *o == 0);
                let (child, res) = step(&mut cx, &mut tally, &node, *opi, &hist, judge);
                hist.push((*opi as u16, res));
                node = child;
            }
            dfs(&mut cx, &mut tally, &node, &mut hist, 1);
            if acc.wants_sample() && hist.iter().any(|h| h.1 == R_OK) {
                let last = cfg.ops.len() / 2;
                let mut h = hist.clone();
                let (_, res) = step(&mut cx, &mut Tally::default(), &node, last, &hist, false);
                h.push((last as u16, res));
                tally.samples.push(json!({"fallback_prefixes": cfg.prefixes, "history": cfg.history_json(&h)}));
            }
            tally.extra.insert("oracle_fresh_instances_built".into(), std::mem::take(&mut cx.oracle.built));
            tally.extra.insert("oracle_calls".into(), std::mem::take(&mut cx.oracle.calls));
            tally.flush(acc);
            ORACLES.with(|o| o.borrow_mut()[c] = Some(cx.oracle));
        },
    );

    // ------------------------------------------------------------------------------ file-api
    // The same histories issued through add_template_file / add_template_files (their own insert /
    // undo code in the engine), judged by the same fresh-instance oracle (which stays on the raw
    // API), plus calls that fail on the file system: a missing file alone, and as the second
    // element of a batch whose first element had already been inserted.
    let files_dir = std::env::var("C10_FILES_DIR")
        .map(std::path::PathBuf::from)
        .unwrap_or_else(|_| std::env::temp_dir().join(format!("verif-c10-files-{}", std::process::id())));
    if run.is_supervisor() {
        // workers inherit the variable; the supervisor writes the files once and removes them afterwards
        unsafe { std::env::set_var("C10_FILES_DIR", &files_dir) };
        FileStore::create(files_dir.clone(), &cfgs[1]);
    }
    let fdepth = if thorough { 3 } else { 2 };
    let f_total: u64 = n_ops.iter().map(|n| (1..=fdepth).map(|d| n.pow(d as u32)).sum::<u64>()).sum();
    run.family(
        Family::new(
            "file-api",
            items,
            &format!(
                "ALL histories of length <= {fdepth} with every add issued through add_template_file(path, Some(name)) / add_template_files on files holding the catalogue sources ({f_total} transitions), against the raw-API fresh-instance oracle; after every history prefix of the item: a missing file alone and as second element of a batch (must fail, nothing may change)"
            ),
        )
        .describe(|item| {
            let (c, first) = decode(item);
            json!({"fallback_prefixes": cfgs[c].prefixes, "api": "add_template_file(s)",
                   "history_prefix": first.iter().map(|o| cfgs[c].op_json(&cfgs[c].ops[*o])).collect::<Vec<_>>(),
                   "note": "every continuation of this prefix up to the depth bound is executed inside the item"})
        })
        .crash_signature(|_, kind| format!("{kind}:file-api"))
        .timeout(120.0),
        |item, acc: &mut Acc| {
            let (c, first) = decode(item);
            let cfg = &cfgs[c];
            let files = FileStore::create(files_dir.clone(), &cfgs[1]);
            let mut cx = Cx { cfg, probe: Probe::new(), oracle: Oracle::new(1024), distinct_from_len: 0, files: Some(files) };
            let mut tally = Tally::default();
            let mut hist: Vec<(u16, u8)> = vec![];
            let mut node = root(&cx);
            let mut prefix_nodes: Vec<(Vec<(u16, u8)>, Tera, Rc<Obs>)> = vec![];
            if first.iter().all(|o| *o == 0) {
                prefix_nodes.push((vec![], node.tera.clone(), node.obs.clone()));
            }
            for (k, opi) in first.iter().enumerate() {
                let judge = first[k + 1..].iter().all(|o| *o == 0);
                let (child, res) = step(&mut cx, &mut tally, &node, *opi, &hist, judge);
                hist.push((*opi as u16, res));
                node = child;
                if judge {
                    prefix_nodes.push((hist.clone(), node.tera.clone(), node.obs.clone()));
                }
            }
            dfs(&mut cx, &mut tally, &node, &mut hist, 1);
            // calls that fail on the file system
            let f = cx.files.as_ref().unwrap();
            for (h, tera, obs) in &prefix_nodes {
                for &n in &cfg.names {
                    let mut calls: Vec<(String, Vec<(std::path::PathBuf, &str)>)> =
                        vec![(format!("add_template_file(<missing>, {})", ALL_NAMES[n]), vec![(f.missing(), ALL_NAMES[n])])];
                    for &m in &cfg.names {
                        // element one: a valid plain / base source (index 0 / 1) that gets inserted first
                        for s in 0..2 {
                            calls.push((
                                format!("add_template_files([{} := {}, {} := <missing>])", ALL_NAMES[m], cfg.sources[m][s].label, ALL_NAMES[n]),
                                vec![(f.path(m, s), ALL_NAMES[m]), (f.missing(), ALL_NAMES[n])],
                            ));
                        }
                    }
                    for (label, batch) in calls {
                        let mut t = tera.clone();
                        let r = engine::guarded(|| t.add_template_files(batch.iter().map(|(p, n)| (p.clone(), Some(*n))).collect::<Vec<_>>()));
                        let after = observe(&t, cfg, &cx.probe);
                        let case = || json!({"fallback_prefixes": cfg.prefixes, "history": cfg.history_json(h), "then": label, "render_context": {"v": SPECIAL}});
                        match r {
                            Ok(Err(_)) => {
                                if let Some(i) = first_diff(obs, &after) {
                                    tally.violation(
                                        format!("file-api:missing-file-not-rolled-back:{}", obs_labels(cfg)[i].1),
                                        format!("{label} failed but the instance changed: {}", obs_labels(cfg)[i].0),
                                        || { let mut j = case(); j.as_object_mut().unwrap().insert("difference".into(), diff_json(cfg, obs, &after)); j },
                                    );
                                }
                                tally.case(!h.is_empty() || batch.len() > 1, "file-api:missing-file:Err");
                            }
                            Ok(Ok(())) => tally.violation("file-api:missing-file-accepted".into(), format!("{label} returned Ok"), case),
                            Err(p) => tally.violation("file-api:panic".into(), format!("{label} panicked: {p}"), case),
                        }
                    }
                }
            }
            for v in &mut tally.violations {
                if !v.0.starts_with("file-api:") {
                    v.0 = format!("file-api:{}", v.0);
                }
            }
            // keep the raw-API vacuity counters of `histories` apart from this family's
            let t = tally.counters[C_TRANSITIONS];
            let (ok, err) = (tally.counters[C_OK], tally.counters[C_ERR]);
            tally.counters = [0; N_COUNTERS];
            tally.extra.insert("file_api_transitions".into(), t);
            tally.extra.insert("file_api_ok".into(), ok);
            tally.extra.insert("file_api_err".into(), err);
            tally.flush(acc);
        },
    );
    // ------------------------------------------------------------------------------ glob-api
    // load_from_glob / full_reload (c10x/glob.rs): every history of the operations up to the depth
    // bound; after every call the instance must look like a fresh one holding the state the model
    // expects (the requested one when that is a valid set, the previous one otherwise).
    let glob_root = files_dir.join("glob");
    if run.is_supervisor() {
        globfam::Store::create(&glob_root);
    }
    {
        let gops = globfam::ops();
        let n = gops.len() as u64;
        let gdepth: u32 = if thorough { 6 } else { 5 };
        let g_total: u64 = (1..=gdepth).map(|d| n.pow(d)).sum();
        let gops_ref = &gops;
        let glob_root_ref = &glob_root;
        run.family(
            Family::new(
                "glob-api",
                n * n,
                &format!(
                    "ALL histories of length <= {gdepth} ({g_total} transitions) over {n} operations: load_from_glob of six directories (two valid, one with a syntax error, one with a dangling parent, one valid only next to a manual template, one redefining the component), of a pattern without `*`, of a pattern that does not build, of a pattern matching nothing; full_reload; three manual templates valid only next to the right glob and one whose name the globs carry too (added by hand after a load it becomes a hand-added template, a later load that finds the file takes it back). After EVERY call: accepted exactly when the requested set is valid on a fresh instance, and the instance (template names, render and render_block of nine names, component definition, render_component, render_str) equal to a fresh instance holding the expected state"
                ),
            )
            .describe(|item| json!({"api": "load_from_glob / full_reload", "history_prefix": [globfam::op_json(gops_ref[(item / n) as usize]), globfam::op_json(gops_ref[(item % n) as usize])], "note": "every continuation of this prefix up to the depth bound is executed inside the item"}))
            .crash_signature(|_, kind| format!("{kind}:glob-api")),
            |item, acc: &mut Acc| {
                let store = globfam::Store::create(glob_root_ref);
                globfam::Explorer::new("glob-api", &store, gops_ref).run_item(acc, item, gdepth);
            },
        );
        // the files change between the calls
        let cops = globfam::changing_ops();
        let cn = cops.len() as u64;
        let cdepth: u32 = if thorough { 7 } else { 5 };
        let cops_ref = &cops;
        run.family(
            Family::new(
                "glob-api-changing-files",
                cn * cn,
                &format!(
                    "ALL histories of length <= {cdepth} over {cn} operations (two file changes in a row count as one): the files of a directory private to the worker change between the calls (5 variants: valid, a file stopped parsing, a file removed, no file at all, valid with other content); load_from_glob of that directory and of a fixed one, full_reload, a refused pattern, a manual template including one of the glob's files, a manual template with the name AND text of one of the glob's files (from then on hand-added: it survives the file's removal). Same oracle after every engine call: a reload can be refused (nothing changes, the glob stays) and must work again once the files are repaired; a glob that finds no file at all still has to leave a valid set"
                ),
            )
            .describe(|item| json!({"api": "load_from_glob / full_reload over changing files", "history_prefix": [globfam::op_json(cops_ref[(item / cn) as usize]), globfam::op_json(cops_ref[(item % cn) as usize])], "note": "every continuation of this prefix up to the depth bound is executed inside the item"}))
            .crash_signature(|_, kind| format!("{kind}:glob-api-changing-files")),
            |item, acc: &mut Acc| {
                let store = globfam::Store::create(glob_root_ref);
                globfam::Explorer::new("glob-api-changing-files", &store, cops_ref).run_item(acc, item, cdepth);
            },
        );
    }
    if run.is_supervisor() {
        let c = |n: &str| run.counter(n);
        let (ok, err, over, reload, refused_reload) = (c("glob_api_ok"), c("glob_api_err_on_nonempty"), c("glob_api_refused_load_over_loaded_glob"), c("glob_api_reload_after_refused_call"), c("glob_api_refused_reload_of_a_loaded_glob"));
        let empty = c("glob_api_err_on_empty");
        run.extra("glob_api_transitions_validated_against_fresh_instances", json!(ok + err + empty));
        run.guard(
            "glob-api-both-outcomes",
            ok > 100 && err > 100 && over > 100 && reload > 10 && refused_reload > 10,
            format!("accepted={ok} refused on an instance holding templates={err}, of which refused load_from_glob over a loaded glob={over}, refused full_reload of a loaded glob={refused_reload}; accepted full_reload after a refused call={reload}"),
        );
    }
    if run.is_supervisor() {
        let _ = std::fs::remove_dir_all(&files_dir);
        let (ok, err) = (run.counter("file_api_ok"), run.counter("file_api_err"));
        run.guard("file-api-both-outcomes", ok > 1000 && err > 1000, format!("ok={ok} err={err}"));
    }

    // ------------------------------------------------------------------------------ dedup-bfs
    let bfs_depth = std::env::var("C10_BFS_DEPTH")
        .ok()
        .and_then(|s| s.parse().ok())
        .unwrap_or(if thorough { 5 } else { 3 });
    let threads = std::thread::available_parallelism().map(|n| n.get()).unwrap_or(8);
    run.family(
        Family::new(
            "dedup-bfs",
            2,
            &format!(
                "breadth-first to depth {bfs_depth} over canonical states (name->source map, suffix setting) per configuration; every operation from every state reached within {} calls, from up to 3 live representatives per state (first history, one alternative accepted path when one exists, one history ending in a refused call)",
                bfs_depth - 1
            ),
        )
        .describe(|item| json!({"fallback_prefixes": cfgs[item as usize].prefixes, "note": "whole breadth-first search of this configuration"}))
        .crash_signature(|_, kind| format!("{kind}:dedup-bfs"))
        .workers(1)
        .timeout(10800.0),
        |item, acc: &mut Acc| {
            let cfg = &cfgs[item as usize];
            let mut tally = Tally::default();
            let s = bfs(cfg, bfs_depth, depth + 1, threads, &mut tally);
            tally.extra.insert("bfs_states".into(), s.states);
            tally.extra.insert("bfs_states_expanded".into(), s.states_expanded);
            tally.extra.insert("bfs_states_expanded_from_2_histories".into(), s.states_expanded_twice);
            tally.extra.insert("bfs_states_expanded_from_3_histories".into(), s.states_expanded_thrice);
            tally.extra.insert("bfs_states_with_alternative_path".into(), s.states_with_alternative);
            tally.extra.insert("bfs_states_with_rollback_representative".into(), s.states_with_rollback_rep);
            tally.extra.insert("bfs_nodes_expanded".into(), s.expanded);
            tally.extra.insert("bfs_closed_configs".into(), s.closed as u64);
            tally.flush(acc);
        },
    );

    if run.is_supervisor() {
        let mut snapshot: BTreeMap<&str, u64> = BTreeMap::new();
        for n in COUNTER_NAMES.iter().copied().chain([
            "bfs_states",
            "bfs_states_expanded",
            "bfs_states_expanded_from_2_histories",
            "bfs_states_expanded_from_3_histories",
            "bfs_states_with_alternative_path",
            "bfs_states_with_rollback_representative",
            "bfs_closed_configs",
        ]) {
            snapshot.insert(n, run.counter(n));
        }
        let c = |n: &str| snapshot[n];
        let transitions = c("transitions");
        run.extra("states", json!(c("bfs_states")));
        run.extra("states_fully_expanded", json!(c("bfs_states_expanded")));
        run.extra("states_expanded_from_two_histories", json!(c("bfs_states_expanded_from_2_histories")));
        run.extra("states_expanded_from_three_histories", json!(c("bfs_states_expanded_from_3_histories")));
        run.extra("state_space_closed_in_configs", json!(c("bfs_closed_configs")));
        run.extra("transitions", json!(transitions));
        run.extra("traces_validated_against_impl", json!(transitions));
        run.extra("bounds", json!({
            "histories_without_dedup_max_length": depth,
            "dedup_bfs_depth": bfs_depth,
            "representatives_per_state": {"accepted_paths": ACCEPTED_REPS, "after_rollback": 1},
            "operations": {"no_prefixes": n_ops[0], "prefixes_p": n_ops[1]},
        }));
        let (ok, err) = (c("ok_transitions"), c("err_transitions"));
        run.guard("both-outcomes", ok > 1000 && err > 1000, format!("ok={ok} err={err}"));
        run.guard("rollback-on-nonempty", c("err_on_nonempty_instance") > 1000, format!("{} failing calls on instances holding templates", c("err_on_nonempty_instance")));
        run.guard("replacement-occurs", c("replacement_ok") > 100 && c("replacement_rolled_back") > 100,
            format!("accepted replacements={} refused replacements (old entry restored)={}", c("replacement_ok"), c("replacement_rolled_back")));
        run.guard("replacement-of-referenced-template", c("parent_or_include_target_replaced") > 0,
            format!("{} accepted replacements of a template another one extends/includes", c("parent_or_include_target_replaced")));
        run.guard("replacement-of-component-provider", c("component_provider_replaced_while_called") > 0,
            format!("{} accepted replacements of the template that provides X while another template calls X", c("component_provider_replaced_while_called")));
        run.guard("batch-rollback-second-invalid", c("batch_rolled_back_second_invalid") > 100,
            format!("{} batches whose first element was inserted before the second failed to parse", c("batch_rolled_back_second_invalid")));
        run.guard("batch-same-name-twice", c("batch_same_name_twice_ok") > 0 && c("batch_same_name_twice_err") > 0,
            format!("ok={} err={}", c("batch_same_name_twice_ok"), c("batch_same_name_twice_err")));
        run.guard("batch-valid-only-together", c("batch_valid_only_together") > 0, format!("{}", c("batch_valid_only_together")));
        run.guard("autoescape-observable", c("autoescape_change_observable") > 0, format!("{} autoescape_on calls changed the observation", c("autoescape_change_observable")));
        run.guard("fallback-prefix-observable", c("fallback_prefix_resolution_observed") > 0, format!("{}", c("fallback_prefix_resolution_observed")));
        run.guard("component-shadowing", c("component_shadowed_by_priority") > 0, format!("{}", c("component_shadowed_by_priority")));
        run.guard("three-level-super-chain", c("super_chain_of_three") > 0, format!("{}", c("super_chain_of_three")));
        run.guard("alternative-paths", c("bfs_states_expanded_from_2_histories") > 10,
            format!("{} of {} expanded states were expanded from a second history, {} also from a third", c("bfs_states_expanded_from_2_histories"), c("bfs_states_expanded"), c("bfs_states_expanded_from_3_histories")));
    }
    run.finish();
}
