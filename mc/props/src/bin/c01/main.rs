//! C01 — autoescaping: data never reaches an autoescaped output unescaped; exactly once; safe
//! values and autoescape-off are written raw.
//!
//! Every program of the space `source -> route* -> sink` (see `prog.rs`) is printed to template
//! sources, registered on a real `Tera` under every configuration of a fixed menu and rendered with
//! every datum of the data alphabet. The observed bytes are judged by
//!   (1) taint        no `<`, `>`, `"`, `'` in an autoescaped output whose data is not marked safe;
//!   (2) exactly once `unescape_once(out_on) == out_off` for flows that hand escaped text on as is
//!                    (a stray `&` that starts no entity is reported too);
//!   (3) safe         a value whose last operation marked it safe (or a safe datum that is only
//!                    fetched) is written byte-identically to the escaping-off output;
//!   (4) off          every escaping-off configuration prints exactly the reference text computed
//!                    by the symbolic model of the generator;
//!   (5) escaper      with a custom escape function (`<` -> `[LT]`) the output is the reference text
//!                    passed through THAT function.

mod prog;

use mccore::engine::{self, Out};
use mccore::vals::{self, V};
use mccore::{Acc, Family, Run, json};
use prog::{Datum, Keep, Program, ROUTES, Route, SINKS, SOURCES, SOURCES_REDUCED, Sink, Skip};
use std::collections::HashMap;
use std::io::Write;
use tera::{Filter, Function, Kwargs, State, Tera, TeraResult, Value};

// ------------------------------------------------------------------------------------------
// registered probes
// ------------------------------------------------------------------------------------------

struct FilterSafe;
impl Filter<&str, String> for FilterSafe {
    fn call(&self, value: &str, _: Kwargs, _: &State) -> String {
        value.to_string()
    }
    fn is_safe(&self) -> bool {
        true
    }
}

struct FunctionSafe;
impl Function<TeraResult<String>> for FunctionSafe {
    fn call(&self, kwargs: Kwargs, _: &State) -> TeraResult<String> {
        Ok(kwargs.must_get::<&str>("v")?.to_string())
    }
    fn is_safe(&self) -> bool {
        true
    }
}

fn register(t: &mut Tera) {
    t.register_filter("fecho_str", |v: &str, _: Kwargs, _: &State| v.to_string());
    t.register_filter("fecho_val", |v: Value, _: Kwargs, _: &State| v);
    t.register_filter("fecho_safe", FilterSafe);
    t.register_function("echo_str", |k: Kwargs, _: &State| -> TeraResult<String> {
        Ok(k.must_get::<&str>("v")?.to_string())
    });
    t.register_function("echo_val", |k: Kwargs, _: &State| -> TeraResult<Value> { k.must_get::<Value>("v") });
    t.register_function("echo_safe", FunctionSafe);
}

fn custom_escape(input: &str, out: &mut dyn Write) -> std::io::Result<()> {
    for b in input.bytes() {
        if b == b'<' {
            out.write_all(b"[LT]")?;
        } else {
            out.write_all(&[b])?;
        }
    }
    Ok(())
}

fn custom_ref(s: &str) -> String {
    s.replace('<', "[LT]")
}

// ------------------------------------------------------------------------------------------
// configurations
// ------------------------------------------------------------------------------------------

#[derive(Clone, Copy, PartialEq, Eq, Hash, Debug)]
enum Cfg {
    OffTxt,
    OffReconfigured,
    OffRenderStr,
    OffRenderComponent,
    OnHtml,
    OnReconfigured,
    OnRenderStr,
    OnRenderComponent,
    OnCustomEscaper,
}

const ALL_CFGS: [Cfg; 9] = [
    Cfg::OffTxt,
    Cfg::OffReconfigured,
    Cfg::OffRenderStr,
    Cfg::OffRenderComponent,
    Cfg::OnHtml,
    Cfg::OnReconfigured,
    Cfg::OnRenderStr,
    Cfg::OnRenderComponent,
    Cfg::OnCustomEscaper,
];

const REDUCED_CFGS: [Cfg; 3] = [Cfg::OffTxt, Cfg::OnHtml, Cfg::OnRenderComponent];

impl Cfg {
    fn name(self) -> &'static str {
        match self {
            Cfg::OffTxt => "off:names.txt",
            Cfg::OffReconfigured => "off:names.html+autoescape_on([])-after-adding",
            Cfg::OffRenderStr => "off:render_str(false)+aux.txt",
            Cfg::OffRenderComponent => "off:render_component(false)+names.html",
            Cfg::OnHtml => "on:names.html",
            Cfg::OnReconfigured => "on:names.txt+autoescape_on([.txt])-after-adding",
            Cfg::OnRenderStr => "on:render_str(true)+aux.html",
            Cfg::OnRenderComponent => "on:render_component(true)+names.txt",
            Cfg::OnCustomEscaper => "on:names.html+set_escape_fn(lt->[LT])",
        }
    }
    fn on(self) -> bool {
        matches!(
            self,
            Cfg::OnHtml | Cfg::OnReconfigured | Cfg::OnRenderStr | Cfg::OnRenderComponent | Cfg::OnCustomEscaper
        )
    }
    fn ext(self) -> &'static str {
        match self {
            Cfg::OnHtml | Cfg::OnCustomEscaper | Cfg::OffReconfigured | Cfg::OnRenderStr | Cfg::OffRenderComponent => {
                "html"
            }
            Cfg::OffTxt | Cfg::OnReconfigured | Cfg::OffRenderStr | Cfg::OnRenderComponent => "txt",
        }
    }
    fn needs_plain_leaf(self) -> bool {
        matches!(
            self,
            Cfg::OnRenderStr | Cfg::OffRenderStr | Cfg::OnRenderComponent | Cfg::OffRenderComponent
        )
    }
}

/// The templates registered for `cfg` (names and sources with the extension filled in), and the
/// text given to `render_str` when that is the entry point.
fn materialize(cfg: Cfg, p: &Program) -> (Vec<(String, String)>, String) {
    let ext = cfg.ext();
    let fill = |s: &str| s.replace(prog::EXT, ext);
    let leaf_text = fill(&p.tpls[p.leaf].1);
    let mut out = vec![];
    for (i, (n, t)) in p.tpls.iter().enumerate() {
        if i == p.leaf && cfg.needs_plain_leaf() {
            continue;
        }
        out.push((fill(n), fill(t)));
    }
    if matches!(cfg, Cfg::OnRenderComponent | Cfg::OffRenderComponent) {
        let args: Vec<&str> = p.ctx.iter().map(|(k, _)| k.as_str()).chain(p.serde.iter().map(|(k, _)| k.as_str())).collect();
        out.push((
            format!("maincomp.{ext}"),
            format!("{{% component Main({}) %}}{leaf_text}{{% endcomponent Main %}}", args.join(", ")),
        ));
    }
    (out, leaf_text)
}

struct Built {
    tera: Result<Tera, Out>,
    tpls: Vec<(String, String)>,
    leaf_text: String,
}

fn build_tera(cfg: Cfg, p: &Program) -> Built {
    let (tpls, leaf_text) = materialize(cfg, p);
    let mut t = Tera::default();
    register(&mut t);
    if cfg == Cfg::OnCustomEscaper {
        t.set_escape_fn(custom_escape);
    }
    let added = engine::add_templates(&mut t, &tpls);
    let tera = if added.is_ok() {
        match cfg {
            Cfg::OnReconfigured => t.autoescape_on(vec![".txt"]),
            Cfg::OffReconfigured => t.autoescape_on(Vec::<&str>::new()),
            _ => {}
        }
        Ok(t)
    } else {
        Err(added)
    };
    Built { tera, tpls, leaf_text }
}

fn render(cfg: Cfg, b: &Built, p: &Program, ctx: &tera::Context) -> Out {
    let t = match &b.tera {
        Ok(t) => t,
        Err(o) => return o.clone(),
    };
    match cfg {
        Cfg::OnRenderStr => engine::render_str(t, &b.leaf_text, ctx, true),
        Cfg::OffRenderStr => engine::render_str(t, &b.leaf_text, ctx, false),
        Cfg::OnRenderComponent => engine::to_out(engine::guarded(|| t.render_component("Main", ctx, None, true))),
        Cfg::OffRenderComponent => engine::to_out(engine::guarded(|| t.render_component("Main", ctx, None, false))),
        _ => engine::render(t, &p.tpls[p.leaf].0.replace(prog::EXT, cfg.ext()), ctx),
    }
}

// ------------------------------------------------------------------------------------------
// oracles
// ------------------------------------------------------------------------------------------

/// Inverse of the default escaper, applied once, left to right. `Err(pos)`: an `&` that does not
/// start one of the five entities the escaper produces.
fn unescape_once_strict(s: &str) -> Result<String, usize> {
    const ENT: [(&str, char); 5] = [("&amp;", '&'), ("&lt;", '<'), ("&gt;", '>'), ("&quot;", '"'), ("&#39;", '\'')];
    let mut out = String::with_capacity(s.len());
    let mut i = 0;
    let b = s.as_bytes();
    while i < b.len() {
        if b[i] == b'&' {
            match ENT.iter().find(|(e, _)| s[i..].starts_with(e)) {
                Some((e, c)) => {
                    out.push(*c);
                    i += e.len();
                }
                None => return Err(i),
            }
        } else {
            let ch = s[i..].chars().next().unwrap();
            out.push(ch);
            i += ch.len_utf8();
        }
    }
    Ok(out)
}

fn has_taint(s: &str) -> Option<char> {
    s.chars().find(|c| matches!(c, '<' | '>' | '"' | '\''))
}

#[derive(Clone, Copy, PartialEq, Debug)]
enum Expect {
    /// the data must have gone through the escaper
    Escaped,
    /// the value is marked safe: written raw
    Raw,
    /// safe datum through an identity-like operation: raw or escaped once are both accepted
    Either,
    /// safe text transformed after escaping (`upper` on a capture): nothing is pinned
    Unpinned,
}

fn expectation(p: &Program, d: &Datum) -> Expect {
    let escaped = p.keep == Keep::Never || (!d.safe && p.keep != Keep::Mints);
    if escaped {
        Expect::Escaped
    } else if !p.as_is {
        Expect::Unpinned
    } else if p.keep == Keep::Mints || p.keep == Keep::Must {
        Expect::Raw
    } else {
        Expect::Either
    }
}

struct Case<'a> {
    source: &'a str,
    routes: &'a [Route],
    sink: Sink,
    datum: &'a Datum,
}

impl Case<'_> {
    fn routes_name(&self) -> String {
        if self.routes.is_empty() {
            "direct".into()
        } else {
            self.routes.iter().map(|r| r.name()).collect::<Vec<_>>().join("+")
        }
    }
    fn path(&self) -> String {
        format!("{}>{}>{}", self.source, self.routes_name(), self.sink.name())
    }
}

fn case_json(c: &Case, cfg: Cfg, b: &Built, p: &Program, out: &Out) -> serde_json::Value {
    let entry = match cfg {
        Cfg::OnRenderStr | Cfg::OffRenderStr => {
            json!({"api": "render_str", "source": b.leaf_text, "autoescape": cfg.on()})
        }
        Cfg::OnRenderComponent | Cfg::OffRenderComponent => {
            json!({"api": "render_component", "component": "Main", "body": null, "autoescape": cfg.on()})
        }
        _ => json!({"api": "render", "template": p.tpls[p.leaf].0.replace(prog::EXT, cfg.ext())}),
    };
    json!({
        "source": c.source,
        "routes": c.routes.iter().map(|r| r.name()).collect::<Vec<_>>(),
        "sink": c.sink.name(),
        "datum": c.datum.describe(),
        "configuration": cfg.name(),
        "registered": "Tera::default() + filters fecho_str (returns String), fecho_val (returns the Value), fecho_safe (is_safe) + functions echo_str, echo_val, echo_safe (is_safe), each returning its argument `v`",
        "templates": b.tpls.iter().map(|(n, t)| json!({"name": n, "source": t})).collect::<Vec<_>>(),
        "entry": entry,
        "context": p.ctx.iter().map(|(k, v)| json!({"name": k, "value": v.describe()})).chain(p.serde.iter().map(|(k, v)| json!({"name": k, "inserted_through_serde": format!("{v:?}")}))).collect::<Vec<_>>(),
        "expected_when_off": p.expected_off,
        "mark": format!("{:?}", p.keep),
        "as_is": p.as_is,
        "observed": out.show(),
    })
}

struct Space<'a> {
    sources: Vec<&'a str>,
    chains: Vec<Vec<Route>>,
    sinks: Vec<Sink>,
    data: Vec<Datum>,
    cfgs: Vec<Cfg>,
}

impl Space<'_> {
    fn items(&self) -> u64 {
        (self.sources.len() * self.chains.len() * self.sinks.len()) as u64
    }
    fn decode(&self, item: u64) -> (&str, &[Route], Sink) {
        let ns = self.sinks.len() as u64;
        let nsrc = self.sources.len() as u64;
        let sink = self.sinks[(item % ns) as usize];
        let src = self.sources[((item / ns) % nsrc) as usize];
        let chain = &self.chains[(item / ns / nsrc) as usize];
        (src, chain, sink)
    }
    fn describe(&self, item: u64) -> serde_json::Value {
        let (s, c, k) = self.decode(item);
        json!({"source": s, "routes": c.iter().map(|r| r.name()).collect::<Vec<_>>(), "sink": k.name()})
    }
}

fn chains_of(len: usize) -> Vec<Vec<Route>> {
    let mut out: Vec<Vec<Route>> = vec![vec![]];
    for _ in 0..len {
        let mut next = vec![];
        for c in &out {
            for r in ROUTES {
                let mut c2 = c.clone();
                c2.push(r);
                next.push(c2);
            }
        }
        out = next;
    }
    out
}

fn run_item(sp: &Space, item: u64, acc: &mut Acc) {
    let (source, routes, sink) = sp.decode(item);
    let mut cache: HashMap<(Cfg, String), Built> = HashMap::new();
    let mut counted_program = false;
    for datum in &sp.data {
        let p = match prog::build(source, routes, sink, datum) {
            Ok(Some(p)) => p,
            Ok(None) => {
                acc.count("skipped:source-has-no-safe-variant", 1);
                continue;
            }
            Err(Skip::BlockNotAllowedHere) => {
                acc.count("skipped:block-tag-not-allowed-in-this-body", 1);
                return;
            }
            Err(Skip::InheritanceOutsideRenderedChain) => {
                acc.count("skipped:inheritance-inside-included-template", 1);
                return;
            }
            Err(Skip::ScopeDumpSeesRouteGlobal) => {
                acc.count("skipped:context-dump-would-contain-the-routes-own-global", 1);
                return;
            }
        };
        if !counted_program {
            counted_program = true;
            acc.count("programs", 1);
            acc.count(&format!("src:{source}"), 1);
            acc.count(&format!("sink:{}", sink.name()), 1);
            for r in routes {
                acc.count(&format!("route:{}", r.name()), 1);
            }
            if routes.is_empty() {
                acc.count("route:direct", 1);
            }
        }
        let c = Case { source, routes, sink, datum };
        let ctx_refs: Vec<(&str, &V)> = p.ctx.iter().map(|(k, v)| (k.as_str(), v)).collect();
        let mut ctx = vals::context(&ctx_refs);
        for (k, v) in &p.serde {
            ctx.insert(k.clone(), v);
        }
        let expect = expectation(&p, datum);
        let key_text: String = p.tpls.iter().map(|(n, t)| format!("{n}\u{1}{t}\u{2}")).collect();
        let off = &p.expected_off;
        for &cfg in &sp.cfgs {
            if cfg.needs_plain_leaf() && !p.leaf_plain {
                acc.count("configuration-not-applicable:blocks-in-render_str-or-component", 1);
                continue;
            }
            let b = cache.entry((cfg, key_text.clone())).or_insert_with(|| build_tera(cfg, &p));
            let out = render(cfg, b, &p, &ctx);
            let text = match &out {
                Out::Ok(t) => t,
                Out::Err(..) => {
                    acc.violation(
                        format!("error:{}:{}", cfg.name(), c.path()),
                        format!("a well-formed program was refused: {}", out.show()),
                        || case_json(&c, cfg, b, &p, &out),
                    );
                    acc.case(false, "err");
                    continue;
                }
                Out::Panic(_) => {
                    acc.violation(
                        format!("panic:{}:{}", cfg.name(), c.path()),
                        format!("the engine panicked: {}", out.show()),
                        || case_json(&c, cfg, b, &p, &out),
                    );
                    acc.case(false, "panic");
                    continue;
                }
            };
            let viol = |acc: &mut Acc, what: &str, msg: String| {
                acc.violation(format!("{what}:{}:{}", cfg.name(), c.path()), msg, || {
                    case_json(&c, cfg, b, &p, &out)
                });
            };
            if !cfg.on() {
                // (4) off: the reference concatenation of the raw data
                acc.count("checked:off-equals-reference", 1);
                if text != off {
                    viol(acc, "off-mismatch", format!("escaping is off: expected {off:?}, got {text:?}"));
                }
                acc.case(true, "off:ok");
                continue;
            }
            if cfg == Cfg::OnCustomEscaper {
                // (5) the configured escaper is the one used
                let esc = custom_ref(off);
                let ok = match expect {
                    Expect::Escaped => *text == esc,
                    Expect::Raw => text == off,
                    Expect::Either | Expect::Unpinned => text == off || *text == esc,
                };
                acc.count("checked:custom-escaper", 1);
                if esc != *off && *text == esc {
                    acc.count("observed:custom-escaper-applied", 1);
                }
                if !ok {
                    viol(
                        acc,
                        "custom-escaper",
                        format!(
                            "escape_fn maps `<` to `[LT]` only; expected {:?}{}, got {text:?}",
                            if expect == Expect::Raw { off } else { &esc },
                            if matches!(expect, Expect::Either | Expect::Unpinned) { " (or the raw text)" } else { "" }
                        ),
                    );
                }
                acc.case(true, "on:ok");
                continue;
            }
            if text != off {
                acc.count("observed:escaping-changed-the-output", 1);
            } else if has_taint(text).is_some() {
                acc.count("observed:special-characters-written-raw", 1);
            }
            let mut pinned = true;
            match expect {
                Expect::Escaped => {
                    // (1) taint
                    acc.count("checked:taint", 1);
                    if let Some(ch) = has_taint(text) {
                        viol(
                            acc,
                            "unescaped",
                            format!("autoescaped output contains a raw `{ch}` that came from data: {text:?}"),
                        );
                    }
                    // (2) exactly once
                    if p.as_is {
                        acc.count("checked:exactly-once", 1);
                        match unescape_once_strict(text) {
                            Ok(u) if u == *off => {}
                            Ok(u) => viol(
                                acc,
                                "not-once",
                                format!(
                                    "undoing one level of escaping gives {u:?}, the escaping-off output is {off:?} (output {text:?})"
                                ),
                            ),
                            Err(pos) => viol(
                                acc,
                                "raw-ampersand",
                                format!("`&` at byte {pos} of {text:?} starts no entity: that character did not go through the escaper"),
                            ),
                        }
                    }
                }
                Expect::Raw => {
                    // (3) safe
                    acc.count("checked:safe-written-raw", 1);
                    if text != off {
                        viol(
                            acc,
                            "safe-escaped",
                            format!("the value is marked safe: expected the raw text {off:?}, got {text:?}"),
                        );
                    }
                }
                Expect::Either => {
                    acc.count("checked:safe-raw-or-escaped-once", 1);
                    if text != off && unescape_once_strict(text).ok().as_ref() != Some(off) {
                        viol(
                            acc,
                            "safe-neither",
                            format!("expected the raw text {off:?} or that text escaped once, got {text:?}"),
                        );
                    }
                }
                Expect::Unpinned => {
                    acc.count("unpinned:safe-text-transformed-after-escaping", 1);
                    pinned = false;
                }
            }
            acc.case(pinned, "on:ok");
        }
        if item % 997 == 3 && datum.text == "<>\"'&" && !datum.safe {
            acc.sample(|| {
                let b = build_tera(Cfg::OnHtml, &p);
                let out = render(Cfg::OnHtml, &b, &p, &ctx);
                case_json(&c, Cfg::OnHtml, &b, &p, &out)
            });
        }
    }
}

fn main() {
    let mut run = Run::from_env("C01", "exploration");
    let thorough = run.tier.is_thorough();
    run.rule(
        "One case = one render of one program (source > route chain > sink) with one datum under one configuration; \
         cases are distinct by construction of the product. A case is non-trivial when the render succeeded and an \
         oracle pinned its bytes: off-configurations against the reference text, on-configurations against taint / \
         exactly-once / safe-raw / custom-escaper (the only unpinned renders are safe text transformed after escaping, \
         e.g. `{% filter upper %}{{ x | safe }}{% endfilter %}`, counted under unpinned:*). Every datum contains at \
         least one of `< > \" ' &`, so every pinned case carries characters the escaper must act on.",
    );
    run.assume("the default escaper's five entities (&amp; &lt; &gt; &quot; &#39;) are what `unescape_once` undoes; raw `&` is asserted only for flows that never transform escaped text");
    run.assume("identity-like operations on a SAFE datum (default, first/last/nth/get, and/or/ternary, index, slice, loops over containers, comprehensions, user filters returning the value) may keep or drop the mark: docs are silent, both raw and escaped-once are accepted; operations that build a new string (all string filters, `~`, split, str, join) must be escaped even on a safe datum (docs: `safe` only works as the last filter)");
    run.assume("render_component(name, ctx, body, autoescape): the per-call flag governs the whole render including included templates, whatever their name suffix; render_str(…, flag) governs the one-off template only, so auxiliary templates are named to agree with the flag (mixed on/off template sets are outside the property's premise)");
    run.assume("how containers print (strings inside arrays / maps in Rust Debug quoting, maps sorted by key, bytes as lossy UTF-8) is taken from the engine as the escaping-off reference, not asserted as documented");
    run.assume("route chains longer than the tier's bound, user filters beyond the six registered probes and non-default cargo features (unicode, fast_escape, preserve_order) are outside the bound");

    // quick: the combined, the pre-escaped, the heap and the multibyte datum (normal and safe);
    // thorough: the whole data alphabet
    let data_all: Vec<Datum> = prog::data()
        .into_iter()
        .filter(|d| thorough || d.text.chars().count() > 1)
        .collect();
    let data_reduced: Vec<Datum> =
        data_all.iter().filter(|d| d.text == "<>\"'&").cloned().collect();

    let mut spaces: Vec<(String, String, Space)> = vec![];
    let mut short = chains_of(0);
    short.extend(chains_of(1));
    spaces.push((
        "flows-upto-1-route".into(),
        format!(
            "every source ({}) x every chain of <= 1 route ({}) x every sink ({}) x every datum ({}) x every configuration ({})",
            SOURCES.len(),
            short.len(),
            SINKS.len(),
            data_all.len(),
            ALL_CFGS.len()
        ),
        Space {
            sources: SOURCES.to_vec(),
            chains: short,
            sinks: SINKS.to_vec(),
            data: data_all.clone(),
            cfgs: ALL_CFGS.to_vec(),
        },
    ));
    if thorough {
        let two = chains_of(2);
        // the five one-character data are covered by the family above; two routes deep the
        // combined / pre-escaped / heap / multibyte data carry the same characters
        let data_two: Vec<Datum> = data_all.iter().filter(|d| d.text.chars().count() > 1).cloned().collect();
        spaces.push((
            "flows-2-routes".into(),
            format!(
                "every source ({}) x every chain of exactly 2 routes ({}) x every sink ({}) x the {} data longer than one character x every configuration ({})",
                SOURCES.len(),
                two.len(),
                SINKS.len(),
                data_two.len(),
                ALL_CFGS.len()
            ),
            Space {
                sources: SOURCES.to_vec(),
                chains: two,
                sinks: SINKS.to_vec(),
                data: data_two,
                cfgs: ALL_CFGS.to_vec(),
            },
        ));
        let three = chains_of(3);
        // one sink per form and per placement
        let sinks3 = vec![SINKS[3], SINKS[7], SINKS[2]];
        spaces.push((
            "flows-3-routes-reduced".into(),
            format!(
                "{} representative sources x every chain of exactly 3 routes ({}) x 3 sinks ({}) x the datum <>\"'& normal and safe x 3 configurations (names.txt, names.html, render_component(true))",
                SOURCES_REDUCED.len(),
                three.len(),
                sinks3.iter().map(|s| s.name()).collect::<Vec<_>>().join(", ")
            ),
            Space {
                sources: SOURCES_REDUCED.to_vec(),
                chains: three,
                sinks: sinks3,
                data: data_reduced.clone(),
                cfgs: REDUCED_CFGS.to_vec(),
            },
        ));
    }

    run.extra(
        "alphabets",
        json!({
            "sources": SOURCES,
            "sources_reduced": SOURCES_REDUCED,
            "routes": ROUTES.iter().map(|r| r.name()).collect::<Vec<_>>(),
            "sinks": SINKS.iter().map(|s| s.name()).collect::<Vec<_>>(),
            "data": data_all.iter().map(|d| d.describe()).collect::<Vec<_>>(),
            "configurations": ALL_CFGS.iter().map(|c| c.name()).collect::<Vec<_>>(),
            "component_library": prog::COMPS_FIXED,
        }),
    );
    run.extra(
        "bounds",
        json!({
            "route_chain_length": if thorough { "<= 2 on the full product, 3 on the reduced product" } else { "<= 1" },
            "tier": run.tier.name(),
        }),
    );

    for (name, bounds, sp) in &spaces {
        run.family(
            Family::new(name, sp.items(), bounds).describe(|i| sp.describe(i)),
            |item, acc: &mut Acc| run_item(sp, item, acc),
        );
    }

    // ---------------------------------------------------------------- State::call_filter
    // A host filter that applies another filter by name (`State::call_filter`, what a `map`-like
    // extension does) gets the result the template would get: marked safe when that filter is
    // registered as safe (or is the built-in `safe`), not marked when it builds a new string. The
    // mark is read off with `Value::is_safe` inside the callback, and the value handed on is printed
    // under autoescaping. (Seeded change C01-14 dropped the marking step of call_filter.)
    {
        fn via(val: Value, kwargs: Kwargs, state: &State) -> TeraResult<Value> {
            let name = kwargs.must_get::<String>("f")?;
            state.call_filter(&name, &val, Kwargs::default())
        }
        fn via_mark(val: Value, kwargs: Kwargs, state: &State) -> TeraResult<String> {
            let name = kwargs.must_get::<String>("f")?;
            let r = state.call_filter(&name, &val, Kwargs::default())?;
            Ok(if r.is_safe() { "S".to_string() } else { "P".to_string() })
        }
        // (filter applied through the callback, mark of its result, printed text for the datum `<&>`)
        let cases: [(&str, &str, &str); 5] = [
            ("fecho_safe", "S", "<&>"),
            ("safe", "S", "<&>"),
            ("fecho_str", "P", "&lt;&amp;&gt;"),
            ("upper", "P", "&lt;&amp;&gt;"),
            ("escape_html", "P", "&amp;lt;&amp;amp;&amp;gt;"),
        ];
        run.family(
            Family::new("call_filter-marks", cases.len() as u64, "5 filters (registered safe, the built-in safe, a user filter building a string, upper, escape_html) applied by a host filter through State::call_filter to the datum <&>: the mark of the result inside the callback (Value::is_safe) and the text printed from the value handed on, in an autoescaped template and through render_str(.., true), at top level and inside an included template"),
            |item, acc: &mut Acc| {
                let (f, mark, text) = cases[item as usize];
                let mut t = Tera::default();
                register(&mut t);
                t.register_filter("via", via);
                t.register_filter("via_mark", via_mark);
                let body = format!("{{{{ d | via_mark(f=\"{f}\") }}}}:{{{{ d | via(f=\"{f}\") }}}}");
                t.add_raw_templates(vec![("leaf.html", body.as_str()), ("root.html", "{% include \"leaf.html\" %}")]).expect("call_filter templates load");
                let mut ctx = tera::Context::new();
                ctx.insert("d", "<&>");
                let want = format!("{mark}:{text}");
                for (call, out) in [
                    ("render(leaf.html)", engine::render(&t, "leaf.html", &ctx)),
                    ("render(root.html)", engine::render(&t, "root.html", &ctx)),
                    ("render_str(.., true)", engine::render_str(&t, &body, &ctx, true)),
                ] {
                    if out.ok() != Some(want.as_str()) {
                        acc.violation(
                            format!("call_filter-mark:{f}"),
                            format!("{call} of `{body}` with d = \"<&>\" gave {}, expected {want:?} (mark inside the callback : printed text)", out.show()),
                            || json!({"template": body, "d": "<&>", "call": call, "via": "user filter returning State::call_filter(f, value)", "via_mark": "user filter returning S / P for Value::is_safe of that result"}),
                        );
                    }
                    acc.case(true, out.class());
                }
            },
        );
    }

    // ---------------------------------------------------------------- suffix rule
    // Which templates are autoescaped: "files ending with" one of the configured suffixes
    // (default .html .htm .xml), whether autoescape_on is called before or after adding.
    let names = ["a.html", "a.htm", "a.xml", "a.txt", "a", "html", "a.html.txt", "dir/b.html", "a.xhtml"];
    let suffix_sets: Vec<(&str, Option<Vec<&'static str>>)> = vec![
        ("default", None),
        ("[]", Some(vec![])),
        ("[.txt]", Some(vec![".txt"])),
        ("[html]", Some(vec!["html"])),
        ("[.html, .txt]", Some(vec![".html", ".txt"])),
        ("[.html.txt]", Some(vec![".html.txt"])),
    ];
    let orders = ["autoescape_on-before-adding", "autoescape_on-after-adding", "autoescape_on-between-two-adds"];
    // ---------------------------------------------------------------- on-the-fly templates including registered ones
    // "by name suffix or by API flag": the flag given to render_str / one_off is the setting of the
    // template compiled on the fly - every registered template it includes keeps its own, by suffix
    // (seeded change C01-9 made the per-call flag override the included templates' setting).
    run.family(
        Family::new(
            "render_str-includes-registered",
            8,
            "render_str / Tera::one_off with autoescape = true / false x a template compiled on the fly that prints the datum and includes row.html (on by suffix) and note.txt (off by suffix), directly, through a second include and inside a capture: every print follows the setting of the template it is written in",
        ),
        |item, acc: &mut Acc| {
            let flag = item & 1 == 1;
            let shape = (item >> 1) as usize;
            let d = "<&>";
            let esc = "&lt;&amp;&gt;";
            let mut t = Tera::default();
            let tpls = vec![
                ("row.html".to_string(), "h({{ v }})".to_string()),
                ("note.txt".to_string(), "t({{ v }})".to_string()),
                ("viahtml.html".to_string(), "H[{{ v }}{% include \"note.txt\" %}]".to_string()),
                ("viatxt.txt".to_string(), "T[{{ v }}{% include \"row.html\" %}]".to_string()),
            ];
            engine::add_templates(&mut t, &tpls);
            let own = if flag { esc } else { d };
            let (src, want): (&str, String) = match shape {
                0 => ("o({{ v }}){% include \"row.html\" %}{% include \"note.txt\" %}", format!("o({own})h({esc})t({d})")),
                1 => ("o({{ v }}){% include \"viahtml.html\" %}{% include \"viatxt.txt\" %}", format!("o({own})H[{esc}t({d})]T[{d}h({esc})]")),
                2 => ("{% for i in [1] %}{% include \"note.txt\" %}{% include \"row.html\" %}{% endfor %}o({{ v }})", format!("t({d})h({esc})o({own})")),
                _ => ("{% if true %}{% include \"row.html\" %}{% endif %}|{{ v }}|{% include \"note.txt\" %}", format!("h({esc})|{own}|t({d})")),
            };
            let ctx = vals::context(&[("v", &V::s(d))]);
            let case = |api: &str| json!({"api": api, "autoescape": flag, "source": src, "registered": tpls, "v": d});
            let out = engine::render_str(&t, src, &ctx, flag);
            if out.ok() != Some(want.as_str()) {
                acc.violation(
                    format!("mixed-mode:render_str({flag})"),
                    format!("render_str(.., autoescape={flag}) gave {}, expected {want:?}: every print follows the setting of its own template", out.show()),
                    || case("render_str"),
                );
            }
            acc.case(true, out.class());
            // Tera::one_off has no registry: the same source without includes
            let one = engine::to_out(engine::guarded(|| Tera::one_off("o({{ v }})", &ctx, flag)));
            if one.ok() != Some(format!("o({own})").as_str()) {
                acc.violation(format!("mixed-mode:one_off({flag})"), format!("one_off(.., autoescape={flag}) gave {}", one.show()), || case("one_off"));
            }
            acc.case(true, one.class());
        },
    );

    let n_suffix_items = (names.len() * suffix_sets.len() * orders.len()) as u64;
    run.family(
        Family::new(
            "suffix-rule",
            n_suffix_items,
            &format!(
                "{} template names x {} suffix lists x {} orders of configuring vs adding; program `{{{{ d }}}}|{{{{ s }}}}` with d normal and s safe",
                names.len(),
                suffix_sets.len(),
                orders.len()
            ),
        ),
        |item, acc: &mut Acc| {
            let i = item as usize;
            let name = names[i % names.len()];
            let (sname, set) = &suffix_sets[(i / names.len()) % suffix_sets.len()];
            let order = orders[i / names.len() / suffix_sets.len()];
            let effective: Vec<&str> = set.clone().unwrap_or(vec![".html", ".htm", ".xml"]);
            let on = effective.iter().any(|s| name.ends_with(s));
            let src = "{{ d }}|{{ s }}";
            let mut t = Tera::default();
            let apply = |t: &mut Tera| {
                if let Some(s) = set {
                    t.autoescape_on(s.clone());
                }
            };
            let add = |t: &mut Tera, n: &str| engine::add_templates(t, &[(n.to_string(), src.to_string())]);
            let mut added = Out::Ok(String::new());
            match order {
                "autoescape_on-before-adding" => {
                    apply(&mut t);
                    added = add(&mut t, name);
                }
                "autoescape_on-after-adding" => {
                    added = add(&mut t, name);
                    apply(&mut t);
                }
                _ => {
                    let first = add(&mut t, name);
                    apply(&mut t);
                    // a later, unrelated add re-finalizes every template
                    let second = add(&mut t, "other.tpl");
                    if !first.is_ok() || !second.is_ok() {
                        added = if first.is_ok() { second } else { first };
                    }
                }
            }
            let ctx = vals::context(&[("d", &V::s("<>\"'&")), ("s", &V::Safe("<>\"'&".into()))]);
            let out = if added.is_ok() { engine::render(&t, name, &ctx) } else { added };
            let want = if on { "&lt;&gt;&quot;&#39;&amp;|<>\"'&" } else { "<>\"'&|<>\"'&" };
            if out.ok() != Some(want) {
                acc.violation(
                    format!("suffix-rule:{order}:{sname}:{name}"),
                    format!(
                        "template `{name}` with autoescape suffixes {sname} should be autoescape-{}: expected {want:?}, got {}",
                        if on { "on" } else { "off" },
                        out.show()
                    ),
                    || json!({"template": {"name": name, "source": src}, "autoescape_on": sname, "order": order,
                              "context": {"d": "\"<>\\\"'&\"", "s": "safe\"<>\\\"'&\""}, "observed": out.show()}),
                );
            }
            acc.case(out.is_ok(), if on { "on:ok" } else { "off:ok" });
            acc.count(if on { "suffix-rule:on" } else { "suffix-rule:off" }, 1);
            if item == 7 {
                acc.sample(|| json!({"template": name, "autoescape_on": sname, "order": order, "observed": out.show()}));
            }
        },
    );

    // ---------------------------------------------------------------- render_component body
    // `render_component(name, ctx, Some(body), flag)`: the body text is handed to the component as
    // already-rendered content (doc example: `Some("<p>Card content here</p>")` comes out as is).
    let body_texts: Vec<&str> = prog::DATA_TEXTS.to_vec();
    run.family(
        Family::new(
            "render-component-body",
            (body_texts.len() * 2) as u64,
            "every data text as the `body` argument of render_component x autoescape flag, next to a normal and a safe argument",
        ),
        |item, acc: &mut Acc| {
            let body = body_texts[item as usize / 2];
            let flag = item % 2 == 0;
            let mut t = Tera::default();
            let src = "{% component Card(a, s) %}W[{{ body }}|{{ a }}|{{ s }}]{% endcomponent Card %}";
            let name = if flag { "card.txt" } else { "card.html" };
            let added = engine::add_templates(&mut t, &[(name.to_string(), src.to_string())]);
            let ctx = vals::context(&[("a", &V::s(body)), ("s", &V::Safe(body.into()))]);
            let out = if added.is_ok() {
                engine::to_out(engine::guarded(|| t.render_component("Card", &ctx, Some(body), flag)))
            } else {
                added
            };
            let want = if flag {
                format!("W[{body}|{}|{body}]", prog::esc_html_ref(body))
            } else {
                format!("W[{body}|{body}|{body}]")
            };
            if out.ok() != Some(want.as_str()) {
                acc.violation(
                    format!("render-component-body:autoescape={flag}"),
                    format!("expected {want:?}, got {}", out.show()),
                    || json!({"template": {"name": name, "source": src}, "api": "render_component", "component": "Card",
                              "body": body, "autoescape": flag, "context": {"a": V::s(body).describe(), "s": V::Safe(body.into()).describe()},
                              "observed": out.show()}),
                );
            }
            acc.case(out.is_ok(), if flag { "on:ok" } else { "off:ok" });
            if item == 10 {
                acc.sample(|| json!({"body": body, "autoescape": flag, "observed": out.show()}));
            }
        },
    );

    if run.is_supervisor() {
        let (son, soff) = (run.counter("suffix-rule:on"), run.counter("suffix-rule:off"));
        run.guard("suffix-rule-both-outcomes", son > 0 && soff > 0, format!("on={son} off={soff}"));
        let missing: Vec<String> = SOURCES
            .iter()
            .map(|s| format!("src:{s}"))
            .chain(ROUTES.iter().map(|r| format!("route:{}", r.name())))
            .chain(SINKS.iter().map(|s| format!("sink:{}", s.name())))
            .chain(["route:direct".to_string()])
            .filter(|k| run.counter(k) == 0)
            .collect();
        run.guard(
            "every-source-route-sink-exercised",
            missing.is_empty(),
            format!("alphabet elements that never made it into a rendered program: {missing:?}"),
        );
        for k in [
            "checked:taint",
            "checked:exactly-once",
            "checked:safe-written-raw",
            "checked:safe-raw-or-escaped-once",
            "checked:off-equals-reference",
            "checked:custom-escaper",
            "observed:escaping-changed-the-output",
            "observed:special-characters-written-raw",
            "observed:custom-escaper-applied",
        ] {
            let n = run.counter(k);
            run.guard(k, n > 0, format!("{n} cases"));
        }
        let on = run.outcome_any("on:ok");
        let off = run.outcome_any("off:ok");
        run.guard("both-modes-rendered", on > 0 && off > 0, format!("on:ok={on} off:ok={off}"));
    }
    run.finish();
}
