//! Program generator for C01: data-flow paths `source -> route* -> sink`, printed to template
//! sources, together with a symbolic model of what the program prints when escaping is off.
//!
//! Self-contained (depends on `mccore::vals` and std only) so that another check can reuse it with
//! `#[path = "../c01/prog.rs"] mod prog;`.
//!
//! Conventions
//!   * every template name / include target / extends target is written with the placeholder
//!     `%E%` instead of a file extension; the caller substitutes `html` / `txt` per configuration;
//!   * literal template text (outside tags) contains none of `< > " ' &`;
//!   * every structural element adds its own marker letters, so a misplaced or lost write shows up
//!     in the escaping-off comparison.

use mccore::vals::{K, V};

pub const EXT: &str = "%E%";

// ------------------------------------------------------------------------------------------
// data
// ------------------------------------------------------------------------------------------

/// The data alphabet (DESIGN §4 C01): each special alone, all five, an already-escaped entity, a
/// 30-byte heap string of specials, and one multibyte string (bytewise escaper vs UTF-8).
pub const DATA_TEXTS: [&str; 9] = [
    "<",
    ">",
    "\"",
    "'",
    "&",
    "<>\"'&",
    "&lt;",
    "<>\"'&<>\"'&<>\"'&<>\"'&<>\"'&<>\"'&",
    "é<ü>",
];

#[derive(Clone, Debug, PartialEq)]
pub struct Datum {
    pub text: String,
    /// wrapped as `Value::safe_string` by the application
    pub safe: bool,
}

impl Datum {
    pub fn v(&self) -> V {
        if self.safe { V::Safe(self.text.clone()) } else { V::Str(self.text.clone()) }
    }
    pub fn describe(&self) -> String {
        self.v().describe()
    }
}

pub fn data() -> Vec<Datum> {
    let mut out = vec![];
    for t in DATA_TEXTS {
        out.push(Datum { text: t.to_string(), safe: false });
    }
    for t in DATA_TEXTS {
        out.push(Datum { text: t.to_string(), safe: true });
    }
    out
}

// ------------------------------------------------------------------------------------------
// reference helpers (what the value prints as when nothing is escaped)
// ------------------------------------------------------------------------------------------

/// How a string element is printed inside an array / map (`{{ ["<"] }}` prints `["<"]`).
pub fn quoted(s: &str) -> String {
    format!("{s:?}")
}

pub fn esc_html_ref(s: &str) -> String {
    let mut o = String::new();
    for c in s.chars() {
        match c {
            '&' => o.push_str("&amp;"),
            '<' => o.push_str("&lt;"),
            '>' => o.push_str("&gt;"),
            '"' => o.push_str("&quot;"),
            '\'' => o.push_str("&#39;"),
            c => o.push(c),
        }
    }
    o
}

pub fn esc_xml_ref(s: &str) -> String {
    esc_html_ref(s).replace("&#39;", "&apos;")
}

fn capitalize_ref(s: &str) -> String {
    let mut it = s.chars();
    match it.next() {
        None => String::new(),
        Some(f) => f.to_uppercase().collect::<String>() + &it.as_str().to_lowercase(),
    }
}

fn title_ref(s: &str) -> String {
    let mut out = String::new();
    let mut cap = true;
    for c in s.chars() {
        if c.is_ascii_punctuation() || c.is_whitespace() {
            out.push(c);
            if c != '\'' {
                cap = true;
            }
        } else if cap {
            out.extend(c.to_uppercase());
            cap = false;
        } else {
            out.extend(c.to_lowercase());
        }
    }
    out
}

fn rev(s: &str) -> String {
    s.chars().rev().collect()
}

/// A template string literal in double quotes.
pub fn lit_dq(s: &str) -> String {
    format!("\"{}\"", s.replace('\\', "\\\\").replace('"', "\\\""))
}

/// A template string literal in single quotes.
pub fn lit_sq(s: &str) -> String {
    format!("'{}'", s.replace('\\', "\\\\").replace('\'', "\\'"))
}

// ------------------------------------------------------------------------------------------
// symbolic escaping-off output
// ------------------------------------------------------------------------------------------

#[derive(Clone, Debug)]
pub enum Exp {
    Lit(String),
    /// the printed form of the source value (of the current iteration)
    Val,
    Cat(Vec<Exp>),
    Upper(Box<Exp>),
    Rep(usize, Box<Exp>),
}

impl Exp {
    pub fn eval(&self, val: &str) -> String {
        match self {
            Exp::Lit(s) => s.clone(),
            Exp::Val => val.to_string(),
            Exp::Cat(xs) => xs.iter().map(|x| x.eval(val)).collect(),
            Exp::Upper(x) => x.eval(val).to_uppercase(),
            Exp::Rep(n, x) => x.eval(val).repeat(*n),
        }
    }
    fn wrap(pre: &str, inner: Exp, post: &str) -> Exp {
        Exp::Cat(vec![Exp::Lit(pre.into()), inner, Exp::Lit(post.into())])
    }
}

// ------------------------------------------------------------------------------------------
// sources
// ------------------------------------------------------------------------------------------

/// What the property says about the mark of the source's result.
#[derive(Clone, Copy, PartialEq, Eq, Debug)]
pub enum Keep {
    /// the result IS the datum value (fetched, not computed): safe iff the datum is safe
    Must,
    /// identity-like operation on the datum; the documentation is silent on whether the mark
    /// survives: for a safe datum both "written raw" and "escaped once" are accepted
    May,
    /// builds a new string with an operation that is not registered safe: always escaped,
    /// even when the datum was safe (docs: "`safe` only works if it is the last filter")
    Never,
    /// the last operation explicitly marks the result safe (`safe`, is_safe filter/function)
    Mints,
}

/// A context entry that goes in through serde (`Context::insert(name, &value)`), the way embedders
/// fill a context: a Rust `char`, `String`, struct field, `Vec<char>`, map value, tuple, `Option`.
/// (Seeded change C01-11 made the serializer store a `char` as a safe string.)
#[derive(Clone, Debug, serde_derive::Serialize)]
#[serde(untagged)]
pub enum SerdeIn {
    Str(String),
    Char(char),
    Chars(Vec<char>),
    Field { f: String },
    CharField { c: char },
    OptStr(Option<String>),
    MapVal(std::collections::BTreeMap<String, String>),
    Tuple((i32, char, String)),
}

pub struct SrcOut {
    pub ctx: Vec<(String, V)>,
    /// entries inserted through serde
    pub serde: Vec<(String, SerdeIn)>,
    /// statements emitted before anything else (no output)
    pub pre: String,
    /// loop wrapper (opening tag, closing tag): the rest of the program is the loop body
    pub open: Option<(String, String)>,
    /// the expression that evaluates to the source value
    pub cur: String,
    /// printed form of the value, per loop iteration (one entry when there is no loop)
    pub iters: Vec<String>,
    pub keep: Keep,
    /// extra component definitions (data-dependent ones)
    pub comps: String,
    /// the value is the whole variable scope (`__tera_context`): variables that routes create
    /// become part of it when the expression is evaluated again
    pub sees_scope: bool,
}

pub const SOURCES: &[&str] = &[
    // the datum itself, fetched
    "ctx-string",
    "map-field-dot",
    "map-field-subscript",
    "map-field-nested",
    "map-8-entries-field",
    "array-elem",
    "array-elem-neg",
    "literal-dq",
    "literal-sq",
    "literal-in-array",
    "loop-array",
    "loop-array-literal",
    "loop-string-chars",
    "loop-map-key",
    "loop-map-value",
    "bytes",
    // the datum put into the context through serde
    "serde-string",
    "serde-struct-field",
    "serde-map-value",
    "serde-option",
    "serde-tuple-string",
    "serde-char",
    "serde-char-field",
    "serde-tuple-char",
    "serde-chars-loop",
    // containers printed whole
    "array-whole",
    "array-literal-whole",
    "map-whole",
    "map-key-whole",
    "map-literal-whole",
    "nested-array-whole",
    // literal-only containers (the parser folds them into one constant) printed whole
    "const-array-whole",
    "const-map-whole",
    "const-map-key-whole",
    "const-nested-whole",
    "bytes-in-array-whole",
    "tera-context-whole",
    // string-producing built-ins
    "upper",
    "lower",
    "capitalize",
    "title",
    "trim",
    "trim_start",
    "trim_end",
    "trim-pat",
    "replace-noop",
    "replace-to-data",
    "replace-from-data",
    "truncate-noop",
    "truncate-end-data",
    "indent",
    "str",
    "str-of-array",
    "join",
    "join-sep-data",
    "split-whole",
    "split-first",
    "reverse-string",
    "reverse-array-first",
    "first",
    "last",
    "nth",
    "get",
    "get-default-data",
    "default-of-undefined",
    "default-of-defined",
    "newlines_to_br",
    "newlines_to_br-inserting",
    "escape_html",
    "escape_xml",
    "pluralize-data",
    "values-first",
    "keys-first",
    "pairs-whole",
    "sort-first",
    "unique-first",
    "group_by-whole",
    // safe
    "safe-filter",
    "safe-then-upper",
    "upper-then-safe",
    "array-safe",
    // ~
    "concat-right-literal",
    "concat-left-literal",
    "concat-self",
    "concat-safe-left",
    "concat-safe-right",
    "concat-int-left",
    "concat-int-right",
    "concat-capture-left",
    "concat-capture-right",
    "concat-array",
    // index / slice
    "index-0",
    "index-last",
    "slice-0-2",
    "slice-reverse",
    "slice-all",
    "array-slice-whole",
    // ternary / and / or
    "ternary-true-arm",
    "ternary-false-arm",
    "or-left",
    "or-right",
    "and-right",
    "and-self",
    // registered functions / filters
    "fn-plain-string",
    "fn-plain-value",
    "fn-is_safe",
    "filter-plain-string",
    "filter-plain-value",
    "filter-is_safe",
    "filter-is_safe-then-plain",
    // list comprehension
    "comprehension-whole",
    "comprehension-first",
    "comprehension-concat-first",
    "comprehension-chars-whole",
    "comprehension-map-value-first",
    "comprehension-map-key-first",
    "comprehension-safe-whole",
    // component arguments
    "comp-arg-literal",
    "comp-arg-expr",
    "comp-arg-shorthand",
    "comp-arg-spread",
    "comp-arg-rest-field",
    "comp-arg-rest-whole",
    "comp-arg-filtered",
    "comp-default-string",
    "comp-default-array",
];

/// A representative subset (one or two per mechanism) used by the reduced depth-3 family.
pub const SOURCES_REDUCED: &[&str] = &[
    "ctx-string",
    "map-field-dot",
    "literal-dq",
    "loop-array",
    "loop-string-chars",
    "array-whole",
    "upper",
    "first",
    "safe-filter",
    "concat-safe-left",
    "slice-0-2",
    "ternary-true-arm",
    "fn-is_safe",
    "filter-plain-value",
    "comprehension-first",
    "comp-arg-expr",
];

/// The component library every program can call (defined in `comps.%E%`).
pub const COMPS_FIXED: &str = "{% component Echo(a) %}E({{ a }}){% endcomponent Echo %}\
{% component EchoD(d) %}E({{ d }}){% endcomponent EchoD %}\
{% component EchoRest(...rest) %}E({{ rest.zz }}){% endcomponent EchoRest %}\
{% component EchoRestWhole(...rest) %}E({{ rest }}){% endcomponent EchoRestWhole %}\
{% component Wrap() %}W[{{ body }}]{% endcomponent Wrap %}\
{% component ShowTop(v) %}S({{ true and v }}){% endcomponent ShowTop %}\
{% component ShowPath(v) %}S({{ v }}){% endcomponent ShowPath %}\
{% component ShowAttr(v) %}S({{ v.f }}){% endcomponent ShowAttr %}";

pub fn build_source(name: &str, d: &Datum) -> Option<SrcOut> {
    let t = d.text.as_str();
    let dv = d.v();
    let q = quoted(t);
    let only_normal = |x: SrcOut| if d.safe { None } else { Some(x) };
    let mk = |ctx: Vec<(&str, V)>, cur: &str, raw: String, keep: Keep| SrcOut {
        ctx: ctx.into_iter().map(|(k, v)| (k.to_string(), v)).collect(),
        serde: vec![],
        pre: String::new(),
        open: None,
        cur: cur.to_string(),
        iters: vec![raw],
        keep,
        comps: String::new(),
        sees_scope: false,
    };
    let c_d = || vec![("d", dv.clone())];
    let c_m = || vec![("m", V::map(&[("f", dv.clone())]))];
    let c_arr = || vec![("arr", V::Arr(vec![dv.clone()]))];
    let c_mk = || vec![("mk", V::Map(vec![(K::Str(t.to_string()), V::s("v"))]))];
    let first_char: String = t.chars().take(1).collect();
    let last_char: String = t.chars().rev().take(1).collect();
    let first_two: String = t.chars().take(2).collect();
    let comp = |call: &str, ctx: Vec<(&str, V)>, raw: String, keep: Keep| {
        let mut s = mk(ctx, "cv", raw, keep);
        s.pre = format!("{{% set cv = {call} %}}");
        s
    };
    Some(match name {
        "ctx-string" => mk(c_d(), "d", t.into(), Keep::Must),
        "map-field-dot" => mk(c_m(), "m.f", t.into(), Keep::Must),
        "map-field-subscript" => mk(c_m(), "m[\"f\"]", t.into(), Keep::Must),
        "map-field-nested" => mk(
            vec![("m", V::map(&[("g", V::map(&[("f", dv.clone())]))]))],
            "m.g.f",
            t.into(),
            Keep::Must,
        ),
        "map-8-entries-field" => {
            let mut kv: Vec<(K, V)> = (0..7).map(|i| (K::Str(format!("k{i}")), V::I64(i))).collect();
            kv.push((K::Str("f".into()), dv.clone()));
            mk(vec![("m", V::Map(kv))], "m.f", t.into(), Keep::Must)
        }
        "array-elem" => mk(c_arr(), "arr[0]", t.into(), Keep::Must),
        "array-elem-neg" => mk(c_arr(), "arr[-1]", t.into(), Keep::Must),
        "literal-dq" => return only_normal(mk(vec![], &lit_dq(t), t.into(), Keep::Must)),
        "literal-sq" => return only_normal(mk(vec![], &lit_sq(t), t.into(), Keep::Must)),
        "literal-in-array" => {
            return only_normal(mk(vec![], &format!("[{}][0]", lit_dq(t)), t.into(), Keep::Must));
        }
        // ---- the datum inserted through serde (normal strings only: serde cannot mark)
        "serde-string" | "serde-struct-field" | "serde-map-value" | "serde-option" | "serde-tuple-string" => {
            let (var, cur, val) = match name {
                "serde-string" => ("sd", "sd", SerdeIn::Str(t.into())),
                "serde-struct-field" => ("sm", "sm.f", SerdeIn::Field { f: t.into() }),
                "serde-map-value" => ("sm", "sm.f", SerdeIn::MapVal([("f".to_string(), t.to_string())].into())),
                "serde-option" => ("so", "so", SerdeIn::OptStr(Some(t.into()))),
                _ => ("st", "st[2]", SerdeIn::Tuple((1, 'x', t.into()))),
            };
            let mut s = mk(vec![], cur, t.into(), Keep::Must);
            s.serde = vec![(var.to_string(), val)];
            return only_normal(s);
        }
        "serde-char" | "serde-char-field" | "serde-tuple-char" => {
            // the first character of the datum as a Rust `char`
            let c = t.chars().next().unwrap();
            let (var, cur, val) = match name {
                "serde-char" => ("sc", "sc", SerdeIn::Char(c)),
                "serde-char-field" => ("sm", "sm.c", SerdeIn::CharField { c }),
                _ => ("st", "st[1]", SerdeIn::Tuple((1, c, "x".into()))),
            };
            let mut s = mk(vec![], cur, c.to_string(), Keep::Must);
            s.serde = vec![(var.to_string(), val)];
            return only_normal(s);
        }
        "serde-chars-loop" => {
            let mut s = mk(vec![], "x", String::new(), Keep::Must);
            s.iters = t.chars().map(|c| c.to_string()).collect();
            s.serde = vec![("scs".to_string(), SerdeIn::Chars(t.chars().collect()))];
            s.open = Some(("{% for x in scs %}".into(), "{% endfor %}".into()));
            return only_normal(s);
        }
        "loop-array" => {
            let mut s = mk(c_arr(), "x", t.into(), Keep::Must);
            s.open = Some(("{% for x in arr %}".into(), "{% endfor %}".into()));
            s
        }
        "loop-array-literal" => {
            let mut s = mk(c_d(), "x", t.into(), Keep::Must);
            s.open = Some(("{% for x in [d] %}".into(), "{% endfor %}".into()));
            s
        }
        "loop-string-chars" => {
            let mut s = mk(c_d(), "x", String::new(), Keep::May);
            s.iters = t.chars().map(|c| c.to_string()).collect();
            s.open = Some(("{% for x in d %}".into(), "{% endfor %}".into()));
            s
        }
        "loop-map-key" => {
            let mut s = mk(c_mk(), "k", t.into(), Keep::Must);
            s.open = Some(("{% for k, v in mk %}".into(), "{% endfor %}".into()));
            return only_normal(s);
        }
        "loop-map-value" => {
            let mut s = mk(c_m(), "v", t.into(), Keep::Must);
            s.open = Some(("{% for k, v in m %}".into(), "{% endfor %}".into()));
            s
        }
        "bytes" => return only_normal(mk(vec![("b", V::Bytes(t.as_bytes().to_vec()))], "b", t.into(), Keep::Must)),
        "array-whole" => mk(c_arr(), "arr", format!("[{q}]"), Keep::May),
        "array-literal-whole" => mk(c_d(), "[d, d]", format!("[{q}, {q}]"), Keep::May),
        "map-whole" => mk(c_m(), "m", format!("{{\"f\": {q}}}"), Keep::May),
        "map-key-whole" => return only_normal(mk(c_mk(), "mk", format!("{{{q}: \"v\"}}"), Keep::May)),
        "map-literal-whole" => mk(c_d(), "{\"k\": d}", format!("{{\"k\": {q}}}"), Keep::May),
        "const-array-whole" => {
            return only_normal(mk(vec![], &format!("[{}, 1]", lit_dq(t)), format!("[{q}, 1]"), Keep::May));
        }
        "const-map-whole" => {
            return only_normal(mk(vec![], &format!("{{\"k\": {}}}", lit_sq(t)), format!("{{\"k\": {q}}}"), Keep::May));
        }
        "const-map-key-whole" => {
            return only_normal(mk(vec![], &format!("{{{}: 1}}", lit_dq(t)), format!("{{{q}: 1}}"), Keep::May));
        }
        "const-nested-whole" => {
            return only_normal(mk(vec![], &format!("{{\"k\": [{}]}}", lit_dq(t)), format!("{{\"k\": [{q}]}}"), Keep::May));
        }
        "nested-array-whole" => mk(
            vec![("arr", V::Arr(vec![V::Arr(vec![dv.clone()])]))],
            "arr",
            format!("[[{q}]]"),
            Keep::May,
        ),
        "bytes-in-array-whole" => {
            return only_normal(mk(
                vec![("arr", V::Arr(vec![V::Bytes(t.as_bytes().to_vec())]))],
                "arr",
                format!("[{t}]"),
                Keep::May,
            ));
        }
        "tera-context-whole" => {
            let mut s = mk(c_d(), "__tera_context", format!("{{\"d\": {q}}}"), Keep::May);
            s.sees_scope = true;
            s
        }
        "upper" => mk(c_d(), "d | upper", t.to_uppercase(), Keep::Never),
        "lower" => mk(c_d(), "d | lower", t.to_lowercase(), Keep::Never),
        "capitalize" => mk(c_d(), "d | capitalize", capitalize_ref(t), Keep::Never),
        "title" => mk(c_d(), "d | title", title_ref(t), Keep::Never),
        "trim" => mk(c_d(), "d | trim", t.into(), Keep::Never),
        "trim_start" => mk(c_d(), "d | trim_start", t.into(), Keep::Never),
        "trim_end" => mk(c_d(), "d | trim_end", t.into(), Keep::Never),
        "trim-pat" => mk(c_d(), "d | trim(pat=\"x\")", t.into(), Keep::Never),
        "replace-noop" => mk(c_d(), "d | replace(from=\"x\", to=\"y\")", t.into(), Keep::Never),
        "replace-to-data" => mk(c_d(), "\"q\" | replace(from=\"q\", to=d)", t.into(), Keep::Never),
        "replace-from-data" => mk(c_d(), "d | replace(from=d, to=d)", t.into(), Keep::Never),
        "truncate-noop" => mk(c_d(), "d | truncate(length=100)", t.into(), Keep::Never),
        "truncate-end-data" => mk(c_d(), "\"abc\" | truncate(length=1, end=d)", format!("a{t}"), Keep::Never),
        "indent" => mk(c_d(), "d | indent", t.into(), Keep::Never),
        "str" => mk(c_d(), "d | str", t.into(), Keep::Never),
        "str-of-array" => mk(c_arr(), "arr | str", format!("[{q}]"), Keep::Never),
        "join" => mk(c_d(), "[d, d] | join(sep=\"-\")", format!("{t}-{t}"), Keep::Never),
        "join-sep-data" => mk(c_d(), "[\"a\", \"b\"] | join(sep=d)", format!("a{t}b"), Keep::Never),
        "split-whole" => mk(c_d(), "d | split(pat=\"x\")", format!("[{q}]"), Keep::Never),
        "split-first" => mk(c_d(), "d | split(pat=\"x\") | first", t.into(), Keep::Never),
        "reverse-string" => mk(c_d(), "d | reverse", rev(t), Keep::Never),
        "reverse-array-first" => mk(c_arr(), "arr | reverse | first", t.into(), Keep::May),
        "first" => mk(c_arr(), "arr | first", t.into(), Keep::May),
        "last" => mk(c_arr(), "arr | last", t.into(), Keep::May),
        "nth" => mk(c_arr(), "arr | nth(n=0)", t.into(), Keep::May),
        "get" => mk(c_m(), "m | get(key=\"f\")", t.into(), Keep::May),
        "get-default-data" => {
            let mut c = c_m();
            c.extend(c_d());
            mk(c, "m | get(key=\"zz\", default=d)", t.into(), Keep::May)
        }
        "default-of-undefined" => mk(c_d(), "nothing_here | default(value=d)", t.into(), Keep::May),
        "default-of-defined" => mk(c_d(), "d | default(value=\"x\")", t.into(), Keep::May),
        "newlines_to_br" => mk(c_d(), "d | newlines_to_br", t.into(), Keep::Never),
        "newlines_to_br-inserting" => {
            mk(c_d(), "(d ~ \"\\n\" ~ d) | newlines_to_br", format!("{t}<br>{t}"), Keep::Never)
        }
        "escape_html" => mk(c_d(), "d | escape_html", esc_html_ref(t), Keep::Never),
        "escape_xml" => mk(c_d(), "d | escape_xml", esc_xml_ref(t), Keep::Never),
        "pluralize-data" => mk(c_d(), "2 | pluralize(plural=d)", t.into(), Keep::Never),
        "values-first" => mk(c_m(), "m | values | first", t.into(), Keep::May),
        "keys-first" => return only_normal(mk(c_mk(), "mk | keys | first", t.into(), Keep::May)),
        "pairs-whole" => mk(c_m(), "m | pairs", format!("[[\"f\", {q}]]"), Keep::May),
        "sort-first" => mk(c_arr(), "arr | sort | first", t.into(), Keep::May),
        "unique-first" => mk(c_arr(), "arr | unique | first", t.into(), Keep::May),
        "group_by-whole" => mk(
            c_m(),
            "[m] | group_by(attribute=\"f\")",
            format!("{{{q}: [{{\"f\": {q}}}]}}"),
            Keep::May,
        ),
        "safe-filter" => mk(c_d(), "d | safe", t.into(), Keep::Mints),
        "safe-then-upper" => mk(c_d(), "d | safe | upper", t.to_uppercase(), Keep::Never),
        "upper-then-safe" => mk(c_d(), "d | upper | safe", t.to_uppercase(), Keep::Mints),
        "array-safe" => mk(c_arr(), "arr | safe", format!("[{q}]"), Keep::Mints),
        "concat-right-literal" => mk(c_d(), "d ~ \"-\"", format!("{t}-"), Keep::Never),
        "concat-left-literal" => mk(c_d(), "\"-\" ~ d", format!("-{t}"), Keep::Never),
        "concat-self" => mk(c_d(), "d ~ d", format!("{t}{t}"), Keep::Never),
        "concat-safe-left" => {
            let mut c = c_d();
            c.push(("sf", V::Safe("ok".into())));
            mk(c, "sf ~ d", format!("ok{t}"), Keep::Never)
        }
        "concat-safe-right" => {
            let mut c = c_d();
            c.push(("sf", V::Safe("ok".into())));
            mk(c, "d ~ sf", format!("{t}ok"), Keep::Never)
        }
        "concat-int-left" => mk(c_d(), "1 ~ d", format!("1{t}"), Keep::Never),
        "concat-int-right" => mk(c_d(), "d ~ 1", format!("{t}1"), Keep::Never),
        "concat-capture-left" => {
            let mut s = mk(c_d(), "cap ~ d", format!("cap{t}"), Keep::Never);
            s.pre = "{% set cap %}cap{% endset %}".into();
            s
        }
        "concat-capture-right" => {
            let mut s = mk(c_d(), "d ~ cap", format!("{t}cap"), Keep::Never);
            s.pre = "{% set cap %}cap{% endset %}".into();
            s
        }
        "concat-array" => mk(c_arr(), "arr ~ \"-\"", format!("[{q}]-"), Keep::Never),
        "index-0" => mk(c_d(), "d[0]", first_char, Keep::May),
        "index-last" => mk(c_d(), "d[-1]", last_char, Keep::May),
        "slice-0-2" => mk(c_d(), "d[0:2]", first_two, Keep::May),
        "slice-reverse" => mk(c_d(), "d[::-1]", rev(t), Keep::May),
        "slice-all" => mk(c_d(), "d[:]", t.into(), Keep::May),
        "array-slice-whole" => mk(c_arr(), "arr[0:1]", format!("[{q}]"), Keep::May),
        "ternary-true-arm" => mk(c_d(), "d if true else \"x\"", t.into(), Keep::May),
        "ternary-false-arm" => mk(c_d(), "\"x\" if false else d", t.into(), Keep::May),
        "or-left" => mk(c_d(), "d or \"x\"", t.into(), Keep::May),
        "or-right" => mk(c_d(), "false or d", t.into(), Keep::May),
        "and-right" => mk(c_d(), "true and d", t.into(), Keep::May),
        "and-self" => mk(c_d(), "d and d", t.into(), Keep::May),
        "fn-plain-string" => mk(c_d(), "echo_str(v=d)", t.into(), Keep::Never),
        "fn-plain-value" => mk(c_d(), "echo_val(v=d)", t.into(), Keep::May),
        "fn-is_safe" => mk(c_d(), "echo_safe(v=d)", t.into(), Keep::Mints),
        "filter-plain-string" => mk(c_d(), "d | fecho_str", t.into(), Keep::Never),
        "filter-plain-value" => mk(c_d(), "d | fecho_val", t.into(), Keep::May),
        "filter-is_safe" => mk(c_d(), "d | fecho_safe", t.into(), Keep::Mints),
        "filter-is_safe-then-plain" => mk(c_d(), "d | fecho_safe | fecho_str", t.into(), Keep::Never),
        "comprehension-whole" => mk(c_arr(), "[x for x in arr]", format!("[{q}]"), Keep::May),
        "comprehension-first" => mk(c_arr(), "[x for x in arr] | first", t.into(), Keep::May),
        "comprehension-concat-first" => mk(c_arr(), "[x ~ \"\" for x in arr] | first", t.into(), Keep::Never),
        "comprehension-chars-whole" => {
            let parts: Vec<String> = t.chars().map(|c| quoted(&c.to_string())).collect();
            mk(c_d(), "[c for c in d]", format!("[{}]", parts.join(", ")), Keep::May)
        }
        "comprehension-map-value-first" => mk(c_m(), "[v for k, v in m] | first", t.into(), Keep::May),
        "comprehension-map-key-first" => {
            return only_normal(mk(c_mk(), "[k for k, v in mk] | first", t.into(), Keep::May));
        }
        "comprehension-safe-whole" => {
            mk(c_arr(), "[x | safe for x in arr] | safe", format!("[{q}]"), Keep::Mints)
        }
        "comp-arg-literal" => {
            return only_normal(comp(&format!("<Echo a={} />", lit_dq(t)), vec![], format!("E({t})"), Keep::Must));
        }
        "comp-arg-expr" => comp("<Echo a={d} />", c_d(), format!("E({t})"), Keep::Must),
        "comp-arg-shorthand" => comp("<EchoD d />", c_d(), format!("E({t})"), Keep::Must),
        "comp-arg-spread" => comp(
            "<Echo {...mm} />",
            vec![("mm", V::map(&[("a", dv.clone())]))],
            format!("E({t})"),
            Keep::Must,
        ),
        "comp-arg-rest-field" => comp("<EchoRest zz={d} />", c_d(), format!("E({t})"), Keep::Must),
        "comp-arg-rest-whole" => {
            comp("<EchoRestWhole zz={d} />", c_d(), format!("E({{\"zz\": {q}}})"), Keep::May)
        }
        "comp-arg-filtered" => {
            comp("<Echo a={d | upper} />", c_d(), format!("E({})", t.to_uppercase()), Keep::Never)
        }
        "comp-default-string" => {
            let mut s = comp("<EchoDef />", vec![], format!("E({t})"), Keep::Must);
            s.comps = format!("{{% component EchoDef(a={}) %}}E({{{{ a }}}}){{% endcomponent EchoDef %}}", lit_dq(t));
            return only_normal(s);
        }
        "comp-default-array" => {
            let mut s = comp("<EchoDefArr />", vec![], format!("E({t})"), Keep::Must);
            s.comps = format!(
                "{{% component EchoDefArr(a=[{}]) %}}E({{{{ a[0] }}}}){{% endcomponent EchoDefArr %}}",
                lit_dq(t)
            );
            return only_normal(s);
        }
        other => panic!("unknown source {other}"),
    })
}

// ------------------------------------------------------------------------------------------
// routes and sinks
// ------------------------------------------------------------------------------------------

#[derive(Clone, Copy, PartialEq, Eq, Debug)]
pub enum Route {
    Set,
    SetGlobal,
    Container,
    SetBlock,
    SetGlobalBlock,
    SetBlockUpper,
    SetBlockSafe,
    FilterUpper,
    FilterSafe,
    ForBody,
    ForElse,
    IfBody,
    ElseBody,
    Include,
    Block,
    BlockOverride,
    BlockSuper,
    CompBody,
    CompResult,
    SetOverSafeTwin,
    SetGlobalOverPlainTwin,
}

pub const ROUTES: [Route; 21] = [
    Route::Set,
    Route::SetGlobal,
    Route::Container,
    Route::SetBlock,
    Route::SetGlobalBlock,
    Route::SetBlockUpper,
    Route::SetBlockSafe,
    Route::FilterUpper,
    Route::FilterSafe,
    Route::ForBody,
    Route::ForElse,
    Route::IfBody,
    Route::ElseBody,
    Route::Include,
    Route::Block,
    Route::BlockOverride,
    Route::BlockSuper,
    Route::CompBody,
    Route::CompResult,
    Route::SetOverSafeTwin,
    Route::SetGlobalOverPlainTwin,
];

impl Route {
    pub fn name(self) -> &'static str {
        match self {
            Route::Set => "set",
            Route::SetGlobal => "set_global-in-loop",
            Route::Container => "array-literal-roundtrip",
            Route::SetBlock => "set-block",
            Route::SetGlobalBlock => "set_global-block-in-loop",
            Route::SetBlockUpper => "set-block|upper",
            Route::SetBlockSafe => "set-block|safe",
            Route::FilterUpper => "filter-section-upper",
            Route::FilterSafe => "filter-section-safe",
            Route::ForBody => "for-body",
            Route::ForElse => "for-else-body",
            Route::IfBody => "if-body",
            Route::ElseBody => "else-body",
            Route::Include => "include",
            Route::Block => "block",
            Route::BlockOverride => "block-overridden-in-child",
            Route::BlockSuper => "block-through-super",
            Route::CompBody => "component-body",
            Route::CompResult => "component-result-set",
            Route::SetOverSafeTwin => "set-over-safe-twin",
            Route::SetGlobalOverPlainTwin => "set_global-over-plain-twin-in-loop",
        }
    }
    /// The route hands engine-escaped text on unchanged (or hands the value on untouched).
    pub fn as_is(self) -> bool {
        !matches!(self, Route::SetBlockUpper | Route::FilterUpper)
    }
}

#[derive(Clone, Copy, PartialEq, Eq, Debug)]
pub enum SinkForm {
    /// `{{ e }}` compiled to WriteTop
    Top,
    /// `{{ v }}` fused to WritePath
    Path,
    /// `{{ v.f }}` fused to WritePath with an attribute
    Attr,
}

#[derive(Clone, Copy, PartialEq, Eq, Debug)]
pub enum SinkPlace {
    TopLevel,
    InCapture,
    InComponent,
}

#[derive(Clone, Copy, PartialEq, Eq, Debug)]
pub struct Sink(pub SinkForm, pub SinkPlace);

pub const SINKS: [Sink; 9] = [
    Sink(SinkForm::Top, SinkPlace::TopLevel),
    Sink(SinkForm::Path, SinkPlace::TopLevel),
    Sink(SinkForm::Attr, SinkPlace::TopLevel),
    Sink(SinkForm::Top, SinkPlace::InCapture),
    Sink(SinkForm::Path, SinkPlace::InCapture),
    Sink(SinkForm::Attr, SinkPlace::InCapture),
    Sink(SinkForm::Top, SinkPlace::InComponent),
    Sink(SinkForm::Path, SinkPlace::InComponent),
    Sink(SinkForm::Attr, SinkPlace::InComponent),
];

impl Sink {
    pub fn name(self) -> String {
        let f = match self.0 {
            SinkForm::Top => "WriteTop",
            SinkForm::Path => "WritePath",
            SinkForm::Attr => "WritePath.attr",
        };
        let p = match self.1 {
            SinkPlace::TopLevel => "top",
            SinkPlace::InCapture => "in-capture",
            SinkPlace::InComponent => "in-component",
        };
        format!("{f}@{p}")
    }
}

// ------------------------------------------------------------------------------------------
// builder
// ------------------------------------------------------------------------------------------

#[derive(Clone, Debug)]
pub struct Tpl {
    pub name: String,
    pub text: String,
    pub parent: Option<usize>,
    pub has_block: bool,
}

#[derive(Clone, Copy, PartialEq, Eq, Debug)]
enum Kind {
    For,
    If,
    Capture,
    Block,
    Include,
}

enum Fold {
    Wrap(String, String),
    Upper(String, String),
    Rep(usize, String, String),
}

struct Frame {
    tpl: usize,
    closer: String,
    kind: Kind,
    fold: Fold,
    prev_cur_t: usize,
}

#[derive(Debug, Clone, PartialEq, Eq)]
pub enum Skip {
    /// a `block` tag is not allowed inside for / if / component definitions
    BlockNotAllowedHere,
    /// block inheritance needs the current template to be in the rendered template's ancestry
    /// (an included template that `extends` is the known finding F-include-extends)
    InheritanceOutsideRenderedChain,
    /// `__tera_context` evaluated in the second iteration of a loop would contain the global
    /// that a `set_global` route created in the first one (the generator's model has no scope)
    ScopeDumpSeesRouteGlobal,
}

pub struct Builder {
    pub tpls: Vec<Tpl>,
    cur_t: usize,
    chain: Vec<usize>,
    frames: Vec<Frame>,
    exp: Vec<Vec<Exp>>,
    cur: String,
    valexp: Exp,
    n: usize,
    as_is: bool,
}

fn is_bare_path(e: &str) -> bool {
    !e.is_empty()
        && !e.starts_with("__tera")
        && e.split('.').all(|p| {
            !p.is_empty()
                && p.chars().all(|c| c.is_ascii_alphanumeric() || c == '_')
                && !p.chars().next().unwrap().is_ascii_digit()
        })
        && !matches!(e, "true" | "false" | "none")
}

impl Builder {
    fn new() -> Self {
        Builder {
            tpls: vec![Tpl { name: format!("main.{EXT}"), text: String::new(), parent: None, has_block: false }],
            cur_t: 0,
            chain: vec![0],
            frames: vec![],
            exp: vec![vec![]],
            cur: String::new(),
            valexp: Exp::Val,
            n: 0,
            as_is: true,
        }
    }
    fn fresh(&mut self, p: &str) -> String {
        self.n += 1;
        format!("{p}{}", self.n)
    }
    fn code(&mut self, s: &str) {
        self.tpls[self.cur_t].text.push_str(s);
    }
    fn text(&mut self, s: &str) {
        self.tpls[self.cur_t].text.push_str(s);
        self.exp.last_mut().unwrap().push(Exp::Lit(s.to_string()));
    }
    fn out(&mut self, e: Exp) {
        self.exp.last_mut().unwrap().push(e);
    }
    fn open(&mut self, kind: Kind, opener: &str, closer: &str, fold: Fold) {
        self.code(opener);
        self.frames.push(Frame { tpl: self.cur_t, closer: closer.to_string(), kind, fold, prev_cur_t: self.cur_t });
        self.exp.push(vec![]);
    }
    fn close_all(&mut self) {
        while let Some(f) = self.frames.pop() {
            self.tpls[f.tpl].text.push_str(&f.closer);
            let inner = Exp::Cat(self.exp.pop().unwrap());
            let folded = match f.fold {
                Fold::Wrap(a, b) => Exp::wrap(&a, inner, &b),
                Fold::Upper(a, b) => Exp::Upper(Box::new(Exp::wrap(&a, inner, &b))),
                Fold::Rep(n, a, b) => Exp::Rep(n, Box::new(Exp::wrap(&a, inner, &b))),
            };
            self.exp.last_mut().unwrap().push(folded);
            self.cur_t = f.prev_cur_t;
        }
    }
    fn block_allowed_here(&self) -> bool {
        self.frames
            .iter()
            .filter(|f| f.tpl == self.cur_t)
            // the Include frame is the included template's own top level, not a tag body
            .all(|f| matches!(f.kind, Kind::Block | Kind::Capture | Kind::Include))
    }

    fn route(&mut self, r: Route) -> Result<(), Skip> {
        if !r.as_is() {
            self.as_is = false;
        }
        let cur = self.cur.clone();
        match r {
            Route::Set => {
                let v = self.fresh("r");
                self.code(&format!("{{% set {v} = {cur} %}}"));
                self.cur = v;
            }
            Route::SetGlobal => {
                let v = self.fresh("r");
                self.code(&format!("{{% for i in [1] %}}{{% set_global {v} = {cur} %}}{{% endfor %}}"));
                self.cur = v;
            }
            // Re-assignment replaces the value together with its mark: the variable first holds a
            // string of the same characters with the other mark (seeded change C01-10 kept the
            // old entry when the new value compared equal, and equality ignores the mark).
            Route::SetOverSafeTwin => {
                let v = self.fresh("r");
                self.code(&format!(
                    "{{% if ({cur}) is string %}}{{% set {v} = ({cur}) | safe %}}{{% endif %}}{{% set {v} = {cur} %}}"
                ));
                self.cur = v;
            }
            Route::SetGlobalOverPlainTwin => {
                let v = self.fresh("r");
                self.code(&format!(
                    "{{% for i in [1] %}}{{% if ({cur}) is string %}}{{% set_global {v} = ({cur}) ~ \"\" %}}{{% endif %}}\
                     {{% set_global {v} = {cur} %}}{{% endfor %}}"
                ));
                self.cur = v;
            }
            Route::Container => {
                let v = self.fresh("r");
                self.code(&format!("{{% set {v} = [{cur}] %}}"));
                self.cur = format!("{v}[0]");
            }
            Route::SetBlock | Route::SetBlockUpper | Route::SetBlockSafe => {
                let v = self.fresh("r");
                let filt = match r {
                    Route::SetBlockUpper => " | upper",
                    Route::SetBlockSafe => " | safe",
                    _ => "",
                };
                self.code(&format!("{{% set {v}{filt} %}}c({{{{ {cur} }}}}){{% endset %}}"));
                let inner = Exp::wrap("c(", self.valexp.clone(), ")");
                self.valexp = if r == Route::SetBlockUpper { Exp::Upper(Box::new(inner)) } else { inner };
                self.cur = v;
            }
            Route::SetGlobalBlock => {
                let v = self.fresh("r");
                self.code(&format!(
                    "{{% for i in [1] %}}{{% set_global {v} %}}g({{{{ {cur} }}}}){{% endset %}}{{% endfor %}}"
                ));
                self.valexp = Exp::wrap("g(", self.valexp.clone(), ")");
                self.cur = v;
            }
            Route::CompResult => {
                let v = self.fresh("r");
                self.code(&format!("{{% set {v} = <Echo a={{ {cur} }} /> %}}"));
                self.valexp = Exp::wrap("E(", self.valexp.clone(), ")");
                self.cur = v;
            }
            Route::FilterUpper => self.open(
                Kind::Capture,
                "{% filter upper %}f(",
                "){% endfilter %}",
                Fold::Upper("f(".into(), ")".into()),
            ),
            Route::FilterSafe => self.open(
                Kind::Capture,
                "{% filter safe %}f(",
                "){% endfilter %}",
                Fold::Wrap("f(".into(), ")".into()),
            ),
            Route::ForBody => self.open(
                Kind::For,
                "{% for i in [1, 2] %}l(",
                "){% endfor %}",
                Fold::Rep(2, "l(".into(), ")".into()),
            ),
            Route::ForElse => self.open(
                Kind::For,
                "{% for i in [] %}no{% else %}fe(",
                "){% endfor %}",
                Fold::Wrap("fe(".into(), ")".into()),
            ),
            Route::IfBody => self.open(
                Kind::If,
                "{% if true %}i(",
                "){% else %}no{% endif %}",
                Fold::Wrap("i(".into(), ")".into()),
            ),
            Route::ElseBody => self.open(
                Kind::If,
                "{% if false %}no{% else %}e(",
                "){% endif %}",
                Fold::Wrap("e(".into(), ")".into()),
            ),
            Route::CompBody => self.open(
                Kind::Capture,
                "{% <Wrap> %}w(",
                "){% </Wrap> %}",
                Fold::Wrap("W[w(".into(), ")]".into()),
            ),
            Route::Include => {
                let stem = self.fresh("inc");
                let name = format!("{stem}.{EXT}");
                self.code(&format!("{{% include \"{name}\" %}}"));
                let prev = self.cur_t;
                self.tpls.push(Tpl { name, text: "n(".into(), parent: None, has_block: false });
                let idx = self.tpls.len() - 1;
                self.frames.push(Frame {
                    tpl: idx,
                    closer: ")".into(),
                    kind: Kind::Include,
                    fold: Fold::Wrap("n(".into(), ")".into()),
                    prev_cur_t: prev,
                });
                self.exp.push(vec![]);
                self.cur_t = idx;
            }
            Route::Block => {
                if !self.block_allowed_here() {
                    return Err(Skip::BlockNotAllowedHere);
                }
                let b = self.fresh("b");
                self.tpls[self.cur_t].has_block = true;
                self.open(
                    Kind::Block,
                    &format!("{{% block {b} %}}b("),
                    "){% endblock %}",
                    Fold::Wrap("b(".into(), ")".into()),
                );
            }
            Route::BlockOverride | Route::BlockSuper => {
                if !self.block_allowed_here() {
                    return Err(Skip::BlockNotAllowedHere);
                }
                if !self.chain.contains(&self.cur_t) {
                    return Err(Skip::InheritanceOutsideRenderedChain);
                }
                let b = self.fresh("b");
                let stem = self.fresh("child");
                let leaf_old = *self.chain.last().unwrap();
                let parent_name = self.tpls[leaf_old].name.clone();
                self.tpls[self.cur_t].has_block = true;
                if r == Route::BlockOverride {
                    self.code(&format!("{{% block {b} %}}base{{% endblock %}}"));
                    let prev = self.cur_t;
                    self.tpls.push(Tpl {
                        name: format!("{stem}.{EXT}"),
                        text: format!("{{% extends \"{parent_name}\" %}}{{% block {b} %}}o("),
                        parent: Some(leaf_old),
                        has_block: true,
                    });
                    let idx = self.tpls.len() - 1;
                    self.frames.push(Frame {
                        tpl: idx,
                        closer: "){% endblock %}".into(),
                        kind: Kind::Block,
                        fold: Fold::Wrap("o(".into(), ")".into()),
                        prev_cur_t: prev,
                    });
                    self.exp.push(vec![]);
                    self.cur_t = idx;
                    self.chain.push(idx);
                } else {
                    self.tpls.push(Tpl {
                        name: format!("{stem}.{EXT}"),
                        text: format!(
                            "{{% extends \"{parent_name}\" %}}{{% block {b} %}}u({{{{ super() }}}}){{% endblock %}}"
                        ),
                        parent: Some(leaf_old),
                        has_block: true,
                    });
                    let idx = self.tpls.len() - 1;
                    self.open(
                        Kind::Block,
                        &format!("{{% block {b} %}}s("),
                        "){% endblock %}",
                        Fold::Wrap("u(s(".into(), "))".into()),
                    );
                    self.chain.push(idx);
                }
            }
        }
        Ok(())
    }

    fn sink(&mut self, s: Sink) {
        let cur = self.cur.clone();
        let v = self.valexp.clone();
        match s.1 {
            SinkPlace::InComponent => {
                let (comp, arg) = match s.0 {
                    SinkForm::Top => ("ShowTop", format!("{{ {cur} }}")),
                    SinkForm::Path => ("ShowPath", format!("{{ {cur} }}")),
                    SinkForm::Attr => ("ShowAttr", format!("{{ {{ \"f\": {cur} }} }}")),
                };
                self.code(&format!("{{{{ <{comp} v={arg} /> }}}}"));
                self.out(Exp::wrap("S(", v, ")"));
            }
            place => {
                if place == SinkPlace::InCapture {
                    let z = self.fresh("z");
                    self.code(&format!("{{% set {z} %}}"));
                    self.print_twice(s.0, &cur, v, "k(");
                    self.code(&format!("{{% endset %}}{{{{ {z} }}}}"));
                } else {
                    self.print_twice(s.0, &cur, v, "p(");
                }
            }
        }
    }

    /// `p(V|V)`: the value is printed twice so that a scratch buffer that is not reset shows.
    fn print_twice(&mut self, form: SinkForm, cur: &str, v: Exp, opener: &str) {
        let expr = match form {
            SinkForm::Top => {
                if is_bare_path(cur) {
                    format!("true and {cur}")
                } else {
                    cur.to_string()
                }
            }
            SinkForm::Path => {
                if is_bare_path(cur) {
                    cur.to_string()
                } else {
                    let w = self.fresh("w");
                    self.code(&format!("{{% set {w} = {cur} %}}"));
                    w
                }
            }
            SinkForm::Attr => {
                let w = self.fresh("w");
                self.code(&format!("{{% set {w} = {{ \"f\": {cur} }} %}}"));
                format!("{w}.f")
            }
        };
        // `text`/`out` push onto the current expected frame; inside the capture of InCapture the
        // text lands in the variable and is printed as is right after, so the net output is equal
        self.text(opener);
        self.code(&format!("{{{{ {expr} }}}}"));
        self.out(v.clone());
        self.text("|");
        self.code(&format!("{{{{ {expr} }}}}"));
        self.out(v);
        self.text(")");
    }
}

pub struct Program {
    /// (name, source), both with the `%E%` placeholder; `comps.%E%` holds the component library
    pub tpls: Vec<(String, String)>,
    /// index of the template that is rendered
    pub leaf: usize,
    /// the rendered template neither extends nor contains a block: it can also be given to
    /// `render_str` and be wrapped into a component for `render_component`
    pub leaf_plain: bool,
    pub ctx: Vec<(String, V)>,
    pub serde: Vec<(String, SerdeIn)>,
    pub expected_off: String,
    /// every route hands escaped text / values on unchanged
    pub as_is: bool,
    pub keep: Keep,
}

pub fn build(source: &str, routes: &[Route], sink: Sink, d: &Datum) -> Result<Option<Program>, Skip> {
    let Some(src) = build_source(source, d) else { return Ok(None) };
    let mut b = Builder::new();
    b.code(&src.pre);
    if let Some((o, c)) = &src.open {
        b.open(Kind::For, o, c, Fold::Wrap(String::new(), String::new()));
    }
    b.cur = src.cur.clone();
    if src.sees_scope
        && routes.iter().enumerate().any(|(i, r)| {
            matches!(r, Route::SetGlobal | Route::SetGlobalBlock | Route::SetGlobalOverPlainTwin) && routes[..i].contains(&Route::ForBody)
        })
    {
        return Err(Skip::ScopeDumpSeesRouteGlobal);
    }
    for r in routes {
        b.route(*r)?;
    }
    b.sink(sink);
    b.close_all();
    let root = Exp::Cat(b.exp.pop().unwrap());
    let expected_off: String = src.iters.iter().map(|v| root.eval(v)).collect();
    let leaf = *b.chain.last().unwrap();
    let leaf_plain = b.chain.len() == 1 && !b.tpls[leaf].has_block;
    let mut tpls: Vec<(String, String)> = b.tpls.iter().map(|t| (t.name.clone(), t.text.clone())).collect();
    tpls.push((format!("comps.{EXT}"), format!("{COMPS_FIXED}{}", src.comps)));
    Ok(Some(Program { tpls, leaf, leaf_plain, ctx: src.ctx, serde: src.serde, expected_off, as_is: b.as_is, keep: src.keep }))
}
