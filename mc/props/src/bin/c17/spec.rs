//! The enumerated space of C17: the table of the 36 + 17 + 2 built-ins registered by
//! `Tera::register_builtin_*`, the keyword arguments each one declares (name, required?, type as
//! documented), the per-argument alphabets and the receiver alphabets.
//!
//! Self-contained (depends on `mccore` and std only) so that another check can reuse it with
//! `#[path = "../c17/spec.rs"] mod spec;`.

use mccore::vals::{self, K, Kind, V};

/// Name of the keyword argument no built-in declares.
pub const EXTRA_KW: &str = "zq";

#[derive(Clone, Copy, PartialEq, Eq, Debug)]
pub enum BKind {
    Filter,
    Test,
    Function,
}

/// Documented type of a keyword argument.
#[derive(Clone, Copy, PartialEq, Eq, Debug)]
pub enum Ty {
    Str,
    /// non-negative integer (a length / index / width)
    USize,
    /// u32 (`int(base=)`)
    U32,
    /// i32 (`round(precision=)`)
    I32,
    /// any integer that fits i128
    I128,
    Bool,
    /// any value
    Any,
}

/// How an argument value relates to the documented domain of its parameter.
#[derive(Clone, Copy, PartialEq, Eq, Debug)]
pub enum Class {
    /// the keyword is omitted from the call
    Absent,
    /// right kind, inside the documented domain: the contract applies, `Err` only where documented
    Good,
    /// right kind but outside the natural domain (negative length, base 37, 2^64, precision 400):
    /// `Err` is acceptable; an `Ok` must still satisfy the contract where one can be stated
    Edge,
    /// an integral float where an integer is documented (`1.0`): docs are silent — `Err`, or
    /// exactly the behaviour of the integer
    Lenient,
    /// the argument expression is an undefined variable: `Err`, or exactly the behaviour of the
    /// omitted keyword
    Undef,
    /// wrong kind (or a documented-as-invalid value such as `round(method="x")`): must be `Err`
    Bad,
}

#[derive(Clone, Debug)]
pub struct Arg {
    pub v: Option<V>,
    pub class: Class,
}

#[derive(Clone, Debug)]
pub struct Kw {
    pub name: &'static str,
    pub required: bool,
    pub ty: Ty,
    pub domain: Vec<Arg>,
}

#[derive(Clone, Debug)]
pub struct Builtin {
    pub name: &'static str,
    pub kind: BKind,
    pub kws: Vec<Kw>,
    /// receivers (filters, tests); a single placeholder for functions
    pub receivers: Vec<V>,
}

impl Builtin {
    /// Number of keyword-argument combinations (full cross product).
    pub fn combos(&self) -> u64 {
        self.kws.iter().map(|k| k.domain.len() as u64).product()
    }
}

fn s(x: &str) -> V {
    V::s(x)
}

/// Receiver alphabet R: one or two values per kind plus the strings the string filters are
/// sensitive to (multi-byte, 1:2 case mappings, digraphs, dotted capital I, mixed whitespace,
/// `\r\n`, apostrophe / hyphen words, a heap string).
pub fn base_receivers() -> Vec<V> {
    vec![
        V::Undef,
        V::None,
        V::Bool(true),
        V::Bool(false),
        V::I64(0),
        V::I64(1),
        V::I64(-3),
        V::U64(u64::MAX),
        V::I128(i128::MIN),
        V::U128(u128::MAX),
        V::F64(1.5),
        V::F64(-2.5),
        V::F64(f64::NAN),
        V::F64(f64::INFINITY),
        s(""),
        s("a<b"),
        s("é"),
        s("ß"),
        s("ǆ"),
        s("İ"),
        s(" a\tb\n"),
        s("a\r\nb"),
        s("x'y z-w"),
        V::Safe("<s>".into()),
        s(vals::LONG_MULTI),
        V::Bytes(vec![0xff, b'a']),
        V::Arr(vec![]),
        V::Arr(vec![V::I64(1), s("a")]),
        V::Map(vec![]),
        V::map(&[("a", V::I64(1))]),
    ]
}

fn strings_extra() -> Vec<V> {
    [
        "aaxaa",
        "ababxab",
        "  x  ",
        "éxé",
        "a\nb",
        "Hello World",
        "hELLO wORLD",
        "ΑΣ",
        "foo's bar",
        "FOO\tBAR",
        "foo-bar",
        "aaa",
        "abab",
        "aXbXa",
        "hello",
        "日本語",
        vals::LONG_ASCII,
        " \u{a0}x\u{2003} ",
    ]
    .iter()
    .map(|x| s(x))
    .collect()
}

fn lines_extra() -> Vec<V> {
    [
        "a\n", "\n", "a\n\nb", "a\n  \nb", "a\r\nb\r\n", "\na", "a\rb", "\r", "\n\n", "Hello\r\nworld\n", "a\n\tb\n\n",
    ]
    .iter()
    .map(|x| s(x))
    .collect()
}

fn escapes_extra() -> Vec<V> {
    ["&<>\"'/", "&amp;", "a&b<c>d\"e'f", "é&é"].iter().map(|x| s(x)).collect()
}

fn numbers_extra() -> Vec<V> {
    vec![
        V::I64(2),
        V::I64(7),
        V::I64(-7),
        V::I64(-1),
        V::U64(1),
        V::I128(-1),
        V::I64(i64::MIN),
        V::I64(i64::MAX),
        V::U64(1 << 63),
        V::I128(1i128 << 64),
        V::I128(-(1i128 << 64)),
        V::I128(i128::MAX),
        V::I64((1 << 53) + 1),
        V::F64(0.0),
        V::F64(-0.0),
        V::F64(1.0),
        V::F64(-1.0),
        V::F64(3.0),
        V::F64(0.1),
        V::F64(9007199254740992.0),
        V::F64(1e300),
        V::F64(-1e300),
        V::F64(f64::NEG_INFINITY),
        V::F64(1.7014118346046923e38),
        V::F64(-1.7014118346046923e38),
    ]
}

fn round_extra() -> Vec<V> {
    let mut v = numbers_extra();
    for f in [
        0.5,
        -0.5,
        2.5,
        -1.5,
        0.49999999999999994,
        1.45,
        2.675,
        1.005,
        0.125,
        2.245,
        123.456,
        -123.456,
        15.0,
        4503599627370497.5,
        5e-324,
        f64::MAX,
        2.1,
        2.9,
    ] {
        v.push(V::F64(f));
    }
    v.push(V::I64(15));
    v.push(V::I64(-15));
    v.push(V::I64(149));
    v
}

fn int_strings() -> Vec<V> {
    [
        "0",
        "-5",
        "+7",
        " 12 ",
        "10",
        "1.0",
        "1.00",
        "1.5",
        "2.0",
        "1.0e3",
        "1e3",
        "1_000",
        "0x1f",
        "0X1F",
        "0b101",
        "0o17",
        "-0x10",
        "0x",
        "0b102",
        "ff",
        "FF",
        "z",
        "Z",
        "hello",
        "-",
        "inf",
        "NaN",
        "١٢",
        "9223372036854775807",
        "9223372036854775808",
        "170141183460469231731687303715884105727",
        "170141183460469231731687303715884105728",
        "-170141183460469231731687303715884105728",
        "-170141183460469231731687303715884105729",
    ]
    .iter()
    .map(|x| s(x))
    .collect()
}

fn float_strings() -> Vec<V> {
    [
        "0", "1", "-1", "3.16", "-0.0", "1e3", "1E-2", "+2.5", " 1.5 ", "1.5\n", ".5", "5.", "inf", "-inf", "NaN", "infinity",
        "1e400", "1e-400", "0x10", "1_0", "hello", "-", "1,5", "١٢", "0.1", "9007199254740993",
    ]
    .iter()
    .map(|x| s(x))
    .chain([s(&format!("17976931348623157{}", "0".repeat(292))), s(&format!("2{}", "0".repeat(308)))])
    .collect()
}

fn arrays_extra() -> Vec<V> {
    vec![
        V::Arr(vec![V::I64(1), V::I64(2), V::I64(3)]),
        V::Arr(vec![V::I64(3), V::I64(1), V::I64(2)]),
        V::Arr(vec![V::None]),
        V::Arr(vec![s("a"), s("b")]),
        V::Arr(vec![s("b"), s("a")]),
        V::Arr(vec![V::I64(1), V::I64(1), V::I64(2)]),
        V::Arr(vec![V::F64(1.5), V::None, V::Bool(true), s("x")]),
        V::Arr(vec![V::Arr(vec![V::I64(1)]), V::map(&[("a", V::I64(1))])]),
        V::Arr(vec![V::map(&[("a", V::I64(2))]), V::map(&[("a", V::I64(1))])]),
        V::Arr(vec![V::map(&[("a", V::I64(1))]), V::map(&[("a", V::I64(2))]), V::map(&[("a", V::I64(1))])]),
        V::Arr(vec![V::map(&[("a", V::map(&[("b", V::I64(1))]))])]),
        V::Arr(vec![V::map(&[("b", V::I64(1))])]),
        V::Arr(vec![V::F64(1.0)]),
        V::Arr(vec![s("é"), s("")]),
        // incomparable elements that are never neighbours (seeded change C17-5: comparability was
        // only tested between adjacent input elements)
        // elements that print as nothing, in front (seeded change C17-7: `join` emitted the
        // separator only once something had been written)
        V::Arr(vec![s(""), s("a")]),
        V::Arr(vec![V::None, s("a"), s("")]),
        V::Arr(vec![s(""), s(""), s("x")]),
        V::Arr(vec![V::I64(1), V::None, s("a")]),
        V::Arr(vec![s("a"), V::I64(1), s("b"), V::I64(2)]),
        V::Arr(vec![V::Arr(vec![V::I64(2), s("a")]), V::Arr(vec![V::I64(1)]), V::Arr(vec![V::I64(2), V::I64(1)])]),
    ]
}

fn maps_extra() -> Vec<V> {
    vec![
        V::map(&[("a", V::I64(2)), ("b", s("x"))]),
        V::Map((0..7).map(|i| (K::Str(format!("k{i}")), V::I64(i))).collect()),
        V::map(&[("a", V::map(&[("b", V::I64(1))]))]),
        V::map(&[("u", V::Undef)]),
        V::map(&[("", V::I64(1))]),
        V::Map(vec![(K::I64(1), s("x"))]),
        V::Map(vec![(K::Bool(true), V::I64(1))]),
        V::map(&[("é", V::None)]),
    ]
}

/// Receivers of the type-test partition family: every value the other families use.
pub fn partition_receivers() -> Vec<V> {
    let mut r = base_receivers();
    r.extend(numbers_extra());
    r.extend(arrays_extra());
    r.extend(maps_extra());
    r.extend(strings_extra());
    r.push(V::Bytes(vec![]));
    r.extend(vals::alphabet_v());
    let mut seen = std::collections::BTreeSet::new();
    r.retain(|v| seen.insert(v.describe()));
    r
}

/// One (thorough: two) representative(s) of every value kind, in a fixed order.
fn kind_representatives(thorough: bool) -> Vec<(Kind, V)> {
    let mut v = vec![
        (Kind::Undef, V::Undef),
        (Kind::None, V::None),
        (Kind::Bool, V::Bool(true)),
        (Kind::Int, V::I64(1)),
        (Kind::Float, V::F64(1.5)),
        (Kind::Str, s("a")),
        (Kind::Bytes, V::Bytes(b"ab".to_vec())),
        (Kind::Arr, V::Arr(vec![])),
        (Kind::Map, V::Map(vec![])),
    ];
    if thorough {
        v.extend([
            (Kind::Bool, V::Bool(false)),
            (Kind::Int, V::U128(u128::MAX)),
            (Kind::Float, V::F64(f64::NAN)),
            (Kind::Float, V::F64(f64::INFINITY)),
            (Kind::Str, V::Safe("é".into())),
            (Kind::Bytes, V::Bytes(vec![0xff, 0xfe])),
            (Kind::Arr, V::Arr(vec![V::I64(1), s("a")])),
            (Kind::Map, V::map(&[("a", V::I64(1))])),
        ]);
    }
    v
}

struct KwB {
    name: &'static str,
    required: bool,
    ty: Ty,
    good: Vec<V>,
    edge: Vec<V>,
    lenient: Vec<V>,
    bad: Vec<V>,
}

fn kwb(name: &'static str, required: bool, ty: Ty, good: Vec<V>) -> KwB {
    KwB { name, required, ty, good, edge: vec![], lenient: vec![], bad: vec![] }
}

impl KwB {
    fn edge(mut self, v: Vec<V>) -> Self {
        self.edge = v;
        self
    }
    fn lenient(mut self, v: Vec<V>) -> Self {
        self.lenient = v;
        self
    }
    fn bad(mut self, v: Vec<V>) -> Self {
        self.bad = v;
        self
    }
    fn build(self, thorough: bool) -> Kw {
        let mut domain = vec![Arg { v: None, class: Class::Absent }];
        let push = |v: V, class: Class, domain: &mut Vec<Arg>| {
            if !domain.iter().any(|a| a.v.as_ref().map(|x| x.describe()) == Some(v.describe())) {
                domain.push(Arg { v: Some(v), class });
            }
        };
        for v in self.good {
            push(v, Class::Good, &mut domain);
        }
        for v in self.edge {
            push(v, Class::Edge, &mut domain);
        }
        for v in self.lenient {
            push(v, Class::Lenient, &mut domain);
        }
        for v in self.bad {
            push(v, Class::Bad, &mut domain);
        }
        let own = match self.ty {
            Ty::Str => Some(Kind::Str),
            Ty::USize | Ty::U32 | Ty::I32 | Ty::I128 => Some(Kind::Int),
            Ty::Bool => Some(Kind::Bool),
            Ty::Any => None,
        };
        for (kind, v) in kind_representatives(thorough) {
            match own {
                None => push(v, Class::Good, &mut domain),
                Some(k) if k == kind => {}
                Some(_) if kind == Kind::Undef => push(v, Class::Undef, &mut domain),
                Some(_) => push(v, Class::Bad, &mut domain),
            }
        }
        Kw { name: self.name, required: self.required, ty: self.ty, domain }
    }
}

fn strs(xs: &[&str]) -> Vec<V> {
    xs.iter().map(|x| s(x)).collect()
}

fn i64s(xs: &[i64]) -> Vec<V> {
    xs.iter().map(|x| V::I64(*x)).collect()
}

fn bools() -> Vec<V> {
    vec![V::Bool(true), V::Bool(false)]
}

fn range_arg(name: &'static str, required: bool) -> KwB {
    let mut good = i64s(&[-3, -1, 0, 1, 2, 5, 100_000, 100_001, i64::MAX]);
    good.push(V::I128(1i128 << 126));
    good.push(V::I128(-(1i128 << 126)));
    good.push(V::I128(i128::MAX));
    good.push(V::I128(i128::MIN));
    kwb(name, required, Ty::I128, good)
        .edge(vec![V::U128(u128::MAX)])
        .lenient(vec![V::F64(2.0)])
}

/// The table. `thorough` widens the receivers to all of `alphabet_v()` and doubles the wrong-kind
/// representatives of every keyword argument (so that the cross product contains every pair of
/// wrong-kind arguments in two spellings).
pub fn builtins(thorough: bool) -> Vec<Builtin> {
    let t = thorough;
    let mut out: Vec<Builtin> = vec![];
    let recv = |extra: Vec<Vec<V>>| -> Vec<V> {
        let mut r = base_receivers();
        for e in extra {
            r.extend(e);
        }
        if t {
            r.extend(vals::alphabet_v());
        }
        let mut seen = std::collections::BTreeSet::new();
        r.retain(|v| seen.insert(v.describe()));
        r
    };
    let mut add = |name: &'static str, kind: BKind, kws: Vec<KwB>, receivers: Vec<V>| {
        out.push(Builtin { name, kind, kws: kws.into_iter().map(|k| k.build(t)).collect(), receivers });
    };
    use BKind::*;
    let pat_good = || strs(&["", "a", "ab", "é", " ", "  ", "x"]);

    // ------------------------------------------------------------------ filters (36)
    add("safe", Filter, vec![], recv(vec![escapes_extra()]));
    add(
        "default",
        Filter,
        vec![kwb("value", true, Ty::Any, strs(&["D"])), kwb("boolean", false, Ty::Bool, bools())],
        recv(vec![vec![V::F64(0.0), V::F64(-0.0), V::Bytes(vec![]), s("0"), V::Arr(vec![V::None])]]),
    );
    add("upper", Filter, vec![], recv(vec![strings_extra()]));
    add("lower", Filter, vec![], recv(vec![strings_extra()]));
    add("wordcount", Filter, vec![], recv(vec![strings_extra(), lines_extra()]));
    add("escape_html", Filter, vec![], recv(vec![escapes_extra()]));
    add("escape_xml", Filter, vec![], recv(vec![escapes_extra()]));
    add("newlines_to_br", Filter, vec![], recv(vec![lines_extra()]));
    add(
        "pluralize",
        Filter,
        vec![
            kwb("singular", false, Ty::Str, strs(&["", "y", "é"])),
            kwb("plural", false, Ty::Str, strs(&["", "ies"])),
        ],
        recv(vec![numbers_extra()]),
    );
    for name in ["trim", "trim_start", "trim_end"] {
        add(name, Filter, vec![kwb("pat", false, Ty::Str, pat_good())], recv(vec![strings_extra(), lines_extra()]));
    }
    add(
        "replace",
        Filter,
        vec![
            kwb("from", true, Ty::Str, strs(&["", "a", "ab", "é", "aa", "X"])),
            kwb("to", true, Ty::Str, strs(&["", "b", "aa", "é<"])),
        ],
        recv(vec![strings_extra()]),
    );
    add("capitalize", Filter, vec![], recv(vec![strings_extra()]));
    add("title", Filter, vec![], recv(vec![strings_extra(), lines_extra()]));
    add(
        "truncate",
        Filter,
        vec![
            kwb("length", true, Ty::USize, vec![V::I64(0), V::I64(1), V::I64(2), V::I64(3), V::I64(5), V::I64(10), V::I64(11), V::I64(21), V::I64(22), V::I64(1000), V::U64(u64::MAX)])
                .edge(vec![V::I64(-1), V::I128(1i128 << 64), V::I128(i128::MIN)])
                .lenient(vec![V::F64(1.0)]),
            kwb("end", false, Ty::Str, strs(&["", "…", "...", "é"])),
        ],
        recv(vec![strings_extra()]),
    );
    add(
        "indent",
        Filter,
        vec![
            kwb("width", false, Ty::USize, i64s(&[0, 1, 4, 1000]))
                .edge(vec![V::I64(1001), V::I64(2000), V::I64(-1), V::I128(1i128 << 64)])
                .lenient(vec![V::F64(2.0)]),
            kwb("first", false, Ty::Bool, bools()),
            kwb("blank", false, Ty::Bool, bools()),
        ],
        recv(vec![lines_extra()]),
    );
    add("str", Filter, vec![], recv(vec![numbers_extra(), arrays_extra(), maps_extra()]));
    add(
        "int",
        Filter,
        vec![
            kwb("base", false, Ty::U32, i64s(&[2, 8, 10, 16, 36]))
                .edge(vec![V::I64(0), V::I64(1), V::I64(37), V::I64(-1), V::I64(1 << 32)])
                .lenient(vec![V::F64(10.0), V::F64(16.0)]),
        ],
        recv(vec![numbers_extra(), int_strings()]),
    );
    add("float", Filter, vec![], recv(vec![numbers_extra(), float_strings()]));
    add("length", Filter, vec![], recv(vec![strings_extra(), arrays_extra(), maps_extra(), vec![V::Bytes(vec![])]]));
    add("reverse", Filter, vec![], recv(vec![strings_extra(), arrays_extra(), vec![s("abc"), s("aé日")]]));
    add(
        "split",
        Filter,
        vec![kwb("pat", true, Ty::Str, strs(&["", "a", "ab", "é", " ", "\n", "X", ","]))],
        recv(vec![strings_extra(), lines_extra(), strs(&["a,b", "a b  c", ",a,,b,"])]),
    );
    add("abs", Filter, vec![], recv(vec![numbers_extra()]));
    add(
        "round",
        Filter,
        vec![
            kwb("method", false, Ty::Str, strs(&["ceil", "floor"]))
                .edge(strs(&["common"]))
                .bad(strs(&["x", ""])),
            kwb("precision", false, Ty::I32, i64s(&[0, 1, 2, -1, 5, 20]))
                .edge(vec![V::I64(400), V::I64(-400), V::I64(i32::MAX as i64), V::I64(i32::MIN as i64), V::I64(1 << 31)])
                .lenient(vec![V::F64(1.0)]),
        ],
        recv(vec![round_extra()]),
    );
    add("first", Filter, vec![], recv(vec![arrays_extra()]));
    add("last", Filter, vec![], recv(vec![arrays_extra()]));
    add(
        "nth",
        Filter,
        vec![
            kwb("n", true, Ty::USize, vec![V::I64(0), V::I64(1), V::I64(2), V::I64(3), V::U64(u64::MAX)])
                .edge(vec![V::I64(-1), V::I128(1i128 << 64)])
                .lenient(vec![V::F64(0.0)]),
        ],
        recv(vec![arrays_extra()]),
    );
    add("join", Filter, vec![kwb("sep", false, Ty::Str, strs(&["", ", ", "é", " // "]))], recv(vec![arrays_extra()]));
    add("sort", Filter, vec![kwb("attribute", false, Ty::Str, strs(&["a", "a.b", "", "0", "zz"]))], recv(vec![arrays_extra()]));
    add("unique", Filter, vec![], recv(vec![arrays_extra()]));
    add(
        "get",
        Filter,
        vec![kwb("key", true, Ty::Str, strs(&["a", "b", "", "k3", "1", "u", "é"])), kwb("default", false, Ty::Any, strs(&["D"]))],
        recv(vec![maps_extra()]),
    );
    add("values", Filter, vec![], recv(vec![maps_extra()]));
    add("keys", Filter, vec![], recv(vec![maps_extra()]));
    add("pairs", Filter, vec![], recv(vec![maps_extra()]));
    add("group_by", Filter, vec![kwb("attribute", true, Ty::Str, strs(&["a", "a.b", "", "0", "zz"]))], recv(vec![arrays_extra()]));

    // ------------------------------------------------------------------ tests (17)
    for name in ["string", "number", "map", "bool", "array", "integer", "float", "none", "iterable", "defined", "undefined"] {
        add(name, Test, vec![], recv(vec![numbers_extra(), vec![V::Bytes(vec![])]]));
    }
    add("odd", Test, vec![], recv(vec![numbers_extra()]));
    add("even", Test, vec![], recv(vec![numbers_extra()]));
    add(
        "divisible_by",
        Test,
        vec![
            kwb("divisor", true, Ty::I128, vec![V::I64(1), V::I64(2), V::I64(3), V::I64(7), V::I64(-1), V::I64(-2), V::U64(2), V::I128(i128::MIN), V::I128(i128::MAX), V::I128(1i128 << 64)])
                .edge(vec![V::I64(0), V::U128(u128::MAX)])
                .lenient(vec![V::F64(2.0)]),
        ],
        recv(vec![numbers_extra(), vec![V::I64(6), V::I64(-6), V::I64(21), V::U128(6)]]),
    );
    add("starting_with", Test, vec![kwb("pat", true, Ty::Str, strs(&["", "a", "ab", "é", "x'", "b", " ", "éx", vals::LONG_MULTI]))], recv(vec![strings_extra()]));
    add("ending_with", Test, vec![kwb("pat", true, Ty::Str, strs(&["", "a", "ab", "é", "-w", "b", "\n", "xé", vals::LONG_MULTI]))], recv(vec![strings_extra()]));
    add(
        "containing",
        Test,
        vec![kwb(
            "pat",
            true,
            Ty::Any,
            vec![s("a"), s(""), s("é"), s("k3"), s("a<"), s("b"), V::I64(1), V::U64(1), V::F64(1.0), V::I64(2), V::Bool(true), V::Arr(vec![V::I64(1)]), V::map(&[("a", V::I64(1))])],
        )],
        recv(vec![strings_extra(), arrays_extra(), maps_extra()]),
    );

    // ------------------------------------------------------------------ functions (2)
    add(
        "range",
        Function,
        vec![range_arg("start", false), range_arg("end", true), range_arg("step_by", false)],
        vec![V::Undef],
    );
    add("throw", Function, vec![kwb("message", true, Ty::Str, strs(&["boom", "", "é<", "a\nb"]))], vec![V::Undef]);
    out
}
