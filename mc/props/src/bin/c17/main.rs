//! C17 — every built-in filter, test and function is total and honours its contract.
//!
//! Space (all executed on the real engine through `render_str`, receiver and keyword arguments
//! bound as context variables): for each of the 36 filters, 17 tests and 2 functions registered by
//! `Tera::default()`, every receiver of its alphabet x the FULL cross product of its declared
//! keyword arguments (each absent / right-kind boundary values / out-of-domain values / an
//! integral float / an undefined variable / one value of every other kind) x {no extra keyword,
//! one keyword the built-in does not declare}.
//!
//! Families:
//!   filters    `{{ v | f(k=a, ...) }}`
//!   tests      `{{ v is t(k=a, ...) }}`
//!   functions  `{{ fn(k=a, ...) }}`
//!   strings    EVERY string of length <= 3 (thorough: <= 5) over 11 sharp characters through every
//!              string built-in with a menu of well-typed arguments (small-scope exhaustive)
//!   partition  the type tests partition every value consistently (integer xor float iff number,
//!              defined iff not undefined, iterable iff a `for` loop accepts it, odd xor even)
//!
//! Oracle: `spec.rs` is the table of built-ins / arguments / alphabets, `oracle.rs` the contract
//! predicates written from the documentation.

#[path = "../c16/refs.rs"]
#[allow(dead_code)]
mod c16refs;
mod oracle;
mod spec;

use mccore::engine::{self, Out};
use mccore::vals::{self, Kind, V};
use mccore::{Acc, Family, Json, Run, json};
use oracle::{Env, Verdict};
use spec::{Arg, BKind, Builtin, Class, EXTRA_KW};

fn source(b: &Builtin, args: &[&Arg], extra: bool) -> String {
    let mut kws: Vec<String> = vec![];
    for (i, (kw, a)) in b.kws.iter().zip(args).enumerate() {
        if a.v.is_some() {
            kws.push(format!("{}=a{}", kw.name, i));
        }
    }
    if extra {
        kws.push(format!("{EXTRA_KW}=zz"));
    }
    let call = if kws.is_empty() && b.kind != BKind::Function {
        b.name.to_string()
    } else {
        format!("{}({})", b.name, kws.join(", "))
    };
    match b.kind {
        BKind::Filter => format!("{{{{ v | {call} }}}}"),
        BKind::Test => format!("{{{{ v is {call} }}}}"),
        BKind::Function => format!("{{{{ {call} }}}}"),
    }
}

fn bindings<'a>(b: &Builtin, recv: &'a V, args: &[&'a Arg], names: &'a [String], one: &'a V) -> Vec<(&'a str, &'a V)> {
    let mut v: Vec<(&str, &V)> = vec![];
    if b.kind != BKind::Function {
        v.push(("v", recv));
    }
    for (i, a) in args.iter().enumerate() {
        if let Some(x) = &a.v {
            v.push((names[i].as_str(), x));
        }
    }
    v.push(("zz", one));
    v
}

fn case_json(b: &Builtin, src: &str, binds: &[(&str, &V)]) -> Json {
    let mut m = serde_json::Map::new();
    for (k, v) in binds {
        if *k == "zz" && !src.contains("=zz") {
            continue;
        }
        m.insert(k.to_string(), json!(v.describe()));
    }
    json!({"builtin": b.name, "template": src, "autoescape": false, "bindings": Json::Object(m)})
}

fn recv_tag(b: &Builtin, recv: &V) -> String {
    if b.kind == BKind::Function {
        return "call".into();
    }
    match recv {
        V::Arr(a) if a.is_empty() => "empty-array".into(),
        V::Map(m) if m.is_empty() => "empty-map".into(),
        V::Str(s) | V::Safe(s) if s.is_empty() => "empty-string".into(),
        v => format!("{:?}", v.kind()).to_lowercase(),
    }
}

/// Judges one call. Returns whether more than totality was asserted.
fn judge(env: &Env, b: &Builtin, recv: &V, args: &[&Arg], src: &str, binds: &[(&str, &V)], out: &Out, acc: &mut Acc) -> bool {
    if let Out::Panic(m) = out {
        acc.violation(format!("panic:{}", b.name), format!("the built-in panicked: {m}"), || case_json(b, src, binds));
        return true;
    }
    if let Out::Ok(s) = out
        && std::str::from_utf8(s.as_bytes()).is_err()
    {
        acc.violation(format!("invalid-utf8:{}", b.name), "the output is not valid UTF-8", || case_json(b, src, binds));
    }
    let mut n_bad = 0;
    let mut n_uncertain = 0;
    let mut bad: (&str, &str) = ("", "");
    for (kw, a) in b.kws.iter().zip(args) {
        match a.class {
            Class::Bad => {
                n_bad += 1;
                bad = (kw.name, "mistyped");
            }
            Class::Absent if kw.required => {
                n_bad += 1;
                bad = (kw.name, "missing");
            }
            Class::Edge | Class::Lenient | Class::Undef => n_uncertain += 1,
            _ => {}
        }
    }
    if n_bad >= 2 || (n_bad == 1 && n_uncertain > 0) {
        return false; // several erroneous arguments: totality only
    }
    if n_bad == 1 {
        if !out.is_err() {
            acc.violation(
                format!("arg-not-reported:{}:{}:{}:on-{}", b.name, bad.0, bad.1, recv_tag(b, recv)),
                format!("the {} argument `{}` must be reported as an error, got {}", bad.1, bad.0, out.show()),
                || case_json(b, src, binds),
            );
        }
        return true;
    }
    // resolve: undefined -> omitted, integral float -> integer
    let resolved: Vec<Option<V>> = args
        .iter()
        .map(|a| match (a.class, &a.v) {
            (Class::Undef, _) => None,
            (Class::Lenient, Some(V::F64(f))) => Some(V::I64(*f as i64)),
            (_, v) => v.clone(),
        })
        .collect();
    let err_ok = n_uncertain > 0;
    for (kw, r) in b.kws.iter().zip(&resolved) {
        if kw.required && r.is_none() {
            if !out.is_err() {
                acc.violation(
                    format!("arg-not-reported:{}:{}:undefined:on-{}", b.name, kw.name, recv_tag(b, recv)),
                    format!("the required argument `{}` is undefined: expected an error, got {}", kw.name, out.show()),
                    || case_json(b, src, binds),
                );
            }
            return true;
        }
    }
    match oracle::contract(env, b.name, b.kind == BKind::Test, recv, &resolved, err_ok, out) {
        Verdict::Pass => true,
        Verdict::Skip => false,
        Verdict::Fail(sig, msg) => {
            acc.violation(sig, msg, || case_json(b, src, binds));
            true
        }
    }
}

#[allow(clippy::too_many_arguments)]
fn run_case(env: &Env, b: &Builtin, recv: &V, args: &[&Arg], names: &[String], one: &V, sample: bool, with_extra: bool, acc: &mut Acc) {
    let binds = bindings(b, recv, args, names, one);
    let ctx = vals::context(&binds);
    let src0 = source(b, args, false);
    let out0 = engine::render_str(env.tera, &src0, &ctx, false);
    let asserted = judge(env, b, recv, args, &src0, &binds, &out0, acc);
    acc.case(asserted, if asserted { out0.class() } else { totality_class(&out0) });
    if asserted {
        acc.count(&format!("asserted:{}", b.name), 1);
    }
    for n in env.notes.borrow_mut().drain(..) {
        acc.count(n, 1);
    }
    if sample {
        acc.sample(|| {
            let mut j = case_json(b, &src0, &binds);
            j["observed"] = json!(out0.show().chars().take(200).collect::<String>());
            j
        });
    }
    if !with_extra {
        return;
    }
    // the same call with a keyword the built-in does not declare: ignored (same answer) or refused
    let src1 = source(b, args, true);
    let out1 = engine::render_str(env.tera, &src1, &ctx, false);
    if let Out::Panic(m) = &out1 {
        acc.violation(format!("panic:{}", b.name), format!("the built-in panicked: {m}"), || case_json(b, &src1, &binds));
    } else if !out1.is_err() && oracle::coarse(b.name, &out1) != oracle::coarse(b.name, &out0) {
        acc.violation(
            format!("unknown-kwarg-changes-result:{}", b.name),
            format!(
                "an undeclared keyword argument must be ignored or refused: without it {}, with it {}",
                oracle::coarse(b.name, &out0),
                oracle::coarse(b.name, &out1)
            ),
            || case_json(b, &src1, &binds),
        );
    }
    acc.case(asserted, if out1.is_err() && !out0.is_err() { "extra-kwarg-refused" } else { "extra-kwarg-ignored" });

    // a filter on a STRING receiver, applied through the two block spellings: `{% set z | f %}text
    // {% endset %}{{ z }}` and `{% filter f %}text{% endfilter %}` - the captured text is the
    // receiver, the answer must be the one `{{ v | f }}` gives (seeded change C17-9: the first filter
    // of a set block got a receiver without a source position, and a typed refusal panicked)
    if b.kind == BKind::Filter
        && let V::Str(text) = recv
        && !text.contains("{{")
        && !text.contains("{%")
        && !text.contains("{#")
    {
        let mut kws: Vec<String> = vec![];
        for (i, (kw, a)) in b.kws.iter().zip(args).enumerate() {
            if a.v.is_some() {
                kws.push(format!("{}=a{i}", kw.name));
            }
        }
        let call = if kws.is_empty() { b.name.to_string() } else { format!("{}({})", b.name, kws.join(", ")) };
        for (which, src3) in [
            ("set-block", format!("{{% set zq | {call} %}}{text}{{% endset %}}{{{{ zq }}}}")),
            ("filter-section", format!("{{% filter {call} %}}{text}{{% endfilter %}}")),
        ] {
            let out3 = engine::render_str(env.tera, &src3, &ctx, false);
            if let Out::Panic(m) = &out3 {
                acc.violation(format!("panic:{}", b.name), format!("the built-in panicked ({which} spelling): {m}"), || case_json(b, &src3, &binds));
            } else if oracle::coarse(b.name, &out3) != oracle::coarse(b.name, &out0) {
                acc.violation(
                    format!("block-spelling-changes-result:{}", b.name),
                    format!("`{{{{ v | {call} }}}}` gives {}, the {which} spelling gives {}", oracle::coarse(b.name, &out0), oracle::coarse(b.name, &out3)),
                    || {
                        let mut j = case_json(b, &src3, &binds);
                        j["variable_spelling"] = json!(src0);
                        j
                    },
                );
            }
            acc.case(asserted, &format!("{which}-spelling:compared"));
        }
    }

    // the same call in another spelling: receiver and arguments written as LITERALS wherever the
    // language has one (constants take another route through the compiler than variables) and
    // the keyword arguments in REVERSE order - the answer must be the same
    let lit_recv = if b.kind != BKind::Function { recv.literal().map(|l| format!("({l})")) } else { None };
    let mut kws: Vec<String> = vec![];
    let mut any_literal = lit_recv.is_some();
    for (i, (kw, a)) in b.kws.iter().zip(args).enumerate() {
        if let Some(x) = &a.v {
            match x.literal() {
                Some(l) => {
                    any_literal = true;
                    kws.push(format!("{}={l}", kw.name));
                }
                None => kws.push(format!("{}=a{i}", kw.name)),
            }
        }
    }
    if !any_literal && kws.len() < 2 {
        return;
    }
    kws.reverse();
    let call = if kws.is_empty() && b.kind != BKind::Function { b.name.to_string() } else { format!("{}({})", b.name, kws.join(", ")) };
    let rv = lit_recv.as_deref().unwrap_or("v");
    let src2 = match b.kind {
        BKind::Filter => format!("{{{{ {rv} | {call} }}}}"),
        BKind::Test => format!("{{{{ {rv} is {call} }}}}"),
        BKind::Function => format!("{{{{ {call} }}}}"),
    };
    let out2 = engine::render_str(env.tera, &src2, &ctx, false);
    match &out2 {
        Out::Panic(m) => acc.violation(format!("panic:{}", b.name), format!("the built-in panicked: {m}"), || case_json(b, &src2, &binds)),
        // a literal the grammar refuses (three array dimensions, an exponent) is not this check's business
        Out::Err(kind, _) if kind == "SyntaxError" => {
            acc.case(false, "literal-spelling:not-parsable");
            return;
        }
        _ => {
            if oracle::coarse(b.name, &out2) != oracle::coarse(b.name, &out0) {
                acc.violation(
                    format!("spelling-changes-result:{}", b.name),
                    format!("with variables in declared order {}, with literals in reverse order {}", oracle::coarse(b.name, &out0), oracle::coarse(b.name, &out2)),
                    || {
                        let mut j = case_json(b, &src2, &binds);
                        j["variable_spelling"] = json!(src0);
                        j
                    },
                );
            }
        }
    }
    acc.case(asserted, "literal-spelling:same-answer");
}

fn totality_class(o: &Out) -> &'static str {
    match o {
        Out::Ok(_) => "ok (totality only)",
        Out::Err(..) => "err (totality only)",
        Out::Panic(_) => "panic",
    }
}

/// Runs the whole keyword-argument cross product of built-in `b` for one receiver (filters and
/// tests) or for one value of the first keyword argument (functions).
fn run_item(env: &Env, b: &Builtin, r: usize, acc: &mut Acc) {
    let names: Vec<String> = (0..b.kws.len()).map(|i| format!("a{i}")).collect();
    let one = V::I64(1);
    let (recv, fixed_first): (&V, Option<usize>) = if b.kind == BKind::Function { (&b.receivers[0], Some(r)) } else { (&b.receivers[r], None) };
    let free: Vec<usize> = (0..b.kws.len()).filter(|i| !(fixed_first.is_some() && *i == 0)).collect();
    let total: u64 = free.iter().map(|i| b.kws[*i].domain.len() as u64).product();
    let mut idx = vec![0usize; b.kws.len()];
    if let Some(f) = fixed_first {
        idx[0] = f;
    }
    for c in 0..total {
        let mut rem = c;
        // last keyword varies fastest
        for i in free.iter().rev() {
            let n = b.kws[*i].domain.len() as u64;
            idx[*i] = (rem % n) as usize;
            rem /= n;
        }
        let args: Vec<&Arg> = idx.iter().enumerate().map(|(i, j)| &b.kws[i].domain[*j]).collect();
        let sample = c == total / 3 && r % 7 == 2;
        run_case(env, b, recv, &args, &names, &one, sample, true, acc);
    }
}

fn main() {
    let mut run = Run::from_env("C17", "exploration");
    // the full bounds cost only a few seconds: both tiers run them
    let thorough = true;
    run.rule(
        "One case = one call `{{ v | f(k=a,..) }}` / `{{ v is t(k=a,..) }}` / `{{ fn(k=a,..) }}` rendered by the real engine with the \
         receiver and every keyword argument bound as context variables (absent argument = omitted from the source), plus the same call \
         with one undeclared keyword argument. Enumeration: for every built-in, every receiver of its alphabet x the full cross product \
         of the alphabets of its declared keyword arguments (mixed-radix decoding of the item index; cases are distinct by construction). \
         Every case is judged for totality (no panic, valid UTF-8). Non-trivial = the oracle asserted MORE than totality on the case: a \
         documented contract predicate applied (receiver of a documented kind, arguments inside or at the edge of their documented \
         domain), or exactly one argument was missing/mistyped and an error was demanded; the undeclared-keyword variant of a case is \
         non-trivial when its base case is. strings: every string up to the length bound over the character alphabet x a fixed menu of \
         well-typed calls (no undeclared-keyword variant). partition: one case per (value, type test) and per (value, law).",
    );
    run.assume("contracts are taken from docs/content/_index.md (Built-ins), MIGRATION.md and the doc comments of filters.rs/tests.rs/functions.rs; where they are silent only totality is asserted (wrong-kind receivers, empty patterns, collection filters that C16 owns)");
    run.assume("default cargo features of tera (no `unicode`): length/reverse/truncate count chars; HashMap-ordered outputs (keys/values/pairs/group_by) are compared modulo permutation");
    run.assume("rustc/std are trusted: char::to_uppercase/to_lowercase tables, str::parse::<f64> as the correctly rounded decimal->double conversion, integer/float casts; CPython Fraction arithmetic (oracles/round_oracle.py) is the authority for `round`");
    run.assume("round: precision 0 must be exact; other precisions within 1 ulp (2 ulp for negative or >22 precisions, where 10^p is not a double) of k/10^p for the exactly rounded k, both neighbours accepted when value*10^p is within a relative 2^-48 (absolute 2^-1074) of the decision point; an error is accepted when 10^p or value*10^p leaves the range of normal doubles; infinities may stay or become NaN when precision != 0 (binary artefacts such as 1.45|round(precision=1) are not flagged)");
    run.assume("with two or more erroneous keyword arguments only totality is asserted; an undefined argument may be refused or treated as omitted; an integral float where an integer is documented may be refused or treated as the integer; an undeclared keyword argument may be refused or ignored");
    run.assume("libm (powi) is not under test; receivers and arguments are the stated alphabets, not all values");

    let bs = spec::builtins(thorough);
    let tera = tera::Tera::default();

    // the table must be exactly what the engine registers
    let count = |k: BKind| bs.iter().filter(|b| b.kind == k).count();
    let mut alph = serde_json::Map::new();
    for b in &bs {
        alph.insert(
            format!("{}:{}", match b.kind { BKind::Filter => "filter", BKind::Test => "test", BKind::Function => "function" }, b.name),
            json!({
                "receivers": if b.kind == BKind::Function { 0 } else { b.receivers.len() },
                "kwargs": b.kws.iter().map(|k| json!({
                    "name": k.name,
                    "required": k.required,
                    "documented_type": format!("{:?}", k.ty),
                    "values": k.domain.iter().map(|a| format!("{}:{}", match a.class {
                        Class::Absent => "absent", Class::Good => "good", Class::Edge => "edge", Class::Lenient => "integral-float",
                        Class::Undef => "undefined", Class::Bad => "bad" }, a.v.as_ref().map(|v| v.describe()).unwrap_or_default())).collect::<Vec<_>>(),
                })).collect::<Vec<_>>(),
                "kwarg_combinations": b.combos(),
            }),
        );
    }
    run.extra("builtins", json!({"filters": count(BKind::Filter), "tests": count(BKind::Test), "functions": count(BKind::Function)}));
    run.extra("alphabets", Json::Object(alph));
    run.extra("receiver_alphabet_R", json!(spec::base_receivers().iter().map(|v| v.describe()).collect::<Vec<_>>()));

    for (fam, kind, what) in [
        ("filters", BKind::Filter, "36 filters"),
        ("tests", BKind::Test, "17 tests"),
        ("functions", BKind::Function, "2 functions"),
    ] {
        let mut items: Vec<(usize, usize)> = vec![];
        let mut calls = 0u64;
        for (bi, b) in bs.iter().enumerate() {
            if b.kind != kind {
                continue;
            }
            let n = if kind == BKind::Function { b.kws[0].domain.len() } else { b.receivers.len() };
            for r in 0..n {
                items.push((bi, r));
            }
            calls += if kind == BKind::Function { b.combos() } else { b.combos() * b.receivers.len() as u64 };
        }
        let bounds = format!(
            "{what}: every receiver of the built-in's alphabet ({} tier) x the full cross product of its keyword-argument alphabets = {calls} calls, each also with one undeclared keyword argument",
            if thorough { "thorough: all of V plus the per-built-in receivers" } else { "quick: R plus the per-built-in receivers" }
        );
        let items_ref = &items;
        let bs_ref = &bs;
        run.family(
            Family::new(fam, items.len() as u64, &bounds).describe(move |i| {
                let (bi, r) = items_ref[i as usize];
                let b = &bs_ref[bi];
                json!({"builtin": b.name, "receiver_or_first_argument_index": r,
                       "receiver": if b.kind == BKind::Function { "-".to_string() } else { b.receivers[r].describe() }})
            }),
            |item, acc: &mut Acc| {
                let (bi, r) = items[item as usize];
                let env = Env::new(&tera);
                let t0 = std::time::Instant::now();
                run_item(&env, &bs[bi], r, acc);
                if std::env::var("C17_TIMING").is_ok() {
                    acc.count(&format!("ms:{}", bs[bi].name), t0.elapsed().as_millis() as u64);
                }
            },
        );
    }

    // ---------------------------------------------------------------- strings
    // Small-scope exhaustive: EVERY string up to a length bound over a sharp character alphabet
    // through every string built-in with a fixed menu of well-typed arguments.
    let chars: Vec<char> = vec!['a', 'A', ' ', '\n', '\r', 'é', '\'', '-', 'ß', '<', '&'];
    let max_len: u32 = if thorough { 5 } else { 3 };
    let mut n_strings = 0u64;
    for l in 0..=max_len {
        n_strings += (chars.len() as u64).pow(l);
    }
    let nth_string = |mut i: u64| -> String {
        let k = chars.len() as u64;
        let mut l = 0u32;
        while i >= k.pow(l) {
            i -= k.pow(l);
            l += 1;
        }
        let mut cs = vec![];
        for _ in 0..l {
            cs.push(chars[(i % k) as usize]);
            i /= k;
        }
        cs.iter().rev().collect()
    };
    let s = |x: &str| Some(V::s(x));
    let i = |x: i64| Some(V::I64(x));
    let t = Some(V::Bool(true));
    let mut menu: Vec<(&str, BKind, Vec<Option<V>>)> = vec![];
    for f in ["safe", "upper", "lower", "capitalize", "title", "wordcount", "escape_html", "escape_xml", "newlines_to_br", "length", "reverse", "str", "float"] {
        menu.push((f, BKind::Filter, vec![]));
    }
    for f in ["trim", "trim_start", "trim_end"] {
        for p in [None, s("a"), s(" "), s("aa"), s("é")] {
            menu.push((f, BKind::Filter, vec![p]));
        }
    }
    for from in ["a", "aa", "a ", "\n"] {
        for to in ["", "b", "aa"] {
            menu.push(("replace", BKind::Filter, vec![s(from), s(to)]));
        }
    }
    for l in 0..=4 {
        for e in [None, s("")] {
            menu.push(("truncate", BKind::Filter, vec![i(l), e]));
        }
    }
    for w in [None, i(1)] {
        for f in [None, t.clone()] {
            for b in [None, t.clone()] {
                menu.push(("indent", BKind::Filter, vec![w.clone(), f.clone(), b]));
            }
        }
    }
    for p in ["a", " ", "\n", "aa", "\r\n"] {
        menu.push(("split", BKind::Filter, vec![s(p)]));
    }
    for b in [None, i(16)] {
        menu.push(("int", BKind::Filter, vec![b]));
    }
    for f in ["starting_with", "ending_with", "containing"] {
        for p in ["a", "a ", "é", "aa"] {
            menu.push((f, BKind::Test, vec![s(p)]));
        }
    }
    let probes: Vec<(usize, Vec<Arg>)> = menu
        .into_iter()
        .map(|(name, kind, vals)| {
            let bi = bs.iter().position(|b| b.name == name && b.kind == kind).expect("menu names a built-in of the table");
            assert_eq!(bs[bi].kws.len(), vals.len().max(bs[bi].kws.len()));
            let mut args: Vec<Arg> = vals.into_iter().map(|v| Arg { class: if v.is_some() { Class::Good } else { Class::Absent }, v }).collect();
            while args.len() < bs[bi].kws.len() {
                args.push(Arg { v: None, class: Class::Absent });
            }
            (bi, args)
        })
        .collect();
    run.extra(
        "strings_family",
        json!({"characters": chars.iter().map(|c| format!("{c:?}")).collect::<Vec<_>>(), "max_length": max_len, "strings": n_strings,
               "calls_per_string": probes.len(),
               "menu": probes.iter().map(|(bi, args)| format!("{}({})", bs[*bi].name, args.iter().zip(&bs[*bi].kws).filter_map(|(a, k)| a.v.as_ref().map(|v| format!("{}={}", k.name, v.describe()))).collect::<Vec<_>>().join(", "))).collect::<Vec<_>>()}),
    );
    run.family(
        Family::new(
            "strings",
            n_strings,
            &format!("all {n_strings} strings of length <= {max_len} over {} characters x {} well-typed calls of the string built-ins", chars.len(), probes.len()),
        )
        .describe(|i| json!({"receiver": format!("{:?}", nth_string(i))})),
        |item, acc: &mut Acc| {
            let env = Env::new(&tera);
            let recv = V::s(&nth_string(item));
            let one = V::I64(1);
            for (pi, (bi, args)) in probes.iter().enumerate() {
                let b = &bs[*bi];
                let names: Vec<String> = (0..b.kws.len()).map(|i| format!("a{i}")).collect();
                let refs: Vec<&Arg> = args.iter().collect();
                run_case(&env, b, &recv, &refs, &names, &one, item % 97 == 40 && pi % 13 == 5, false, acc);
            }
        },
    );

    // ---------------------------------------------------------------- strings, second alphabet
    // characters whose case mapping changes the length (İ, ǆ, ﬁ, ß is in the first alphabet), a
    // combining mark, a character outside the BMP, other Unicode blanks, tab, a BOM
    let uchars: Vec<char> = vec!['a', ' ', 'İ', 'ǆ', 'ﬁ', '\u{301}', '😀', '\u{a0}', '\u{2003}', '\t', '\u{feff}', 'Σ'];
    let umax: u32 = if thorough { 3 } else { 2 };
    let mut n_ustrings = 0u64;
    for l in 0..=umax {
        n_ustrings += (uchars.len() as u64).pow(l);
    }
    let nth_ustring = |mut i: u64| -> String {
        let k = uchars.len() as u64;
        let mut l = 0u32;
        while i >= k.pow(l) {
            i -= k.pow(l);
            l += 1;
        }
        let mut cs = vec![];
        for _ in 0..l {
            cs.push(uchars[(i % k) as usize]);
            i /= k;
        }
        cs.iter().rev().collect()
    };
    run.family(
        Family::new(
            "strings-unicode",
            n_ustrings,
            &format!("all {n_ustrings} strings of length <= {umax} over {} characters (case mappings that change the length, a combining mark, a non-BMP character, Unicode blanks, tab, BOM) x the same {} calls", uchars.len(), probes.len()),
        )
        .describe(|i| json!({"receiver": format!("{:?}", nth_ustring(i))})),
        |item, acc: &mut Acc| {
            let env = Env::new(&tera);
            let recv = V::s(&nth_ustring(item));
            let one = V::I64(1);
            for (pi, (bi, args)) in probes.iter().enumerate() {
                let b = &bs[*bi];
                let names: Vec<String> = (0..b.kws.len()).map(|i| format!("a{i}")).collect();
                let refs: Vec<&Arg> = args.iter().collect();
                run_case(&env, b, &recv, &refs, &names, &one, item % 31 == 7 && pi % 13 == 5, false, acc);
            }
        },
    );

    // ---------------------------------------------------------------- partition
    let pr = spec::partition_receivers();
    run.extra("partition_values", json!(pr.len()));
    run.family(
        Family::new("partition", pr.len() as u64, &format!("all {} values of the union of the receiver alphabets x the 11 type tests, `for`, odd/even: partition laws", pr.len())),
        |item, acc: &mut Acc| {
            let v = &pr[item as usize];
            let env = Env::new(&tera);
            let t = |name: &str| -> Option<bool> {
                match env.render(&format!("{{{{ v is {name} }}}}"), &[("v", v)]) {
                    Out::Ok(s) if s == "true" => Some(true),
                    Out::Ok(s) if s == "false" => Some(false),
                    _ => None,
                }
            };
            let case = |what: &str| json!({"value": v.describe(), "template": what});
            let names = ["string", "number", "map", "bool", "array", "integer", "float", "none", "iterable", "defined", "undefined"];
            let mut r = std::collections::BTreeMap::new();
            for n in names {
                match t(n) {
                    Some(b) => {
                        r.insert(n, b);
                    }
                    None => {
                        acc.violation(format!("partition:not-a-boolean:{n}"), format!("`v is {n}` did not render true/false"), || case(&format!("{{{{ v is {n} }}}}")));
                        r.insert(n, false);
                    }
                }
                acc.case(true, "type-test");
            }
            let law = |name: &str, holds: bool, text: &str, acc: &mut Acc| {
                if !holds {
                    acc.violation(format!("partition:{name}"), format!("{text}; observed {r:?}"), || case(text));
                }
                acc.case(true, "law");
            };
            law("integer-xor-float-iff-number", (r["integer"] ^ r["float"]) == r["number"] && !(r["integer"] && r["float"]), "integer xor float iff number", acc);
            law("defined-iff-not-undefined", r["defined"] != r["undefined"], "defined iff not undefined", acc);
            let kinds = ["string", "number", "map", "bool", "array", "none", "undefined"];
            let n_true = kinds.iter().filter(|k| r[**k]).count();
            let want = if v.kind() == Kind::Bytes { n_true <= 1 } else { n_true == 1 };
            law("kinds-exclusive", want, "exactly one of string/number/map/bool/array/none/undefined (bytes: at most one)", acc);
            let loops = env.render("{% for q in v %}{% endfor %}ok", &[("v", v)]).ok() == Some("ok");
            law("iterable-iff-for-accepts", r["iterable"] == loops, &format!("iterable iff `{{% for q in v %}}` is accepted (for accepted: {loops})"), acc);
            law(
                "iterable-iff-container",
                r["iterable"] == (r["string"] || r["array"] || r["map"] || v.kind() == Kind::Bytes),
                "iterable iff string, array, map or bytes",
                acc,
            );
            if v.kind() == Kind::Int && v.as_i128().is_some() {
                let (o, e) = (t("odd"), t("even"));
                law("odd-xor-even", matches!((o, e), (Some(a), Some(b)) if a != b), &format!("odd xor even on an integer (odd={o:?}, even={e:?})"), acc);
            }
            if item % 9 == 4 {
                acc.sample(|| json!({"value": v.describe(), "tests": format!("{r:?}"), "for_accepts": loops}));
            }
        },
    );

    if run.is_supervisor() {
        run.guard(
            "table-is-36-17-2",
            count(BKind::Filter) == 36 && count(BKind::Test) == 17 && count(BKind::Function) == 2,
            format!("{} filters, {} tests, {} functions", count(BKind::Filter), count(BKind::Test), count(BKind::Function)),
        );
        // every table entry is registered in the engine under that name (an unknown name is a compile error
        // for every call and would show as 100 % errors), and the contract was asserted on it at least once
        let unasserted: Vec<&str> = bs
            .iter()
            .filter(|b| !matches!(b.name, "group_by"))
            .filter(|b| run.counter(&format!("asserted:{}", b.name)) == 0)
            .map(|b| b.name)
            .collect();
        run.guard("every-builtin-asserted", unasserted.is_empty(), format!("built-ins on which no contract or argument error was ever asserted: {unasserted:?}"));
        for fam in ["filters", "tests", "functions", "strings"] {
            let (ok, err) = (run.outcome(fam, "ok"), run.outcome(fam, "err"));
            run.guard(&format!("{fam}-both-outcomes"), ok > 0 && err > 0, format!("asserted cases: ok={ok} err={err}"));
        }
        for d in [
            "disc:truncate-multibyte-cut",
            "disc:title-apostrophe",
            "disc:range-at-cap",
            "disc:range-over-cap",
            "disc:range-countdown",
            "disc:integer-on-integral-float",
            "disc:abs-beyond-i64",
            "disc:trim-asymmetric",
            "disc:trim-pat-asymmetric",
            "disc:default-falsy-replaced",
            "disc:round-tie",
            "disc:indent-crlf",
        ] {
            let n = run.counter(d);
            run.guard(d, n > 0, format!("{n} cases"));
        }
        let ign = run.outcome_any("extra-kwarg-ignored");
        let refu = run.outcome_any("extra-kwarg-refused");
        run.extra("undeclared_kwarg", json!({"ignored_or_both_err": ign, "refused": refu}));
        run.extra(
            "notes",
            json!({"escape_html_apostrophe_spelled_differently_from_docs": run.counter("note:escape_html-apostrophe-not-spelled-as-documented")}),
        );
    }
    run.finish();
}
