//! Contract predicates of the built-ins, written from `/repo/docs/content/_index.md` (section
//! "Built-ins"), `/repo/MIGRATION.md` and the doc comments in `filters.rs` / `tests.rs` /
//! `functions.rs` — never by calling the function under test. Where the documentation is silent
//! the predicate answers `Skip` (totality only) or accepts every defensible answer.
//!
//! Expected *renderings* of values are obtained differentially: the expected value is bound to a
//! context variable and rendered with `{{ x }}` (value display is C15/C16's business, not ours).

use crate::c16refs;
use mccore::engine::{self, Out};
use mccore::numref::{Num, cmp_exact, num_of};
use mccore::pyoracle::PyOracle;
use mccore::vals::{self, K, Kind, V};
use std::cell::RefCell;
use std::cmp::Ordering;

pub const RANGE_CAP: usize = 100_000;

thread_local! {
    /// one python oracle per worker process (the family closure runs on a single thread)
    static PY: RefCell<Option<PyOracle>> = const { RefCell::new(None) };
}

pub struct Env<'a> {
    pub tera: &'a tera::Tera,
    /// names of discriminating situations met while judging (drained into counters by main)
    pub notes: RefCell<Vec<&'static str>>,
}

pub enum Verdict {
    /// a contract was asserted and holds
    Pass,
    /// the documentation says nothing about this call: totality only
    Skip,
    /// (signature, expected vs observed)
    Fail(String, String),
}
use Verdict::*;

impl<'a> Env<'a> {
    pub fn new(tera: &'a tera::Tera) -> Self {
        Env { tera, notes: RefCell::new(vec![]) }
    }
    pub fn note(&self, n: &'static str) {
        self.notes.borrow_mut().push(n);
    }
    pub fn render(&self, src: &str, bindings: &[(&str, &V)]) -> Out {
        engine::render_str(self.tera, src, &vals::context(bindings), false)
    }
    pub fn render_auto(&self, src: &str, bindings: &[(&str, &V)]) -> Out {
        engine::render_str(self.tera, src, &vals::context(bindings), true)
    }
    /// How the engine displays a value (`{{ x }}`), `Err` for undefined.
    pub fn shown(&self, v: &V) -> Out {
        self.render("{{ x }}", &[("x", v)])
    }
    fn ask_py(&self, req: String) -> String {
        PY.with(|py| {
            let mut py = py.borrow_mut();
            if py.is_none() {
                *py = Some(PyOracle::spawn("round_oracle.py"));
            }
            py.as_mut().unwrap().ask(&[req]).pop().unwrap_or_default()
        })
    }
}

fn fail(sig: &str, msg: String) -> Verdict {
    Fail(sig.to_string(), msg)
}

fn want_text(out: &Out, want: &str, err_ok: bool, sig: &str) -> Verdict {
    match out {
        Out::Ok(s) if s == want => Pass,
        Out::Err(..) if err_ok => Pass,
        _ => fail(sig, format!("expected {want:?}{}, got {}", if err_ok { " (or an error)" } else { "" }, out.show())),
    }
}

fn want_one_of(out: &Out, wants: &[String], err_ok: bool, sig: &str) -> Verdict {
    match out {
        Out::Ok(s) if wants.iter().any(|w| w == s) => Pass,
        Out::Err(..) if err_ok => Pass,
        _ => fail(sig, format!("expected one of {wants:?}{}, got {}", if err_ok { " (or an error)" } else { "" }, out.show())),
    }
}

fn want_err(out: &Out, sig: &str, why: &str) -> Verdict {
    match out {
        Out::Err(..) => Pass,
        _ => fail(sig, format!("expected an error ({why}), got {}", out.show())),
    }
}

fn want_value(env: &Env, out: &Out, want: &V, err_ok: bool, sig: &str) -> Verdict {
    match env.shown(want) {
        Out::Ok(t) => want_text(out, &t, err_ok, sig),
        _ => want_err(out, sig, "the result is undefined and rendering undefined is an error"),
    }
}

fn bool_text(b: bool) -> &'static str {
    if b { "true" } else { "false" }
}

fn false_or_err(out: &Out, sig: &str, why: &str) -> Verdict {
    match out {
        Out::Err(..) => Pass,
        Out::Ok(s) if s == "false" => Pass,
        _ => fail(sig, format!("expected false or an error ({why}), got {}", out.show())),
    }
}

// ------------------------------------------------------------------------------------------------
// numbers

fn fits_i128(n: &Num) -> bool {
    match n {
        Num::Int(true, m) => *m <= 1u128 << 127,
        Num::Int(false, m) => *m < 1u128 << 127,
        _ => false,
    }
}

fn int_text(n: &Num) -> String {
    match n {
        Num::Int(neg, m) => format!("{}{m}", if *neg && *m != 0 { "-" } else { "" }),
        Num::Float(f) => format!("{f:?}"),
    }
}

/// Parses the rendering of an integer (`-?[0-9]+`, magnitude below 2^128).
fn parse_int(s: &str) -> Option<Num> {
    let (neg, d) = match s.strip_prefix('-') {
        Some(d) => (true, d),
        None => (false, s),
    };
    if d.is_empty() || !d.bytes().all(|b| b.is_ascii_digit()) {
        return None;
    }
    let m: u128 = d.parse().ok()?;
    Some(Num::Int(neg && m != 0, m))
}

fn num_eq(a: &Num, b: &Num) -> bool {
    cmp_exact(a, b) == Ordering::Equal
}

fn digit_of(c: char) -> Option<u32> {
    match c {
        '0'..='9' => Some(c as u32 - '0' as u32),
        'a'..='z' => Some(c as u32 - 'a' as u32 + 10),
        'A'..='Z' => Some(c as u32 - 'A' as u32 + 10),
        _ => None,
    }
}

/// Magnitude of a non-empty digit string in `base`: `None` = not a digit string,
/// `Some(None)` = valid but above u128.
fn magnitude(s: &str, base: u32, allow_underscore: bool) -> Option<Option<u128>> {
    let mut m: Option<u128> = Some(0);
    let mut any = false;
    for c in s.chars() {
        if allow_underscore && c == '_' && any {
            continue;
        }
        let d = digit_of(c).filter(|d| *d < base)?;
        any = true;
        m = m.and_then(|m| m.checked_mul(base as u128)).and_then(|m| m.checked_add(d as u128));
    }
    if any { Some(m) } else { None }
}

fn strict_float_syntax(s: &str) -> bool {
    let b = s.as_bytes();
    let mut i = 0;
    if i < b.len() && (b[i] == b'+' || b[i] == b'-') {
        i += 1;
    }
    let digits = |i: &mut usize| {
        let st = *i;
        while *i < b.len() && b[*i].is_ascii_digit() {
            *i += 1;
        }
        *i > st
    };
    if !digits(&mut i) {
        return false;
    }
    if i < b.len() && b[i] == b'.' {
        i += 1;
        if !digits(&mut i) {
            return false;
        }
    }
    if i < b.len() && (b[i] == b'e' || b[i] == b'E') {
        i += 1;
        if i < b.len() && (b[i] == b'+' || b[i] == b'-') {
            i += 1;
        }
        if !digits(&mut i) {
            return false;
        }
    }
    i == b.len()
}

/// Exact integer value of an integral finite double below 2^127 in magnitude.
fn float_as_int(f: f64) -> Option<Num> {
    if f.is_finite() && f.fract() == 0.0 && f.abs() < 1.7014118346046923e38 {
        let i = f as i128; // exact: the value is an integer inside the i128 range
        Some(Num::Int(i < 0, i.unsigned_abs()))
    } else {
        None
    }
}

enum IntRef {
    /// documented spelling: the result must be exactly this (or `Err` when it does not fit i128)
    Exact(Num),
    /// no integer reading exists: must be `Err`
    Invalid,
    /// spelling the docs do not settle: `Err`, or one of these
    Maybe(Vec<Num>),
}

fn signed_mag(neg: bool, m: u128) -> Num {
    Num::Int(neg && m != 0, m)
}

fn int_of_string(s: &str, base: u32) -> IntRef {
    let prefix = match base {
        2 => Some("0b"),
        8 => Some("0o"),
        16 => Some("0x"),
        _ => None,
    };
    // 1. documented spellings: -?digits, or prefix + digits
    let (neg, body) = match s.strip_prefix('-') {
        Some(r) => (true, r),
        None => (false, s),
    };
    if let Some(m) = magnitude(body, base, false) {
        return match m {
            Some(m) => IntRef::Exact(signed_mag(neg, m)),
            None => IntRef::Maybe(vec![]),
        };
    }
    if let Some(p) = prefix
        && let Some(r) = s.strip_prefix(p)
        && let Some(m) = magnitude(r, base, false)
    {
        return match m {
            Some(m) => IntRef::Exact(signed_mag(false, m)),
            None => IntRef::Maybe(vec![]),
        };
    }
    // 2. liberal spellings
    let mut maybe = vec![];
    let t = s.trim();
    let (neg, r) = match t.strip_prefix('-') {
        Some(r) => (true, r),
        None => (false, t.strip_prefix('+').unwrap_or(t)),
    };
    let r2 = match prefix {
        Some(p) if r.get(..2).is_some_and(|h| h.eq_ignore_ascii_case(p)) => &r[2..],
        _ => r,
    };
    for body in [r, r2] {
        if let Some(Some(m)) = magnitude(body, base, true) {
            maybe.push(signed_mag(neg, m));
        }
    }
    if strict_float_syntax(t)
        && let Ok(f) = t.parse::<f64>()
        && let Some(n) = float_as_int(f)
    {
        maybe.push(n);
    }
    if maybe.is_empty() { IntRef::Invalid } else { IntRef::Maybe(maybe) }
}

fn ord_bits(f: f64) -> i128 {
    let b = f.to_bits();
    if b >> 63 == 1 { -((b & !(1u64 << 63)) as i128) } else { b as i128 }
}

fn same_float(a: f64, b: f64) -> bool {
    (a.is_nan() && b.is_nan()) || a.to_bits() == b.to_bits()
}

// ------------------------------------------------------------------------------------------------
// strings

fn chars_upper(s: &str) -> String {
    s.chars().flat_map(|c| c.to_uppercase()).collect()
}

/// `out` is `input` lowercased character by character (Unicode `Lowercase_Mapping`); a capital
/// sigma may become either small sigma (final-sigma rule of full-string lowercasing).
fn lower_ok(input: &str, out: &str) -> bool {
    let mut rest = out;
    for c in input.chars() {
        let want: String = c.to_lowercase().collect();
        if let Some(r) = rest.strip_prefix(want.as_str()) {
            rest = r;
        } else if c == 'Σ'
            && let Some(r) = rest.strip_prefix('ς')
        {
            rest = r;
        } else {
            return false;
        }
    }
    rest.is_empty()
}

/// Title-casing as documented by the doc comment ("Uppercase the first letter of each word"),
/// the docs example and the unit-test table in filters.rs: words are delimited by whitespace and
/// by `-()[]{}<>`; an apostrophe is copied but does not start a new word; the first character of
/// a word is uppercased, the others lowercased. `None` when the input holds punctuation whose
/// role the documentation does not settle.
fn title_ref(s: &str) -> Option<String> {
    let mut res = String::new();
    let mut start = true;
    for c in s.chars() {
        if c.is_whitespace() || "-()[]{}<>".contains(c) {
            res.push(c);
            start = true;
        } else if c == '\'' {
            res.push(c);
        } else if c.is_ascii_punctuation() {
            return None;
        } else if start {
            res.extend(c.to_uppercase());
            start = false;
        } else {
            res.extend(c.to_lowercase());
        }
    }
    Some(res)
}

fn trim_by(s: &str, start: bool, end: bool, is_ws: fn(char) -> bool) -> &str {
    let mut a = 0;
    let mut b = s.len();
    if start {
        for (i, c) in s.char_indices() {
            if is_ws(c) {
                a = i + c.len_utf8();
            } else {
                break;
            }
        }
    }
    if end {
        for (i, c) in s.char_indices().rev() {
            if i < a {
                break;
            }
            if is_ws(c) {
                b = i;
            } else {
                break;
            }
        }
    }
    &s[a..b.max(a)]
}

fn strip_pre<'s>(mut s: &'s str, p: &str) -> &'s str {
    if p.is_empty() {
        return s;
    }
    while s.len() >= p.len() && s.as_bytes()[..p.len()] == *p.as_bytes() {
        s = &s[p.len()..];
    }
    s
}

fn strip_suf<'s>(mut s: &'s str, p: &str) -> &'s str {
    if p.is_empty() {
        return s;
    }
    while s.len() >= p.len() && s.as_bytes()[s.len() - p.len()..] == *p.as_bytes() {
        s = &s[..s.len() - p.len()];
    }
    s
}

/// Naive left-to-right scanner: the pieces of `s` between non-overlapping occurrences of `pat`.
fn pieces<'s>(s: &'s str, pat: &str) -> Vec<&'s str> {
    assert!(!pat.is_empty());
    let mut out = vec![];
    let mut from = 0;
    let mut i = 0;
    let (sb, pb) = (s.as_bytes(), pat.as_bytes());
    while i + pb.len() <= sb.len() {
        if s.is_char_boundary(i) && &sb[i..i + pb.len()] == pb {
            out.push(&s[from..i]);
            i += pb.len();
            from = i;
        } else {
            i += 1;
        }
    }
    out.push(&s[from..]);
    out
}

fn nl_to_br(s: &str, lone_cr: bool) -> String {
    let cs: Vec<char> = s.chars().collect();
    let mut out = String::new();
    let mut i = 0;
    while i < cs.len() {
        if cs[i] == '\r' && i + 1 < cs.len() && cs[i + 1] == '\n' {
            out.push_str("<br>");
            i += 2;
        } else if cs[i] == '\n' || (cs[i] == '\r' && lone_cr) {
            out.push_str("<br>");
            i += 1;
        } else {
            out.push(cs[i]);
            i += 1;
        }
    }
    out
}

/// `out` is `input` with exactly the five documented characters replaced by an entity (the
/// documented spelling or an equivalent character reference) and everything else verbatim.
fn escaped_ok(input: &str, out: &str) -> bool {
    let mut rest = out;
    for c in input.chars() {
        let alts: &[&str] = match c {
            '&' => &["&amp;"],
            '<' => &["&lt;"],
            '>' => &["&gt;"],
            '"' => &["&quot;", "&#34;", "&#x22;"],
            '\'' => &["&#x27;", "&#39;", "&apos;"],
            _ => &[],
        };
        if alts.is_empty() {
            let mut buf = [0u8; 4];
            match rest.strip_prefix(&*c.encode_utf8(&mut buf)) {
                Some(r) => rest = r,
                None => return false,
            }
        } else {
            match alts.iter().find_map(|a| rest.strip_prefix(a)) {
                Some(r) => rest = r,
                None => return false,
            }
        }
    }
    rest.is_empty()
}

fn word_count(s: &str, is_ws: fn(char) -> bool) -> usize {
    let mut n = 0;
    let mut inside = false;
    for c in s.chars() {
        if is_ws(c) {
            inside = false;
        } else if !inside {
            inside = true;
            n += 1;
        }
    }
    n
}

fn ascii_ws(c: char) -> bool {
    matches!(c, ' ' | '\t' | '\n' | '\r' | '\x0c' | '\x0b')
}

fn unicode_ws(c: char) -> bool {
    c.is_whitespace()
}

/// Lines of `s` with their terminators (`"\n"`, `"\r\n"` or `""` for an unterminated last line).
fn lines_of(s: &str) -> Vec<(&str, &str)> {
    let mut out = vec![];
    let mut from = 0;
    let b = s.as_bytes();
    for i in 0..b.len() {
        if b[i] == b'\n' {
            if i > from && b[i - 1] == b'\r' {
                out.push((&s[from..i - 1], "\r\n"));
            } else {
                out.push((&s[from..i], "\n"));
            }
            from = i + 1;
        }
    }
    if from < b.len() {
        out.push((&s[from..], ""));
    }
    out
}

/// Every output the documentation of `indent` allows (whitespace-only lines may or may not count
/// as "blank/whitespace lines"); `keep_cr = false` gives the outputs with `\r\n` degraded to `\n`.
fn indent_candidates(s: &str, width: usize, first: bool, blank: bool, keep_cr: bool) -> Vec<String> {
    let prefix = " ".repeat(width);
    let mut cands = vec![String::new()];
    for (i, (line, term)) in lines_of(s).into_iter().enumerate() {
        let eligible = i > 0 || first;
        let ws_only = !line.is_empty() && line.chars().all(|c| c.is_whitespace());
        let opts: &[bool] = if !eligible {
            &[false]
        } else if line.is_empty() {
            // `first=true` on a blank first line with `blank=false`: the docs do not say which rule wins
            if blank {
                &[true]
            } else if i == 0 {
                &[false, true]
            } else {
                &[false]
            }
        } else if ws_only && !blank {
            &[true, false]
        } else {
            &[true]
        };
        let mut next = vec![];
        for c in &cands {
            for o in opts {
                let mut n = c.clone();
                if *o {
                    n.push_str(&prefix);
                }
                n.push_str(line);
                n.push_str(if keep_cr { term } else if term.is_empty() { "" } else { "\n" });
                next.push(n);
            }
        }
        cands = next;
        if cands.len() > 64 {
            cands.truncate(64);
        }
    }
    cands
}

// ------------------------------------------------------------------------------------------------
// values

fn str_of(v: &V) -> Option<&str> {
    match v {
        V::Str(s) | V::Safe(s) => Some(s),
        _ => None,
    }
}

/// `==` as C15 established it: structural, numbers by exact mathematical value.
fn ref_eq(a: &V, b: &V) -> bool {
    match (a.kind(), b.kind()) {
        (Kind::Undef, Kind::Undef) | (Kind::None, Kind::None) => true,
        (Kind::Bool, Kind::Bool) => a == b,
        (Kind::Int | Kind::Float, Kind::Int | Kind::Float) => num_eq(&num_of(a).unwrap(), &num_of(b).unwrap()),
        (Kind::Str, Kind::Str) => str_of(a) == str_of(b),
        (Kind::Bytes, Kind::Bytes) => a == b,
        (Kind::Arr, Kind::Arr) => {
            let (V::Arr(x), V::Arr(y)) = (a, b) else { unreachable!() };
            x.len() == y.len() && x.iter().zip(y).all(|(p, q)| ref_eq(p, q))
        }
        (Kind::Map, Kind::Map) => {
            let (V::Map(x), V::Map(y)) = (a, b) else { unreachable!() };
            x.len() == y.len() && x.iter().all(|(k, v)| y.iter().any(|(k2, v2)| key_matches(k, &k2.as_v()) && ref_eq(v, v2)))
        }
        _ => false,
    }
}

/// Is `pat` the key `k`? (strings by text, bools by value, integers by mathematical value)
fn key_matches(k: &K, pat: &V) -> bool {
    match (k, pat.kind()) {
        (K::Str(s), Kind::Str) => Some(s.as_str()) == str_of(pat),
        (K::Bool(b), Kind::Bool) => V::Bool(*b) == *pat,
        (K::I64(_) | K::U64(_) | K::I128(_) | K::U128(_), Kind::Int) => num_eq(&num_of(&k.as_v()).unwrap(), &num_of(pat).unwrap()),
        _ => false,
    }
}

/// Truthiness where the documentation leaves no doubt.
fn truth_table(v: &V) -> Option<bool> {
    Some(match v {
        V::Undef | V::None => false,
        V::Bool(b) => *b,
        V::I64(i) => *i != 0,
        V::U64(i) => *i != 0,
        V::I128(i) => *i != 0,
        V::U128(i) => *i != 0,
        V::F64(f) if f.is_nan() => return None,
        V::F64(f) => *f != 0.0,
        V::Str(s) | V::Safe(s) => !s.is_empty(),
        V::Arr(a) => !a.is_empty(),
        V::Map(m) => !m.is_empty(),
        V::Bytes(_) => return None,
    })
}

fn arg_int(a: &Option<V>) -> Option<Num> {
    a.as_ref().and_then(|v| match num_of(v) {
        Some(n @ Num::Int(..)) => Some(n),
        _ => None,
    })
}

fn as_i128(n: &Num) -> Option<i128> {
    match n {
        Num::Int(false, m) if *m < 1u128 << 127 => Some(*m as i128),
        Num::Int(true, m) if *m <= 1u128 << 127 => Some((*m as i128).wrapping_neg()),
        _ => None,
    }
}

fn canonical_unordered(s: &str) -> String {
    let mut c: Vec<char> = s.chars().collect();
    c.sort_unstable();
    c.into_iter().collect()
}

/// Built-ins whose output order follows `HashMap` iteration (random per map instance).
pub fn order_dependent(name: &str) -> bool {
    matches!(name, "keys" | "values" | "pairs" | "group_by")
}

/// Comparable form of an outcome (rendered text, or "error").
pub fn coarse(name: &str, out: &Out) -> String {
    match out {
        Out::Ok(s) if order_dependent(name) => format!("Ok~{}", canonical_unordered(s)),
        Out::Ok(s) => format!("Ok({s:?})"),
        Out::Err(..) => "Err".into(),
        Out::Panic(m) => format!("PANIC({m})"),
    }
}

// ------------------------------------------------------------------------------------------------
// the contracts

/// `args` are the keyword arguments in declaration order after resolution (undefined → omitted,
/// integral float → integer); every required argument is present. `err_ok`: an error is an
/// acceptable answer (some argument is outside the documented domain).
pub fn contract(env: &Env, name: &str, is_test: bool, recv: &V, args: &[Option<V>], err_ok: bool, out: &Out) -> Verdict {
    if is_test && name == "float" {
        // the `float` test shares its name with the `float` filter
        return want_text(out, bool_text(recv.kind() == Kind::Float), false, "contract:is-float");
    }
    let sig = format!("contract:{name}");
    let sig = sig.as_str();
    let rs = str_of(recv);
    let arg_str = |i: usize| -> Option<&str> { args.get(i).and_then(|a| a.as_ref()).and_then(str_of) };
    let arg_bool = |i: usize| -> Option<bool> {
        match args.get(i).and_then(|a| a.as_ref()) {
            Some(V::Bool(b)) => Some(*b),
            _ => None,
        }
    };
    let rnum = num_of(recv);
    match name {
        // ---------------------------------------------------------------- filters
        "safe" => {
            let Some(s) = rs else { return Skip };
            // "HTML will not be escaped anymore": unchanged with autoescaping on
            let auto = env.render_auto("{{ v | safe }}", &[("v", recv)]);
            if auto.ok() != Some(s) {
                return fail("contract:safe:escaped", format!("with autoescape on, `v | safe` gave {}, expected the text unchanged", auto.show()));
            }
            want_text(out, s, err_ok, sig)
        }
        "default" => {
            let value = args[0].as_ref().unwrap();
            let boolean = arg_bool(1).unwrap_or(false);
            let chosen = if boolean {
                let truthy = match truth_table(recv) {
                    Some(t) => t,
                    None => env.render("{% if v %}T{% else %}F{% endif %}", &[("v", recv)]).ok() == Some("T"),
                };
                if truthy { recv } else { value }
            } else if *recv == V::Undef {
                value
            } else {
                recv
            };
            if boolean && truth_table(recv) == Some(false) && *recv != V::Undef {
                env.note("disc:default-falsy-replaced");
            }
            want_value(env, out, chosen, err_ok, sig)
        }
        "upper" => match rs {
            Some(s) => want_text(out, &chars_upper(s), err_ok, sig),
            None => Skip,
        },
        "lower" => match (rs, out) {
            (Some(s), Out::Ok(o)) if lower_ok(s, o) => Pass,
            (Some(_), Out::Err(..)) if err_ok => Pass,
            (Some(s), _) => fail(sig, format!("expected the per-character lowercase mapping of {s:?}, got {}", out.show())),
            _ => Skip,
        },
        "capitalize" => {
            let Some(s) = rs else { return Skip };
            let ok = match out {
                Out::Ok(o) => {
                    let mut cs = s.chars();
                    match cs.next() {
                        None => o.is_empty(),
                        Some(f) => {
                            let head: String = f.to_uppercase().collect();
                            o.strip_prefix(head.as_str()).is_some_and(|rest| lower_ok(cs.as_str(), rest))
                        }
                    }
                }
                Out::Err(..) => err_ok,
                _ => false,
            };
            if ok { Pass } else { fail(sig, format!("expected first character uppercased, the others lowercased, got {}", out.show())) }
        }
        "title" => {
            let Some(s) = rs else { return Skip };
            let Some(want) = title_ref(s) else { return Skip };
            if s.contains('\'') && s.chars().zip(s.chars().skip(1)).any(|(a, b)| a == '\'' && b.is_alphabetic()) {
                env.note("disc:title-apostrophe");
            }
            want_text(out, &want, err_ok, sig)
        }
        "wordcount" => {
            let Some(s) = rs else { return Skip };
            want_one_of(out, &[word_count(s, unicode_ws).to_string(), word_count(s, ascii_ws).to_string()], err_ok, sig)
        }
        "escape_html" | "escape_xml" => {
            let Some(s) = rs else { return Skip };
            match out {
                Out::Ok(o) if escaped_ok(s, o) => {
                    if name == "escape_html" && s.contains('\'') && !o.contains("&#x27;") {
                        env.note("note:escape_html-apostrophe-not-spelled-as-documented");
                    }
                    Pass
                }
                Out::Err(..) if err_ok => Pass,
                _ => fail(sig, format!("expected only & < > \" ' replaced by their entities, everything else verbatim; got {}", out.show())),
            }
        }
        "newlines_to_br" => {
            let Some(s) = rs else { return Skip };
            // a lone \r is not in the documented classes (\n, \r\n): either answer is accepted (pinned: <br>)
            want_one_of(out, &[nl_to_br(s, true), nl_to_br(s, false)], err_ok, sig)
        }
        "pluralize" => {
            let singular = arg_str(0).unwrap_or("").to_string();
            let plural = arg_str(1).unwrap_or("s").to_string();
            match rnum {
                Some(Num::Int(neg, m)) => {
                    let n = Num::Int(neg, m);
                    if m == 1 && !neg {
                        want_text(out, &singular, err_ok, sig)
                    } else if m == 1 {
                        // docs: "not equal to 1" (plural); doc comment: "not equal to ±1" (singular)
                        want_one_of(out, &[singular, plural], err_ok, sig)
                    } else {
                        // integers above i128::MAX are outside the engine's arithmetic: Err accepted
                        want_text(out, &plural, err_ok || !fits_i128(&n), sig)
                    }
                }
                Some(Num::Float(_)) => want_one_of(out, &[singular, plural], true, sig),
                None => Skip,
            }
        }
        "trim" | "trim_start" | "trim_end" => {
            let Some(s) = rs else { return Skip };
            let (st, en) = (name != "trim_end", name != "trim_start");
            let wants: Vec<String> = match arg_str(0) {
                None => vec![trim_by(s, st, en, unicode_ws).to_string(), trim_by(s, st, en, ascii_ws).to_string()],
                Some(p) => {
                    let a = {
                        let x = if st { strip_pre(s, p) } else { s };
                        if en { strip_suf(x, p) } else { x }
                    };
                    let b = {
                        let x = if en { strip_suf(s, p) } else { s };
                        if st { strip_pre(x, p) } else { x }
                    };
                    vec![a.to_string(), b.to_string()]
                }
            };
            if let Out::Ok(o) = out {
                if wants[0] != *s && trim_by(s, true, false, unicode_ws).len() != trim_by(s, false, true, unicode_ws).len() && args[0].is_none() {
                    env.note("disc:trim-asymmetric");
                }
                if args[0].is_some() && strip_pre(s, arg_str(0).unwrap()) != strip_suf(s, arg_str(0).unwrap()) {
                    env.note("disc:trim-pat-asymmetric");
                }
                // idempotent
                let src = if args[0].is_some() {
                    format!("{{{{ v | {name}(pat=a0) | {name}(pat=a0) }}}}")
                } else {
                    format!("{{{{ v | {name} | {name} }}}}")
                };
                let p = args[0].clone().unwrap_or(V::Undef);
                let twice = env.render(&src, &[("v", recv), ("a0", &p)]);
                if twice.ok() != Some(o.as_str()) {
                    return fail(&format!("contract:{name}:not-idempotent"), format!("applied once: {o:?}, applied twice: {}", twice.show()));
                }
            }
            want_one_of(out, &wants, err_ok, sig)
        }
        "replace" => {
            let Some(s) = rs else { return Skip };
            let (from, to) = (arg_str(0).unwrap(), arg_str(1).unwrap());
            if from.is_empty() {
                return Skip; // "all instances of the empty string" is not defined by the docs
            }
            want_text(out, &pieces(s, from).join(to), err_ok, sig)
        }
        "truncate" => {
            let Some(s) = rs else { return Skip };
            let Some(Num::Int(neg, len)) = arg_int(&args[0]) else { return Skip };
            if neg {
                return want_err(out, sig, "negative length");
            }
            let end = arg_str(1).unwrap_or("…");
            let n = s.chars().count() as u128;
            if n <= len {
                want_text(out, s, err_ok, sig)
            } else {
                let cut: String = s.chars().take(len as usize).collect();
                if cut.len() != len as usize {
                    env.note("disc:truncate-multibyte-cut");
                }
                want_text(out, &format!("{cut}{end}"), err_ok, sig)
            }
        }
        "indent" => {
            let Some(s) = rs else { return Skip };
            let width = match arg_int(&args[0]) {
                None if args[0].is_none() => 4u128,
                Some(Num::Int(false, w)) => w,
                Some(Num::Int(true, 0)) => 0,
                Some(_) => return want_err(out, sig, "negative width"),
                None => return Skip,
            };
            if width > 1 << 20 {
                return match out {
                    Out::Err(..) => Pass,
                    _ => Skip,
                };
            }
            let (first, blank) = (arg_bool(1).unwrap_or(false), arg_bool(2).unwrap_or(false));
            // doc comment: "Max width of 1000 to avoid DOS" — both the capped and the literal width are accepted
            let widths: Vec<usize> = if width > 1000 { vec![1000, width as usize] } else { vec![width as usize] };
            if s.contains("\r\n") {
                env.note("disc:indent-crlf");
            }
            let Out::Ok(o) = out else {
                return if err_ok { Pass } else { fail(sig, format!("expected the indented text, got {}", out.show())) };
            };
            for w in &widths {
                if indent_candidates(s, *w, first, blank, true).iter().any(|c| c == o) {
                    return Pass;
                }
            }
            if s.contains("\r\n") {
                for w in &widths {
                    if indent_candidates(s, *w, first, blank, false).iter().any(|c| c == o) {
                        return fail(
                            "indent-drops-cr",
                            format!("the input has \\r\\n line terminators; the output {o:?} is the indented text with every \\r\\n degraded to \\n (the \\r is dropped)"),
                        );
                    }
                }
            }
            fail(sig, format!("expected one of {:?}, got {o:?}", indent_candidates(s, widths[0], first, blank, true)))
        }
        "str" => {
            if *recv == V::Undef {
                return want_one_of(out, &[String::new()], true, sig);
            }
            let is_string = env.render("{{ v | str is string }}", &[("v", recv)]);
            if is_string.ok() != Some("true") {
                return fail("contract:str:not-a-string", format!("`v | str is string` gave {}", is_string.show()));
            }
            want_value(env, out, recv, err_ok, sig)
        }
        "int" => {
            let base = match arg_int(&args[0]) {
                None => 10,
                Some(Num::Int(false, b)) if (2..=36).contains(&b) => b as u32,
                Some(_) => {
                    // a base outside 2..=36 is meaningless for a string; other receivers ignore it
                    return if rs.is_some() { want_err(out, sig, "base outside 2..=36") } else { Skip };
                }
            };
            let check_ok = |wants: &[Num], must_ok: bool, allow_err: bool| -> Verdict {
                match out {
                    Out::Ok(o) => match parse_int(o) {
                        Some(n) if wants.iter().any(|w| num_eq(w, &n)) => Pass,
                        _ => fail(sig, format!("expected {} exactly, got {}", wants.iter().map(int_text).collect::<Vec<_>>().join(" or "), out.show())),
                    },
                    Out::Err(..) if allow_err || !must_ok => Pass,
                    _ => fail(sig, format!("expected {}, got {}", wants.iter().map(int_text).collect::<Vec<_>>().join(" or "), out.show())),
                }
            };
            match recv {
                V::Str(s) | V::Safe(s) => match int_of_string(s, base) {
                    IntRef::Exact(n) => {
                        if fits_i128(&n) {
                            check_ok(&[n], true, err_ok)
                        } else {
                            check_ok(&[n], false, true)
                        }
                    }
                    IntRef::Invalid => want_err(out, sig, "the string has no integer reading in this base"),
                    IntRef::Maybe(ns) => check_ok(&ns, false, true),
                },
                V::I64(_) | V::U64(_) | V::I128(_) | V::U128(_) => check_ok(&[rnum.unwrap()], true, err_ok),
                V::F64(f) => match float_as_int(*f) {
                    Some(n) => check_ok(&[n], f.abs() <= 9007199254740992.0, err_ok),
                    None if f.is_finite() && f.fract() == 0.0 => match out {
                        // an integer beyond i128: Err, or an exactly equal integer
                        Out::Ok(o) => match parse_int(o) {
                            Some(n) if num_eq(&n, &Num::Float(*f)) => Pass,
                            _ => fail(sig, format!("expected an error or the exact value of {f:?}, got {}", out.show())),
                        },
                        _ => Pass,
                    },
                    None => want_err(out, sig, "the float is not an integer"),
                },
                _ => Skip,
            }
        }
        "float" => {
            let check = |want: f64, must_ok: bool| -> Verdict {
                match out {
                    Out::Ok(o) => {
                        if parse_int(o).is_some() {
                            return fail("contract:float:not-a-float", format!("expected a float rendering of {want:?}, got {}", out.show()));
                        }
                        match o.parse::<f64>() {
                            Ok(g) if same_float(g, want) => Pass,
                            _ => fail(sig, format!("expected {want:?}, got {}", out.show())),
                        }
                    }
                    Out::Err(..) if !must_ok || err_ok => Pass,
                    _ => fail(sig, format!("expected {want:?}, got {}", out.show())),
                }
            };
            match recv {
                V::Str(s) | V::Safe(s) => {
                    if strict_float_syntax(s) {
                        check(s.parse::<f64>().unwrap(), true)
                    } else if let Ok(f) = s.trim().parse::<f64>() {
                        check(f, false)
                    } else if !s.bytes().any(|b| b.is_ascii_digit()) {
                        want_err(out, sig, "the string is not a number")
                    } else {
                        Skip
                    }
                }
                V::F64(f) => check(*f, true),
                V::I64(i) => check(*i as f64, i.unsigned_abs() <= 1 << 53),
                V::U64(i) => check(*i as f64, *i <= 1 << 53),
                V::I128(i) => check(*i as f64, i.unsigned_abs() <= 1 << 53),
                V::U128(i) => check(*i as f64, *i <= 1 << 53),
                _ => Skip,
            }
        }
        "abs" => match (recv, rnum) {
            (_, Some(Num::Int(neg, m))) => {
                if neg && m > (i64::MAX as u128) {
                    env.note("disc:abs-beyond-i64");
                }
                // |i128::MIN| does not fit i128: Err accepted there
                want_text(out, &m.to_string(), err_ok || (neg && m == 1u128 << 127), sig)
            }
            (V::F64(f), _) => want_value(env, out, &V::F64(f64::from_bits(f.to_bits() & !(1u64 << 63))), err_ok, sig),
            _ => Skip,
        },
        "round" => {
            let method = match arg_str(0) {
                None => 'n',
                Some("ceil") => 'c',
                Some("floor") => 'f',
                Some("common") => 'n', // v1 name of the default (MIGRATION.md); err_ok is set for it
                Some(_) => return want_err(out, sig, "method is neither ceil nor floor"),
            };
            let p: i128 = match arg_int(&args[1]) {
                None => 0,
                Some(n) => match as_i128(&n) {
                    Some(p) => p,
                    None => return want_err(out, sig, "precision out of range"),
                },
            };
            let in_i32 = p >= i32::MIN as i128 && p <= i32::MAX as i128;
            let Some(n) = rnum else { return Skip };
            let vf = match n {
                Num::Float(f) => f,
                Num::Int(neg, m) => {
                    let f = m as f64;
                    if neg { -f } else { f }
                }
            };
            // 10^p or value * 10^p leaves the range of normal doubles (overflow, or underflow to a subnormal /
            // zero): refusing such a call is acceptable, a wrong number is not
            let overflow_class = p != 0 && {
                let m = 10f64.powi(p.clamp(i32::MIN as i128, i32::MAX as i128) as i32);
                !m.is_finite() || m == 0.0 || !(m * vf).is_finite() || (vf != 0.0 && (m * vf).abs() < f64::MIN_POSITIVE)
            };
            let err_ok = err_ok || !in_i32 || overflow_class;
            let Out::Ok(o) = out else {
                return if err_ok { Pass } else { fail(sig, format!("expected a number, got {}", out.show())) };
            };
            let Ok(got) = o.parse::<f64>() else {
                return fail(sig, format!("expected a number, got {}", out.show()));
            };
            let bad = |why: String| -> Verdict {
                if overflow_class {
                    fail("contract:round:not-exact:overflow", why)
                } else {
                    fail("contract:round:not-exact", why)
                }
            };
            if vf.is_nan() {
                return if got.is_nan() { Pass } else { bad(format!("expected NaN, got {o}")) };
            }
            if vf.is_infinite() {
                // at precision 0 nothing is scaled: inf stays inf. With a scale the docs say nothing about
                // infinities (inf * 0 is NaN): the same infinity or NaN, never a finite number
                return if got == vf || (p != 0 && got.is_nan()) { Pass } else { bad(format!("rounding {vf:?} must give {vf:?}, got {o}")) };
            }
            let req = match n {
                Num::Int(..) => format!("i {} {method} {p}", int_text(&n)),
                Num::Float(f) => format!("b {} {method} {p}", f.to_bits()),
            };
            let ans = env.ask_py(req.clone());
            let cands: Vec<f64> = ans.split_whitespace().filter_map(|b| b.parse::<u64>().ok()).map(f64::from_bits).collect();
            if cands.is_empty() {
                return fail("machinery:round-oracle", format!("python oracle answered {ans:?} to {req:?}"));
            }
            let tol: i128 = if p == 0 { 0 } else if (1..=22).contains(&p) { 1 } else { 2 };
            if got.is_finite() && cands.iter().any(|c| c.is_finite() && (ord_bits(*c) - ord_bits(got)).abs() <= tol)
                || cands.iter().any(|c| c.is_infinite() && *c == got)
            {
                if p == 0 && matches!(n, Num::Float(f) if f.fract().abs() == 0.5) {
                    env.note("disc:round-tie");
                }
                Pass
            } else {
                bad(format!(
                    "the exactly rounded result ({} at {p} decimal places) is {cands:?} (tolerance {tol} ulp), got {o}",
                    match method {
                        'c' => "ceil",
                        'f' => "floor",
                        _ => "nearest, ties away from zero",
                    }
                ))
            }
        }
        "length" => match recv {
            V::Str(s) | V::Safe(s) => want_text(out, &s.chars().count().to_string(), err_ok, sig),
            V::Arr(a) => want_text(out, &a.len().to_string(), err_ok, sig),
            V::Map(m) => want_text(out, &m.len().to_string(), err_ok, sig),
            V::Bytes(b) => want_text(out, &b.len().to_string(), err_ok, sig),
            _ => Skip,
        },
        "reverse" => match recv {
            V::Str(s) | V::Safe(s) => want_text(out, &s.chars().rev().collect::<String>(), err_ok, sig),
            V::Arr(a) => want_value(env, out, &V::Arr(a.iter().rev().cloned().collect()), err_ok, sig),
            _ => Skip,
        },
        "split" => {
            let Some(s) = rs else { return Skip };
            let pat = arg_str(0).unwrap();
            if pat.is_empty() {
                return Skip;
            }
            want_value(env, out, &V::Arr(pieces(s, pat).into_iter().map(V::s).collect()), err_ok, sig)
        }
        "first" | "last" | "nth" => {
            let V::Arr(a) = recv else { return Skip };
            let el = match name {
                "first" => a.first(),
                "last" => a.last(),
                _ => match arg_int(&args[0]) {
                    Some(Num::Int(true, m)) if m != 0 => return want_err(out, sig, "negative index"),
                    Some(Num::Int(_, m)) => usize::try_from(m).ok().and_then(|i| a.get(i)),
                    _ => return Skip,
                },
            };
            want_value(env, out, el.unwrap_or(&V::None), err_ok, sig)
        }
        "join" => {
            let V::Arr(a) = recv else { return Skip };
            let sep = arg_str(0).unwrap_or("");
            let mut parts = vec![];
            for e in a {
                match env.shown(e) {
                    Out::Ok(t) => parts.push(t),
                    _ => return Skip,
                }
            }
            want_text(out, &parts.join(sep), err_ok, sig)
        }
        "sort" | "unique" => match recv {
            V::Arr(a) if a.len() <= 1 && args.iter().all(|x| x.is_none()) => want_value(env, out, recv, err_ok, sig),
            // plain `sort`: two elements (none aside) that are not mutually comparable, wherever they
            // stand in the input, must be refused (the order of what is accepted is C16's)
            V::Arr(a) if name == "sort" && args.iter().all(|x| x.is_none()) => {
                let els: Vec<&V> = a.iter().filter(|e| **e != V::None).collect();
                let incomparable = (0..els.len()).any(|i| (i + 1..els.len()).any(|j| c16refs::ref_pcmp(els[i], els[j]).is_none()));
                if incomparable { want_err(out, sig, "two elements are not mutually comparable") } else { Skip }
            }
            _ => Skip, // C16
        },
        "get" => {
            let V::Map(m) = recv else { return Skip };
            let key = arg_str(0).unwrap();
            match m.iter().find(|(k, _)| matches!(k, K::Str(s) if s == key)) {
                Some((_, v)) => want_value(env, out, v, err_ok, sig),
                None => match &args[1] {
                    Some(d) => want_value(env, out, d, err_ok, sig),
                    None => want_err(out, sig, "key absent and no default"),
                },
            }
        }
        "keys" | "values" | "pairs" => {
            let V::Map(m) = recv else { return Skip };
            if m.len() <= 1 {
                let items: Vec<V> = m
                    .iter()
                    .map(|(k, v)| match name {
                        "keys" => k.as_v(),
                        "values" => v.clone(),
                        _ => V::Arr(vec![k.as_v(), v.clone()]),
                    })
                    .collect();
                return want_value(env, out, &V::Arr(items), err_ok, sig);
            }
            let n = env.render(&format!("{{{{ v | {name} | length }}}}"), &[("v", recv)]);
            if n.ok() != Some(m.len().to_string().as_str()) {
                return fail(sig, format!("`v | {name} | length` gave {}, the map has {} entries", n.show(), m.len()));
            }
            if out.is_ok() || err_ok { Pass } else { fail(sig, format!("expected an array, got {}", out.show())) }
        }
        "group_by" => Skip, // C16

        // ---------------------------------------------------------------- tests
        "string" => want_text(out, bool_text(recv.kind() == Kind::Str), false, sig),
        "number" => want_text(out, bool_text(matches!(recv.kind(), Kind::Int | Kind::Float)), false, sig),
        "map" => want_text(out, bool_text(recv.kind() == Kind::Map), false, sig),
        "bool" => want_text(out, bool_text(recv.kind() == Kind::Bool), false, sig),
        "array" => want_text(out, bool_text(recv.kind() == Kind::Arr), false, sig),
        "integer" => {
            if matches!(recv, V::F64(f) if f.is_finite() && f.fract() == 0.0) {
                env.note("disc:integer-on-integral-float");
            }
            want_text(out, bool_text(recv.kind() == Kind::Int), false, sig)
        }
        "none" => want_text(out, bool_text(recv.kind() == Kind::None), false, sig),
        "iterable" => want_text(out, bool_text(matches!(recv.kind(), Kind::Str | Kind::Arr | Kind::Map | Kind::Bytes)), false, sig),
        "defined" => want_text(out, bool_text(*recv != V::Undef), false, sig),
        "undefined" => want_text(out, bool_text(*recv == V::Undef), false, sig),
        "odd" | "even" => {
            let parity = |m: u128| bool_text((m % 2 == 1) == (name == "odd"));
            match rnum {
                Some(n @ Num::Int(_, m)) => want_text(out, parity(m), err_ok || !fits_i128(&n), sig),
                Some(Num::Float(f)) => match float_as_int(f) {
                    Some(Num::Int(_, m)) => want_one_of(out, &[parity(m).to_string()], true, sig),
                    _ if f.is_finite() && f.fract() == 0.0 => Skip,
                    _ => false_or_err(out, sig, "not an integer"),
                },
                None => false_or_err(out, sig, "not a number"),
            }
        }
        "divisible_by" => {
            let Some(Num::Int(_, d)) = arg_int(&args[0]) else { return Skip };
            let d_fits = fits_i128(&arg_int(&args[0]).unwrap());
            match rnum {
                Some(n @ Num::Int(_, m)) => {
                    if d == 0 {
                        return false_or_err(out, sig, "division by zero");
                    }
                    want_text(out, bool_text(m % d == 0), err_ok || !fits_i128(&n) || !d_fits, sig)
                }
                Some(Num::Float(f)) => match float_as_int(f) {
                    Some(Num::Int(_, m)) if d != 0 => want_one_of(out, &[bool_text(m % d == 0).to_string()], true, sig),
                    Some(_) => false_or_err(out, sig, "division by zero"),
                    None if f.is_finite() && f.fract() == 0.0 => Skip,
                    None => false_or_err(out, sig, "not an integer"),
                },
                None => false_or_err(out, sig, "not a number"),
            }
        }
        "starting_with" | "ending_with" => {
            let pat = arg_str(0).unwrap();
            let Some(s) = rs else { return false_or_err(out, sig, "the receiver is not a string") };
            let (sb, pb) = (s.as_bytes(), pat.as_bytes());
            let yes = sb.len() >= pb.len() && if name == "starting_with" { &sb[..pb.len()] == pb } else { &sb[sb.len() - pb.len()..] == pb };
            want_text(out, bool_text(yes), err_ok, sig)
        }
        "containing" => {
            let pat = args[0].as_ref().unwrap();
            match recv {
                V::Str(s) | V::Safe(s) => match str_of(pat) {
                    Some(p) => {
                        let yes = p.is_empty() || pieces(s, p).len() > 1;
                        want_text(out, bool_text(yes), err_ok, sig)
                    }
                    // on a string receiver `pat` is a substring, i.e. a string: any other kind is a
                    // mistyped argument and "mistyped arguments are reported as such" (seeded change
                    // C17-3 answered `false` like the `in` operator does)
                    None if *pat != V::Undef => want_err(out, sig, "on a string receiver `pat` must be a string; a mistyped argument is reported"),
                    None => false_or_err(out, sig, "an undefined argument cannot be a substring"),
                },
                V::Arr(a) => {
                    if *pat == V::Undef {
                        return false_or_err(out, sig, "undefined is not a member");
                    }
                    want_text(out, bool_text(a.iter().any(|e| ref_eq(e, pat))), err_ok, sig)
                }
                V::Map(m) => {
                    let yes = m.iter().any(|(k, _)| key_matches(k, pat));
                    if yes {
                        want_text(out, "true", err_ok, sig)
                    } else if matches!(pat.kind(), Kind::Str | Kind::Bool | Kind::Int) {
                        want_text(out, "false", err_ok, sig)
                    } else {
                        false_or_err(out, sig, "the argument cannot be a key")
                    }
                }
                _ => false_or_err(out, sig, "the receiver is not a container"),
            }
        }

        // ---------------------------------------------------------------- functions
        "range" => {
            let get = |i: usize, dflt: i128| -> Result<i128, ()> {
                match &args[i] {
                    None => Ok(dflt),
                    Some(_) => arg_int(&args[i]).and_then(|n| as_i128(&n)).ok_or(()),
                }
            };
            let (Ok(start), Ok(end), Ok(step)) = (get(0, 0), get(1, 0), get(2, 1)) else {
                return want_err(out, sig, "an argument does not fit i128");
            };
            if step == 0 {
                return want_err(out, sig, "step_by is 0");
            }
            if start > end && step > 0 {
                return want_err(out, sig, "start > end with a positive step");
            }
            let big = [start, end, step].iter().any(|x| x.unsigned_abs() >= 1u128 << 126);
            let mut xs: Vec<i128> = vec![];
            let mut x = start;
            loop {
                if (step > 0 && x >= end) || (step < 0 && x <= end) {
                    break;
                }
                xs.push(x);
                if xs.len() > RANGE_CAP + 1 {
                    break;
                }
                match x.checked_add(step) {
                    Some(n) => x = n,
                    None => break,
                }
            }
            if xs.len() > RANGE_CAP {
                env.note("disc:range-over-cap");
                return want_err(out, "contract:range:cap", "more than 100000 elements");
            }
            if xs.len() == RANGE_CAP {
                env.note("disc:range-at-cap");
            }
            if step < 0 && !xs.is_empty() {
                env.note("disc:range-countdown");
            }
            let want = format!("[{}]", xs.iter().map(|x| x.to_string()).collect::<Vec<_>>().join(", "));
            match out {
                Out::Ok(o) if *o == want => Pass,
                Out::Err(..) if err_ok || big => Pass,
                _ => {
                    let short = |s: &str| -> String {
                        if s.len() > 120 { format!("{}… ({} bytes)", s.chars().take(120).collect::<String>(), s.len()) } else { s.to_string() }
                    };
                    let got = match out {
                        Out::Ok(o) => format!("Ok({})", short(o)),
                        o => o.show(),
                    };
                    fail(sig, format!("expected {} ({} elements), got {got}", short(&want), xs.len()))
                }
            }
        }
        "throw" => match out {
            Out::Err(_, m) => {
                let msg = arg_str(0).unwrap();
                if m.contains(msg) { Pass } else { fail("contract:throw:message-lost", format!("the error {m:?} does not carry the message {msg:?}")) }
            }
            _ => fail(sig, format!("expected an error, got {}", out.show())),
        },
        _ => Skip,
    }
}

#[cfg(test)]
mod tests {
    use super::*;

    // the worked examples of the documentation, so that the reference is tied to the documented intent
    #[test]
    fn doc_examples() {
        assert_eq!(title_ref("foo  bar").unwrap(), "Foo  Bar");
        assert_eq!(title_ref("foo's bar").unwrap(), "Foo's Bar");
        assert_eq!(title_ref("FOO\tBAR").unwrap(), "Foo\tBar");
        assert_eq!(nl_to_br("Hello\r\nworld\n", true), "Hello<br>world<br>");
        assert!(escaped_ok("a&'", "a&amp;&#x27;"));
        assert!(!escaped_ok("a<", "a<"));
        assert_eq!(pieces("aXbXa", "X"), vec!["a", "b", "a"]);
        assert_eq!(indent_candidates("a\nb\n", 4, false, false, true), vec!["a\n    b\n"]);
        assert_eq!(indent_candidates("a\r\n\r\nb", 2, true, true, true), vec!["  a\r\n  \r\n  b"]);
        assert_eq!(trim_by(" a\tb\n", true, true, unicode_ws), "a\tb");
        assert_eq!(strip_suf(strip_pre("aaxaa", "a"), "a"), "x");
        assert!(matches!(int_of_string("0b1010", 2), IntRef::Exact(Num::Int(false, 10))));
        assert!(matches!(int_of_string("hello", 10), IntRef::Invalid));
        assert!(matches!(int_of_string("1.5", 10), IntRef::Invalid));
        assert!(matches!(int_of_string("1.00", 10), IntRef::Maybe(_)));
    }
}
