//! C10, the glob entry points (`Tera::load_from_glob`, `Tera::full_reload`; cargo feature
//! `glob_fs`): a call that fails leaves everything as before, a call that succeeds leaves exactly
//! the manual templates plus the files of the glob - judged like every other history of C10, by a
//! fresh instance that is given the resulting set through `add_raw_templates`.
//!
//! Directories (written once by the supervisor under the scratch directory):
//!   g1  a.html (block t), comps.html (component X), sub/s.html
//!   g2  a.html including b.html, b.html
//!   g3  a.html with a syntax error, b.html                       refused: a file does not parse
//!   g4  c.html extending a template nobody has                   refused: dangling parent
//!   g5  d.html extending the MANUAL template m.html             valid only after `manual m.html`
//!   g6  comps.html (another X), a.html calling X
//! Operations: load_from_glob(gK/**/*.html) for the six; a pattern without `*`; a pattern that does
//! not build (`*.{html`); a pattern that matches nothing; full_reload; three manual templates
//! (m.html; z.html including a.html; y.html calling X) that are valid only next to the right glob.
//! (Seeded change C10-10 returned from a refused pattern before the previous templates and the
//! previous glob were put back.)
//!
//! Files that CHANGE between calls (ops `changing_ops`): one more directory, private to the worker
//! process, whose content is one of five variants - two valid sets, one with a file that stopped
//! parsing, one that lost `a.html`, one with no file at all. `Disk(v)` switches the variant (no
//! engine call); `load_from_glob` of that directory and `full_reload` then find what is there, so
//! a reload can be refused and a later reload (after the file is repaired) must work again.
//! (Seeded changes C10-11: a refused `full_reload` lost the glob; C11-11: a glob that matches no
//! file at all was accepted without validating the manual templates that depend on it.)

use mccore::engine::{self, Out};
use mccore::{Acc, Json, json};
use std::collections::{BTreeMap, HashMap};
use std::path::{Path, PathBuf};
use tera::{Context, Tera};

pub const DIRS: [(&str, &[(&str, &str)]); 6] = [
    (
        "g1",
        &[
            ("a.html", "{% block t %}A1{{ v }}{% endblock %}"),
            ("comps.html", "{% component X(label) %}x1({{ label }}){% endcomponent X %}"),
            ("sub/s.html", "S1"),
        ],
    ),
    ("g2", &[("a.html", "A2[{% include \"b.html\" %}]"), ("b.html", "B2")]),
    ("g3", &[("a.html", "{% if %}"), ("b.html", "B3")]),
    ("g4", &[("c.html", "{% extends \"nope.html\" %}")]),
    ("g5", &[("d.html", "{% extends \"m.html\" %}{% block t %}D5{% endblock %}")]),
    (
        "g6",
        &[
            ("comps.html", "{% component X(label, kind=\"k\") %}x6({{ label }}{{ kind }}){% endcomponent X %}"),
            ("a.html", "A6{{ <X label={v} /> }}"),
        ],
    ),
];

pub const MANUAL: [(&str, &str); 4] = [
    ("m.html", "{% block t %}M{% endblock %}|{{ v }}"),
    ("z.html", "Z[{% include \"a.html\" %}]"),
    ("y.html", "Y{{ <X label={v} /> }}"),
    // a name the globs carry too, with the very text the private directory's first variant has:
    // added by hand AFTER a load it replaces the glob's template and is from then on a hand-added
    // one (it survives the next load even when the file is gone); a later load that finds a file of
    // that name replaces it in turn. (Seeded change C10-12 made add_raw_template return early when
    // name and text were already registered - the template stayed the glob's.)
    ("a.html", "A0"),
];
/// index of the hand-added template whose name the globs carry too
pub const SHARED_NAME: usize = 3;

const UNIVERSE: [&str; 9] =
    ["a.html", "b.html", "c.html", "d.html", "comps.html", "sub/s.html", "m.html", "z.html", "y.html"];

#[derive(Clone, Copy, Debug, PartialEq, Eq)]
pub enum Op {
    Glob(usize),
    NoStar,
    Unbuildable,
    MatchesNothing,
    Reload,
    Manual(usize),
    /// load_from_glob of the worker's private directory (whatever variant is on disk)
    GlobChanging,
    /// rewrite the private directory to variant v (no engine call)
    Disk(usize),
}

/// The variants of the private directory.
pub const VARIANTS: [(&str, &[(&str, &str)]); 5] = [
    ("valid", &[("a.html", "A0"), ("b.html", "B0")]),
    ("a.html stopped parsing", &[("a.html", "{% if %}"), ("b.html", "B0")]),
    ("a.html removed", &[("b.html", "B0")]),
    ("no file at all", &[]),
    ("valid, other content", &[("a.html", "A4[{% include \"b.html\" %}]"), ("b.html", "B4")]),
];

/// Operations of the family with changing files.
pub fn changing_ops() -> Vec<Op> {
    let mut v = vec![Op::GlobChanging, Op::Glob(0), Op::Reload, Op::NoStar, Op::Manual(1), Op::Manual(SHARED_NAME)];
    v.extend((0..VARIANTS.len()).map(Op::Disk));
    v
}

pub fn ops() -> Vec<Op> {
    let mut v: Vec<Op> = (0..DIRS.len()).map(Op::Glob).collect();
    v.extend([Op::NoStar, Op::Unbuildable, Op::MatchesNothing, Op::Reload]);
    v.extend((0..MANUAL.len()).map(Op::Manual));
    v
}

/// What the instance is expected to hold: which manual templates, and which glob.
#[derive(Clone, Copy, Debug, PartialEq, Eq, Hash, Default)]
pub struct State {
    pub manual: u8,
    /// 0 none, 1 + k = directory k, 254 = the private directory, 255 = the pattern that matches nothing
    pub glob: u8,
    /// variant of the private directory currently on disk
    pub disk: u8,
    /// variant of the private directory the instance loaded last (meaningful when glob == 254)
    pub loaded: u8,
}

impl State {
    /// The files of the current glob.
    pub fn glob_files(&self) -> &'static [(&'static str, &'static str)] {
        match self.glob {
            254 => VARIANTS[self.loaded as usize].1,
            k if (1..=DIRS.len() as u8).contains(&k) => DIRS[k as usize - 1].1,
            _ => &[],
        }
    }
    pub fn templates(&self) -> Vec<(String, String)> {
        let mut m: BTreeMap<String, String> = BTreeMap::new();
        for (n, s) in self.glob_files() {
            m.insert(n.to_string(), s.to_string());
        }
        // a hand-added template is in the model only while it is the newer one
        for (i, (n, s)) in MANUAL.iter().enumerate() {
            if self.manual & (1 << i) != 0 {
                m.insert(n.to_string(), s.to_string());
            }
        }
        m.into_iter().collect()
    }
    /// After a successful load: a file of the glob replaces a hand-added template of the same name.
    fn loaded_over_manual(mut self) -> State {
        if self.glob_files().iter().any(|(n, _)| *n == MANUAL[SHARED_NAME].0) {
            self.manual &= !(1 << SHARED_NAME);
        }
        self
    }
    pub fn json(&self) -> Json {
        json!({
            "manual_templates": MANUAL.iter().enumerate().filter(|(i, _)| self.manual & (1 << i) != 0).map(|(_, (n, _))| *n).collect::<Vec<_>>(),
            "glob": match self.glob { 0 => "none".to_string(), 255 => "matches nothing".to_string(), 254 => format!("<private>/**/*.html, loaded when the directory held variant {} ({})", self.loaded, VARIANTS[self.loaded as usize].0), k => format!("{}/**/*.html", DIRS[k as usize - 1].0) },
            "private_directory_on_disk": format!("variant {} ({})", self.disk, VARIANTS[self.disk as usize].0),
        })
    }
}

pub struct Store {
    pub root: PathBuf,
    /// the worker's private directory and the variant it holds (None: not written yet)
    private: PathBuf,
    on_disk: std::cell::Cell<Option<u8>>,
}

impl Store {
    /// Writes the directories (idempotent: same bytes every time).
    pub fn create(root: &Path) -> Store {
        for (d, files) in DIRS {
            for (name, src) in files {
                let p = root.join(d).join(name);
                std::fs::create_dir_all(p.parent().unwrap()).expect("scratch directory for the glob API");
                if std::fs::read_to_string(&p).ok().as_deref() != Some(*src) {
                    std::fs::write(&p, src).expect("write glob file");
                }
            }
        }
        Store { root: root.to_path_buf(), private: root.join(format!("private-{}", std::process::id())), on_disk: std::cell::Cell::new(None) }
    }
    /// Makes the private directory hold variant `v`.
    pub fn sync(&self, v: u8) {
        if self.on_disk.get() == Some(v) {
            return;
        }
        let _ = std::fs::remove_dir_all(&self.private);
        std::fs::create_dir_all(&self.private).expect("private glob directory");
        for (name, src) in VARIANTS[v as usize].1 {
            std::fs::write(self.private.join(name), src).expect("write private glob file");
        }
        self.on_disk.set(Some(v));
    }
    pub fn cleanup(&self) {
        let _ = std::fs::remove_dir_all(&self.private);
    }
    pub fn pattern(&self, op: Op) -> Option<String> {
        let r = self.root.to_string_lossy();
        match op {
            Op::Glob(k) => Some(format!("{r}/{}/**/*.html", DIRS[k].0)),
            Op::NoStar => Some(format!("{r}/g1")),
            Op::Unbuildable => Some(format!("{r}/g1/*.{{html")),
            Op::MatchesNothing => Some(format!("{r}/g1/*.nothing")),
            Op::GlobChanging => Some(format!("{}/**/*.html", self.private.to_string_lossy())),
            _ => None,
        }
    }
}

pub fn op_json(op: Op) -> Json {
    match op {
        Op::Glob(k) => json!({"op": "load_from_glob", "pattern": format!("<scratch>/{}/**/*.html", DIRS[k].0), "files": DIRS[k].1.iter().map(|(n, s)| json!({"name": n, "source": s})).collect::<Vec<_>>()}),
        Op::NoStar => json!({"op": "load_from_glob", "pattern": "<scratch>/g1", "note": "no `*`: not a glob"}),
        Op::Unbuildable => json!({"op": "load_from_glob", "pattern": "<scratch>/g1/*.{html", "note": "unclosed alternation: the pattern does not build"}),
        Op::MatchesNothing => json!({"op": "load_from_glob", "pattern": "<scratch>/g1/*.nothing", "note": "a valid pattern no file matches"}),
        Op::Reload => json!({"op": "full_reload"}),
        Op::GlobChanging => json!({"op": "load_from_glob", "pattern": "<private>/**/*.html", "note": "finds the variant that is on disk at that moment"}),
        Op::Disk(v) => json!({"op": "files on disk change (no engine call)", "private_directory_becomes": VARIANTS[v].0, "files": VARIANTS[v].1.iter().map(|(n, s)| json!({"name": n, "source": s})).collect::<Vec<_>>()}),
        Op::Manual(i) => json!({"op": "add_raw_template", "name": MANUAL[i].0, "source": MANUAL[i].1}),
    }
}

pub fn apply(t: &mut Tera, store: &Store, st: State, op: Op) -> Out {
    if let Op::Disk(_) = op {
        return Out::Ok(String::new());
    }
    // what load_from_glob / full_reload find in the private directory
    store.sync(st.disk);
    engine::to_out_unit(engine::guarded(|| match op {
        Op::Reload => t.full_reload(),
        Op::Manual(i) => t.add_raw_template(MANUAL[i].0, MANUAL[i].1),
        other => t.load_from_glob(&store.pattern(other).unwrap()),
    }))
}

/// The state the call asks for (None: the call cannot succeed whatever the templates are).
pub fn requested(st: State, op: Op) -> Option<State> {
    match op {
        Op::Glob(k) => Some(State { glob: k as u8 + 1, ..st }.loaded_over_manual()),
        Op::MatchesNothing => Some(State { glob: 255, ..st }),
        Op::NoStar | Op::Unbuildable => None,
        Op::Reload => (st.glob != 0).then_some(State { loaded: if st.glob == 254 { st.disk } else { st.loaded }, ..st }.loaded_over_manual()),
        Op::GlobChanging => Some(State { glob: 254, loaded: st.disk, ..st }.loaded_over_manual()),
        Op::Disk(v) => Some(State { disk: v as u8, ..st }),
        Op::Manual(i) => Some(State { manual: st.manual | (1 << i), ..st }),
    }
}

pub type Obs = Vec<String>;

fn coarse(o: Out) -> String {
    match o {
        Out::Ok(s) => format!("Ok({s})"),
        Out::Err(k, _) => format!("Err[{k}]"),
        Out::Panic(m) => format!("PANIC({m})"),
    }
}

pub fn obs_labels() -> Vec<String> {
    let mut l = vec!["get_template_names (sorted)".to_string()];
    for n in UNIVERSE {
        l.push(format!("render({n})"));
        l.push(format!("render_block({n}, t)"));
    }
    l.push("get_component_definition(X): declared parameters".into());
    l.push("render_component(X, {label}, autoescape=true)".into());
    l.push("render_str(\"{{ <X label={v} /> }}\", autoescape=true)".into());
    l
}

pub fn observe(t: &Tera) -> Obs {
    let mut ctx = Context::new();
    ctx.insert("v", "<v&>");
    let mut comp_ctx = Context::new();
    comp_ctx.insert("label", "<l&>");
    let mut o = vec![];
    let mut names: Vec<&str> = t.get_template_names().collect();
    names.sort();
    o.push(names.join(","));
    for n in UNIVERSE {
        o.push(coarse(engine::render(t, n, &ctx)));
        o.push(coarse(engine::render_block(t, n, "t", &ctx)));
    }
    o.push(match engine::guarded(|| {
        t.get_component_definition("X")
            .map(|d| d.args().iter().map(|a| a.name().to_string()).collect::<Vec<_>>().join(","))
    }) {
        Ok(Some(s)) => format!("X({s})"),
        Ok(None) => "None".into(),
        Err(p) => format!("PANIC({p})"),
    });
    o.push(coarse(engine::to_out(engine::guarded(|| t.render_component("X", &comp_ctx, None, true)))));
    o.push(coarse(engine::render_str(t, "{{ <X label={v} /> }}", &ctx, true)));
    o
}

/// Fresh-instance oracle: is the state a valid template set, and what does it look like.
#[derive(Default)]
pub struct Oracle {
    cache: HashMap<State, Option<Obs>>,
}

impl Oracle {
    pub fn fresh(&mut self, st: State) -> &Option<Obs> {
        // the templates of a state do not depend on what is on disk now
        let st = State { disk: 0, loaded: if st.glob == 254 { st.loaded } else { 0 }, ..st };
        self.cache.entry(st).or_insert_with(|| {
            let mut t = Tera::default();
            match engine::add_templates(&mut t, &st.templates()) {
                Out::Ok(_) => Some(observe(&t)),
                _ => None,
            }
        })
    }
}

// ---------------------------------------------------------------------------------- explorer

/// Depth-first exploration of every history over `ops`; every call is judged.
pub struct Explorer<'a> {
    pub family: &'static str,
    pub store: &'a Store,
    pub oracle: Oracle,
    pub labels: Vec<String>,
    pub ops: &'a [Op],
    pub counts: BTreeMap<&'static str, u64>,
}

fn opname(op: Op) -> &'static str {
    match op {
        Op::Glob(_) | Op::NoStar | Op::Unbuildable | Op::MatchesNothing | Op::GlobChanging => "load_from_glob",
        Op::Reload => "full_reload",
        Op::Manual(_) => "add_raw_template",
        Op::Disk(_) => "files-change",
    }
}

impl<'a> Explorer<'a> {
    pub fn new(family: &'static str, store: &'a Store, ops: &'a [Op]) -> Explorer<'a> {
        Explorer { family, store, oracle: Oracle::default(), labels: obs_labels(), ops, counts: BTreeMap::new() }
    }

    /// Executes `op` on a copy of `t`; returns the new instance and the state the model expects.
    pub fn step(&mut self, acc: &mut Acc, t: &Tera, st: State, hist: &mut Vec<(Op, bool)>, op: Op, count: bool) -> (Tera, State) {
        let fam = self.family;
        let mut t2 = t.clone();
        let out = apply(&mut t2, self.store, st, op);
        let want_state = requested(st, op).filter(|r| self.oracle.fresh(*r).is_some());
        let expected_state = want_state.unwrap_or(st);
        hist.push((op, out.is_ok()));
        let case = |extra: Json| {
            let mut j = json!({
                "family": fam,
                "history": hist.iter().map(|(o, ok)| { let mut j = op_json(*o); j.as_object_mut().unwrap().insert("returned".into(), json!(if *ok { "Ok" } else { "Err" })); j }).collect::<Vec<_>>(),
                "state_before_last_call": st.json(),
                "expected_state_after": expected_state.json(),
            });
            j.as_object_mut().unwrap().insert("details".into(), extra);
            j
        };
        let opname = opname(op);
        let mut class: &'static str = if out.is_ok() { "accepted" } else { "refused" };
        match (&out, want_state.is_some()) {
            (Out::Panic(p), _) => {
                acc.violation(format!("{fam}:panic:{opname}"), format!("{opname} panicked: {p}"), || case(json!({})));
                class = "panic";
            }
            (Out::Ok(_), false) => {
                acc.violation(format!("{fam}:accepted-invalid:{opname}"), format!("{opname} returned Ok although the requested template set is refused by a fresh instance (or the call cannot succeed)"), || case(json!({})));
                class = "wrongly-accepted";
            }
            (Out::Err(..), true) => {
                acc.violation(format!("{fam}:refused-valid:{opname}"), format!("{opname} failed ({}) although a fresh instance accepts the requested template set", out.show()), || case(json!({})));
                class = "wrongly-refused";
            }
            _ => {}
        }
        let obs = observe(&t2);
        let want = self.oracle.fresh(expected_state).clone().expect("the expected state is valid by construction");
        if obs != want {
            let i = (0..obs.len()).find(|i| obs[*i] != want[*i]).unwrap();
            let what = if out.is_ok() { "after-accepted" } else { "after-refused" };
            let labels = &self.labels;
            acc.violation(
                format!("{fam}:{what}:{opname}:{}", labels[i].split('(').next().unwrap_or("")),
                format!("after {opname} returned {}, {} gives {} but a fresh instance holding the expected state gives {}", if out.is_ok() { "Ok" } else { "Err" }, labels[i], obs[i], want[i]),
                || case(json!({"differences": (0..obs.len()).filter(|i| obs[*i] != want[*i]).map(|i| json!({"call": labels[i], "observed": obs[i], "fresh_instance": want[i]})).collect::<Vec<_>>()})),
            );
            class = "wrong-observation";
        }
        if count && !matches!(op, Op::Disk(_)) {
            acc.case(true, class);
            let nonempty = st.manual != 0 || st.glob != 0;
            let key: &'static str = match (out.is_ok(), nonempty) {
                (true, _) => "glob_api_ok",
                (false, true) => "glob_api_err_on_nonempty",
                (false, false) => "glob_api_err_on_empty",
            };
            *self.counts.entry(key).or_insert(0) += 1;
            if !out.is_ok() && st.glob != 0 && matches!(op, Op::Glob(_) | Op::NoStar | Op::Unbuildable | Op::GlobChanging) {
                *self.counts.entry("glob_api_refused_load_over_loaded_glob").or_insert(0) += 1;
            }
            if matches!(op, Op::Reload) && !out.is_ok() && st.glob != 0 {
                *self.counts.entry("glob_api_refused_reload_of_a_loaded_glob").or_insert(0) += 1;
            }
            if matches!(op, Op::Reload) && out.is_ok() && hist.iter().rev().skip(1).any(|(o, ok)| !ok && !matches!(o, Op::Disk(_))) {
                *self.counts.entry("glob_api_reload_after_refused_call").or_insert(0) += 1;
            }
        }
        (t2, expected_state)
    }

    pub fn dfs(&mut self, acc: &mut Acc, t: &Tera, st: State, hist: &mut Vec<(Op, bool)>, left: u32) {
        if left == 0 {
            return;
        }
        for i in 0..self.ops.len() {
            let op = self.ops[i];
            // two disk changes in a row are one disk change
            if matches!(op, Op::Disk(_)) && matches!(hist.last(), Some((Op::Disk(_), _))) {
                continue;
            }
            let (t2, st2) = self.step(acc, t, st, hist, op, true);
            self.dfs(acc, &t2, st2, hist, left - 1);
            hist.pop();
        }
    }

    /// One work item: the history prefix (ops[item / n], ops[item % n]) and every continuation.
    pub fn run_item(&mut self, acc: &mut Acc, item: u64, depth: u32) {
        let n = self.ops.len() as u64;
        let (o1, o2) = (self.ops[(item / n) as usize], self.ops[(item % n) as usize]);
        if matches!(o1, Op::Disk(_)) && matches!(o2, Op::Disk(_)) {
            return;
        }
        let mut hist = vec![];
        let t0 = Tera::default();
        // the first call is counted once (by the item whose second call is operation 0)
        let (t1, s1) = self.step(acc, &t0, State::default(), &mut hist, o1, item % n == 0);
        let (t2, s2) = self.step(acc, &t1, s1, &mut hist, o2, true);
        self.dfs(acc, &t2, s2, &mut hist, depth - 2);
        for (k, v) in std::mem::take(&mut self.counts) {
            acc.count(k, v);
        }
        self.store.cleanup();
    }
}
