//! C10, the glob entry points (`Tera::load_from_glob`, `Tera::full_reload`; cargo feature
//! `glob_fs`): a call that fails leaves everything as before, a call that succeeds leaves exactly
//! the manual templates plus the files of the glob - judged like every other history of C10, by a
//! fresh instance that is given the resulting set through `add_raw_templates`.
//!
//! Directories (written once by the supervisor under the scratch directory):
//!   g1  a.html (block t), comps.html (component X), sub/s.html
//!   g2  a.html including b.html, b.html
//!   g3  a.html with a syntax error, b.html                       refused: a file does not parse
//!   g4  c.html extending a template nobody has                   refused: dangling parent
//!   g5  d.html extending the MANUAL template m.html             valid only after `manual m.html`
//!   g6  comps.html (another X), a.html calling X
//! Operations: load_from_glob(gK/**/*.html) for the six; a pattern without `*`; a pattern that does
//! not build (`*.{html`); a pattern that matches nothing; full_reload; three manual templates
//! (m.html; z.html including a.html; y.html calling X) that are valid only next to the right glob.
//! (Seeded change C10-10 returned from a refused pattern before the previous templates and the
//! previous glob were put back.)

use mccore::engine::{self, Out};
use mccore::{Json, json};
use std::collections::{BTreeMap, HashMap};
use std::path::{Path, PathBuf};
use tera::{Context, Tera};

pub const DIRS: [(&str, &[(&str, &str)]); 6] = [
    (
        "g1",
        &[
            ("a.html", "{% block t %}A1{{ v }}{% endblock %}"),
            ("comps.html", "{% component X(label) %}x1({{ label }}){% endcomponent X %}"),
            ("sub/s.html", "S1"),
        ],
    ),
    ("g2", &[("a.html", "A2[{% include \"b.html\" %}]"), ("b.html", "B2")]),
    ("g3", &[("a.html", "{% if %}"), ("b.html", "B3")]),
    ("g4", &[("c.html", "{% extends \"nope.html\" %}")]),
    ("g5", &[("d.html", "{% extends \"m.html\" %}{% block t %}D5{% endblock %}")]),
    (
        "g6",
        &[
            ("comps.html", "{% component X(label, kind=\"k\") %}x6({{ label }}{{ kind }}){% endcomponent X %}"),
            ("a.html", "A6{{ <X label={v} /> }}"),
        ],
    ),
];

pub const MANUAL: [(&str, &str); 3] = [
    ("m.html", "{% block t %}M{% endblock %}|{{ v }}"),
    ("z.html", "Z[{% include \"a.html\" %}]"),
    ("y.html", "Y{{ <X label={v} /> }}"),
];

const UNIVERSE: [&str; 9] =
    ["a.html", "b.html", "c.html", "d.html", "comps.html", "sub/s.html", "m.html", "z.html", "y.html"];

#[derive(Clone, Copy, Debug, PartialEq, Eq)]
pub enum Op {
    Glob(usize),
    NoStar,
    Unbuildable,
    MatchesNothing,
    Reload,
    Manual(usize),
}

pub fn ops() -> Vec<Op> {
    let mut v: Vec<Op> = (0..DIRS.len()).map(Op::Glob).collect();
    v.extend([Op::NoStar, Op::Unbuildable, Op::MatchesNothing, Op::Reload]);
    v.extend((0..MANUAL.len()).map(Op::Manual));
    v
}

/// What the instance is expected to hold: which manual templates, and which glob.
#[derive(Clone, Copy, Debug, PartialEq, Eq, Hash, Default)]
pub struct State {
    pub manual: u8,
    /// 0 none, 1 + k = directory k, 255 = the pattern that matches nothing
    pub glob: u8,
}

impl State {
    pub fn templates(&self) -> Vec<(String, String)> {
        let mut m: BTreeMap<String, String> = BTreeMap::new();
        for (i, (n, s)) in MANUAL.iter().enumerate() {
            if self.manual & (1 << i) != 0 {
                m.insert(n.to_string(), s.to_string());
            }
        }
        if (1..=DIRS.len() as u8).contains(&self.glob) {
            for (n, s) in DIRS[self.glob as usize - 1].1 {
                m.insert(n.to_string(), s.to_string());
            }
        }
        m.into_iter().collect()
    }
    pub fn json(&self) -> Json {
        json!({
            "manual_templates": MANUAL.iter().enumerate().filter(|(i, _)| self.manual & (1 << i) != 0).map(|(_, (n, _))| *n).collect::<Vec<_>>(),
            "glob": match self.glob { 0 => "none".to_string(), 255 => "matches nothing".to_string(), k => format!("{}/**/*.html", DIRS[k as usize - 1].0) },
        })
    }
}

pub struct Store {
    pub root: PathBuf,
}

impl Store {
    /// Writes the directories (idempotent: same bytes every time).
    pub fn create(root: &Path) -> Store {
        for (d, files) in DIRS {
            for (name, src) in files {
                let p = root.join(d).join(name);
                std::fs::create_dir_all(p.parent().unwrap()).expect("scratch directory for the glob API");
                if std::fs::read_to_string(&p).ok().as_deref() != Some(*src) {
                    std::fs::write(&p, src).expect("write glob file");
                }
            }
        }
        Store { root: root.to_path_buf() }
    }
    pub fn pattern(&self, op: Op) -> Option<String> {
        let r = self.root.to_string_lossy();
        match op {
            Op::Glob(k) => Some(format!("{r}/{}/**/*.html", DIRS[k].0)),
            Op::NoStar => Some(format!("{r}/g1")),
            Op::Unbuildable => Some(format!("{r}/g1/*.{{html")),
            Op::MatchesNothing => Some(format!("{r}/g1/*.nothing")),
            _ => None,
        }
    }
}

pub fn op_json(op: Op) -> Json {
    match op {
        Op::Glob(k) => json!({"op": "load_from_glob", "pattern": format!("<scratch>/{}/**/*.html", DIRS[k].0), "files": DIRS[k].1.iter().map(|(n, s)| json!({"name": n, "source": s})).collect::<Vec<_>>()}),
        Op::NoStar => json!({"op": "load_from_glob", "pattern": "<scratch>/g1", "note": "no `*`: not a glob"}),
        Op::Unbuildable => json!({"op": "load_from_glob", "pattern": "<scratch>/g1/*.{html", "note": "unclosed alternation: the pattern does not build"}),
        Op::MatchesNothing => json!({"op": "load_from_glob", "pattern": "<scratch>/g1/*.nothing", "note": "a valid pattern no file matches"}),
        Op::Reload => json!({"op": "full_reload"}),
        Op::Manual(i) => json!({"op": "add_raw_template", "name": MANUAL[i].0, "source": MANUAL[i].1}),
    }
}

pub fn apply(t: &mut Tera, store: &Store, op: Op) -> Out {
    engine::to_out_unit(engine::guarded(|| match op {
        Op::Reload => t.full_reload(),
        Op::Manual(i) => t.add_raw_template(MANUAL[i].0, MANUAL[i].1),
        other => t.load_from_glob(&store.pattern(other).unwrap()),
    }))
}

/// The state the call asks for (None: the call cannot succeed whatever the templates are).
pub fn requested(st: State, op: Op) -> Option<State> {
    match op {
        Op::Glob(k) => Some(State { glob: k as u8 + 1, ..st }),
        Op::MatchesNothing => Some(State { glob: 255, ..st }),
        Op::NoStar | Op::Unbuildable => None,
        Op::Reload => (st.glob != 0).then_some(st),
        Op::Manual(i) => Some(State { manual: st.manual | (1 << i), ..st }),
    }
}

pub type Obs = Vec<String>;

fn coarse(o: Out) -> String {
    match o {
        Out::Ok(s) => format!("Ok({s})"),
        Out::Err(k, _) => format!("Err[{k}]"),
        Out::Panic(m) => format!("PANIC({m})"),
    }
}

pub fn obs_labels() -> Vec<String> {
    let mut l = vec!["get_template_names (sorted)".to_string()];
    for n in UNIVERSE {
        l.push(format!("render({n})"));
        l.push(format!("render_block({n}, t)"));
    }
    l.push("get_component_definition(X): declared parameters".into());
    l.push("render_component(X, {label}, autoescape=true)".into());
    l.push("render_str(\"{{ <X label={v} /> }}\", autoescape=true)".into());
    l
}

pub fn observe(t: &Tera) -> Obs {
    let mut ctx = Context::new();
    ctx.insert("v", "<v&>");
    let mut comp_ctx = Context::new();
    comp_ctx.insert("label", "<l&>");
    let mut o = vec![];
    let mut names: Vec<&str> = t.get_template_names().collect();
    names.sort();
    o.push(names.join(","));
    for n in UNIVERSE {
        o.push(coarse(engine::render(t, n, &ctx)));
        o.push(coarse(engine::render_block(t, n, "t", &ctx)));
    }
    o.push(match engine::guarded(|| {
        t.get_component_definition("X")
            .map(|d| d.args().iter().map(|a| a.name().to_string()).collect::<Vec<_>>().join(","))
    }) {
        Ok(Some(s)) => format!("X({s})"),
        Ok(None) => "None".into(),
        Err(p) => format!("PANIC({p})"),
    });
    o.push(coarse(engine::to_out(engine::guarded(|| t.render_component("X", &comp_ctx, None, true)))));
    o.push(coarse(engine::render_str(t, "{{ <X label={v} /> }}", &ctx, true)));
    o
}

/// Fresh-instance oracle: is the state a valid template set, and what does it look like.
#[derive(Default)]
pub struct Oracle {
    cache: HashMap<State, Option<Obs>>,
}

impl Oracle {
    pub fn fresh(&mut self, st: State) -> &Option<Obs> {
        self.cache.entry(st).or_insert_with(|| {
            let mut t = Tera::default();
            match engine::add_templates(&mut t, &st.templates()) {
                Out::Ok(_) => Some(observe(&t)),
                _ => None,
            }
        })
    }
}
