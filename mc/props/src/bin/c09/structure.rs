//! Structural oracle for the fusion pass, on the before/after listings of one chunk.

use tera::verif::{ChunkListing, InstructionListing};

pub struct Stats {
    pub groups: usize,
    pub jumps: usize,
}

const JUMPS: &[&str] = &["Jump", "PopJumpIfFalse", "JumpIfFalseOrPop", "JumpIfTrueOrPop", "Iterate"];

/// `Jump(5)` -> Some(("Jump", 5))
fn jump_of(text: &str) -> Option<(&str, usize)> {
    let (name, rest) = text.split_once('(')?;
    if !JUMPS.contains(&name) {
        return None;
    }
    let n = rest.strip_suffix(')')?.parse().ok()?;
    Some((name, n))
}

/// Parses `["a", "b"]` (Rust Debug of Vec<String>).
fn parse_list(s: &str) -> Option<Vec<String>> {
    let s = s.strip_prefix('[')?.strip_suffix(']')?;
    let mut out = vec![];
    let mut chars = s.chars().peekable();
    loop {
        while matches!(chars.peek(), Some(' ') | Some(',')) {
            chars.next();
        }
        match chars.next() {
            None => break,
            Some('"') => {
                let mut cur = String::new();
                loop {
                    match chars.next()? {
                        '\\' => {
                            let c = chars.next()?;
                            match c {
                                'n' => cur.push('\n'),
                                't' => cur.push('\t'),
                                'r' => cur.push('\r'),
                                '\\' | '"' | '\'' => cur.push(c),
                                _ => return None, // \u{..} never occurs in identifiers
                            }
                        }
                        '"' => break,
                        c => cur.push(c),
                    }
                }
                out.push(cur);
            }
            Some(_) => return None,
        }
    }
    Some(out)
}

struct Expanded {
    text: String,
    span: Vec<(usize, usize)>,
    /// index of the optimised instruction this came from
    from: usize,
    /// position inside its group (0 = group start)
    pos: usize,
}

pub fn check(c: &ChunkListing) -> Result<Stats, (String, String)> {
    let before: &Vec<InstructionListing> = &c.before;
    let after: &Vec<InstructionListing> = &c.after;
    let mut expanded: Vec<Expanded> = vec![];
    // start index (in expanded/before numbering) of every optimised instruction, plus one-past-end
    let mut start_of: Vec<usize> = vec![];
    let mut groups = 0;
    for (j, ins) in after.iter().enumerate() {
        start_of.push(expanded.len());
        let fused = ins
            .text
            .strip_prefix("LoadPath(")
            .map(|r| (r, false))
            .or_else(|| ins.text.strip_prefix("WritePath(").map(|r| (r, true)));
        if let Some((rest, write)) = fused {
            let Some(list) = rest.strip_suffix(')').and_then(parse_list) else {
                return Err(("unparsable".into(), format!("cannot parse `{}`", ins.text)));
            };
            if list.is_empty() {
                return Err(("empty-path".into(), format!("`{}` has an empty path", ins.text)));
            }
            if !write && list.len() < 2 {
                return Err((
                    "degenerate-loadpath".into(),
                    format!("`{}` merges nothing", ins.text),
                ));
            }
            groups += 1;
            // spans: one per path element, in order; WriteTop carries none
            for (k, name) in list.iter().enumerate() {
                let text = if k == 0 { format!("LoadName({name:?})") } else { format!("LoadAttr({name:?})") };
                // the fused instruction's span list is the concatenation of its members' spans;
                // members carry 0 or 1 span each, matched below against `before`
                expanded.push(Expanded { text, span: vec![], from: j, pos: k });
            }
            if write {
                expanded.push(Expanded { text: "WriteTop".into(), span: vec![], from: j, pos: list.len() });
            }
        } else {
            expanded.push(Expanded { text: ins.text.clone(), span: ins.spans.clone(), from: j, pos: 0 });
        }
    }
    start_of.push(expanded.len());

    if expanded.len() != before.len() {
        return Err((
            "sequence-differs".into(),
            format!(
                "expanding the optimised code gives {} instructions, the original has {}",
                expanded.len(),
                before.len()
            ),
        ));
    }
    let mut jumps = 0;
    for (i, (e, b)) in expanded.iter().zip(before.iter()).enumerate() {
        match (jump_of(&e.text), jump_of(&b.text)) {
            (Some((en, et)), Some((bn, bt))) => {
                jumps += 1;
                if en != bn {
                    return Err(("sequence-differs".into(), format!("instruction {i}: `{}` became `{}`", b.text, e.text)));
                }
                // the optimised target must be the image of the original target
                if et > after.len() {
                    return Err(("jump-target".into(), format!("instruction {i}: `{}` jumps past the end of the optimised chunk ({} instructions)", e.text, after.len())));
                }
                if bt > before.len() {
                    return Err(("jump-target".into(), format!("original instruction {i}: `{}` jumps past the end", b.text)));
                }
                if start_of[et] != bt {
                    return Err((
                        "jump-target".into(),
                        format!(
                            "instruction {i}: `{}` pointed to original instruction {bt}, after the pass `{}` lands on original instruction {}",
                            b.text, e.text, start_of[et]
                        ),
                    ));
                }
            }
            (None, None) => {
                if e.text != b.text {
                    return Err(("sequence-differs".into(), format!("instruction {i}: `{}` became `{}`", b.text, e.text)));
                }
            }
            _ => {
                return Err(("sequence-differs".into(), format!("instruction {i}: `{}` became `{}`", b.text, e.text)));
            }
        }
    }
    // spans of merged groups = concatenation of the members' spans
    for (j, ins) in after.iter().enumerate() {
        let members: Vec<usize> = (start_of[j]..start_of[j + 1]).collect();
        if members.len() > 1 || ins.text.starts_with("WritePath(") || ins.text.starts_with("LoadPath(") {
            let want: Vec<(usize, usize)> = members.iter().flat_map(|&i| before[i].spans.clone()).collect();
            if ins.spans != want {
                return Err((
                    "spans".into(),
                    format!("`{}` carries spans {:?}, its members carried {:?}", ins.text, ins.spans, want),
                ));
            }
        } else if expanded[start_of[j]].span != before[start_of[j]].spans {
            return Err((
                "spans".into(),
                format!("`{}` carries spans {:?}, originally {:?}", ins.text, ins.spans, before[start_of[j]].spans),
            ));
        }
    }
    // no original jump target strictly inside a merged group
    for b in before.iter() {
        if let Some((_, t)) = jump_of(&b.text)
            && t < expanded.len()
            && expanded[t].pos != 0
        {
            return Err((
                "target-inside-group".into(),
                format!(
                    "`{}` targets original instruction {t}, which was merged into the middle of `{}`",
                    b.text, after[expanded[t].from].text
                ),
            ));
        }
    }
    Ok(Stats { groups, jumps })
}
