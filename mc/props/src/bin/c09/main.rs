//! C09 — the bytecode fusion pass never changes what a template renders.
//!
//! Two oracles on every program of every family:
//!   structural   on `tera::verif::listings`: expanding every LoadPath/WritePath of the optimised
//!                listing back into LoadName, LoadAttr*, (WriteTop) reproduces the unoptimised
//!                listing exactly (instructions and spans), every jump still lands on the
//!                instruction it pointed to, no jump target lies strictly inside a merged group.
//!   differential an instance compiled with the pass switched off and one with it on render every
//!                context to the same Ok(text) or both to Err.
//!
//! Families:
//!   jump-adjacent   variable paths (length 1..3, optional links, __tera_context, constants) at
//!                   every position next to a jump: and/or operands, ternary parts, first/last
//!                   statement of if/elif/else/for/for-else bodies, around break/continue,
//!                   comprehension parts, end of chunk, inside blocks / component bodies / includes.
//!   reuse-*         the program spaces of other checks (expressions, statements, components),
//!                   re-enumerated here in both optimiser modes.

mod structure;
#[path = "../c02/expr.rs"]
#[allow(dead_code, unused_imports, unused_variables)]
mod expr;
#[path = "../c03/stmt.rs"]
#[allow(dead_code, unused_imports, unused_variables)]
mod stmt;

use mccore::engine::{self, Out};
use mccore::vals::{self, V};
use mccore::{Acc, Family, Run, json};
use tera::{Context, Tera};

/// One program: a set of templates, the entry template and what to call.
pub struct Program {
    pub templates: Vec<(String, String)>,
    pub entry: String,
}

/// The escape function of the second pair of instances: `<` and `&` rewritten to something the
/// default escaper never produces.
fn custom_escape(input: &str, out: &mut dyn std::io::Write) -> std::io::Result<()> {
    // quoting, like a shell or JSON escaper: what it writes for EMPTY input is visible too (seeded
    // change C09-13 let the fused write skip the escape function when the value printed as nothing)
    out.write_all(b"'")?;
    for c in input.chars() {
        match c {
            '<' => out.write_all(b"[lt]")?,
            '&' => out.write_all(b"[amp]")?,
            c => out.write_all(c.encode_utf8(&mut [0u8; 4]).as_bytes())?,
        }
    }
    out.write_all(b"'")
}

fn instance(p: &Program, optimise: bool) -> Result<Tera, Out> {
    instance_with(p, optimise, false)
}

fn instance_with(p: &Program, optimise: bool, custom_escaper: bool) -> Result<Tera, Out> {
    let mut t = Tera::default();
    if custom_escaper {
        t.set_escape_fn(custom_escape);
    }
    let r = tera::verif::with_optimizer(optimise, || engine::add_templates(&mut t, &p.templates));
    match r {
        Out::Ok(_) => Ok(t),
        other => Err(other),
    }
}

/// Runs both oracles on one program over all contexts; returns the number of renders.
fn judge(p: &Program, contexts: &[(String, Context)], acc: &mut Acc, family: &str) {
    // structural oracle on every template of the program
    let mut fused_groups = 0usize;
    let mut jumps = 0usize;
    for (name, src) in &p.templates {
        let l = engine::guarded(|| tera::verif::listings(name, src, tera::Delimiters::default()));
        match l {
            Ok(Ok(chunks)) => {
                for c in &chunks {
                    match structure::check(c) {
                        Ok(stats) => {
                            fused_groups += stats.groups;
                            jumps += stats.jumps;
                        }
                        Err((sig, msg)) => acc.violation(
                            format!("fusion-structure:{sig}"),
                            format!("chunk `{}` of template `{name}`: {msg}", c.label),
                            || {
                                json!({"family": family, "template": name, "source": src,
                                       "chunk": c.label,
                                       "before": c.before.iter().map(|i| i.text.clone()).collect::<Vec<_>>(),
                                       "after": c.after.iter().map(|i| i.text.clone()).collect::<Vec<_>>()})
                            },
                        ),
                    }
                }
            }
            Ok(Err(_)) => {} // does not compile: not in the property's domain
            Err(panic) => acc.violation(
                "fusion-structure:panic",
                format!("compiling / optimising panicked: {panic}"),
                || json!({"family": family, "template": name, "source": src}),
            ),
        }
    }
    acc.count("fused_groups", fused_groups as u64);
    acc.count("jumps", jumps as u64);

    // differential oracle
    let off = instance(p, false);
    let on = instance(p, true);
    let (off, on) = match (off, on) {
        (Ok(a), Ok(b)) => (a, b),
        (Err(a), Err(b)) => {
            if a.class() != b.class() {
                acc.violation(
                    "fusion-differential:add-outcome",
                    format!("registration differs: pass off {} / pass on {}", a.show(), b.show()),
                    || json!({"family": family, "templates": p.templates}),
                );
            }
            acc.case(false, "rejected");
            return;
        }
        (a, b) => {
            acc.violation(
                "fusion-differential:add-outcome",
                format!(
                    "registration differs: pass off {} / pass on {}",
                    a.as_ref().map(|_| "Ok".to_string()).unwrap_or_else(|e| e.show()),
                    b.as_ref().map(|_| "Ok".to_string()).unwrap_or_else(|e| e.show())
                ),
                || json!({"family": family, "templates": p.templates}),
            );
            acc.case(false, "rejected");
            return;
        }
    };
    for (cname, ctx) in contexts {
        let a = engine::render(&off, &p.entry, ctx);
        let b = engine::render(&on, &p.entry, ctx);
        let same = match (&a, &b) {
            (Out::Ok(x), Out::Ok(y)) => x == y,
            (Out::Err(..), Out::Err(..)) => true,
            _ => false,
        };
        if !same {
            let kind = match (&a, &b) {
                (Out::Ok(_), Out::Ok(_)) => "text",
                (Out::Ok(_), Out::Err(..)) => "ok-vs-err",
                (Out::Err(..), Out::Ok(_)) => "err-vs-ok",
                _ => "panic",
            };
            acc.violation(
                format!("fusion-differential:{kind}"),
                format!("context {cname}: pass off {} / pass on {}", a.show(), b.show()),
                || json!({"family": family, "templates": p.templates, "entry": p.entry, "context": cname}),
            );
        }
        // non-trivial: the program contains at least one merged group or a jump (the pass had
        // something to do or something to preserve)
        acc.case(fused_groups > 0 && jumps > 0, a.class());
    }
    // The same differential on instances with a user-supplied escape function, for programs that
    // have an autoescaped template: the fused and the unfused write both have to go through the
    // instance's function, at top level and inside captures (seeded change C09-12 let the unfused
    // write call the default escaper directly when it wrote into a capture).
    if p.templates.iter().any(|(n, _)| n.ends_with(".html")) {
        if let (Ok(off), Ok(on)) = (instance_with(p, false, true), instance_with(p, true, true)) {
            for (cname, ctx) in contexts {
                let a = engine::render(&off, &p.entry, ctx);
                let b = engine::render(&on, &p.entry, ctx);
                let same = match (&a, &b) {
                    (Out::Ok(x), Out::Ok(y)) => x == y,
                    (Out::Err(..), Out::Err(..)) => true,
                    _ => false,
                };
                if !same {
                    acc.violation(
                        "fusion-differential:custom-escaper",
                        format!("context {cname}, escape function quoting its input in '..' and rewriting `<` to [lt], `&` to [amp]: pass off {} / pass on {}", a.show(), b.show()),
                        || json!({"family": family, "templates": p.templates, "entry": p.entry, "context": cname, "escape_fn": "writes ' + input with < -> [lt], & -> [amp] + '"}),
                    );
                }
                acc.case(fused_groups > 0, if a.is_ok() { "custom-escaper:ok" } else { "custom-escaper:err" });
            }
        }
    }
    acc.sample(|| json!({"family": family, "templates": p.templates, "fused_groups": fused_groups, "jumps": jumps}));
}

// ------------------------------------------------------------------ jump-adjacent family

/// Slot fillers: variable paths and constants.
const FILL: &[&str] = &[
    "a",
    "a.b",
    "a.b.c",
    "a?.b",
    "a.b?.c",
    "a?.b?.c",
    "z",
    "z.y",
    "__tera_context",
    // the magic variable as the root of a path (seeded change C09-3: fused like any other root,
    // then looked up as an ordinary variable)
    "__tera_context.a",
    "__tera_context.a.b",
    "true",
    "false",
    "n",
    "n.b",
];

/// Shapes with slots @1 @2 @3 (expressions). `{{ … }}` around a slot makes it a printed path
/// (WriteTop directly after the path = candidate for WritePath).
const SHAPES: &[&str] = &[
    "{{ @1 }}",
    "{{ @1 and @2 }}",
    "{{ @1 or @2 }}",
    "{{ @1 and @2 and @3 }}",
    "{{ @1 or @2 and @3 }}",
    "{{ (@1 or @2) and @3 }}",
    "{{ @1 if @2 else @3 }}",
    "{{ (@1 if @2 else @3) }}x",
    "{{ @1 if @2 else @3 if @1 else @2 }}",
    "{{ not @1 and @2 }}",
    "{{ @1 | default(value=@2) }}",
    "{{ @1 is defined and @2 }}",
    "{{ @1 == @2 or @3 }}",
    "{{ @1 ~ @2 }}",
    "{{ [@1, @2][0] }}",
    "{{ {\"k\": @1}.k }}",
    "{% if @1 %}{{ @2 }}{% endif %}",
    "{% if @1 %}{{ @2 }}{% endif %}{{ @3 }}",
    "{% if @1 %}{{ @2 }}{% else %}{{ @3 }}{% endif %}",
    "{% if @1 %}x{{ @2 }}{% else %}{{ @3 }}y{% endif %}",
    "{% if @1 %}{{ @2 }}{% elif @2 %}{{ @3 }}{% else %}{{ @1 }}{% endif %}",
    "{% if @1 and @2 %}{{ @3 }}{% endif %}",
    "{% if @1 or @2 %}{{ @3 }}{% endif %}",
    "{% for x in xs %}{{ @1 }}{% endfor %}",
    "{% for x in xs %}{{ @1 }}{{ x }}{{ @2 }}{% endfor %}{{ @3 }}",
    "{% for x in xs %}{{ x }}{% else %}{{ @1 }}{% endfor %}",
    "{% for x in es %}{{ x }}{% else %}{{ @1 }}{% endfor %}{{ @2 }}",
    "{% for x in xs %}{% if @1 %}{% break %}{% endif %}{{ @2 }}{% endfor %}{{ @3 }}",
    "{% for x in xs %}{{ @1 }}{% if @2 %}{% continue %}{% endif %}{{ @3 }}{% endfor %}",
    "{% for x in xs %}{% if x == 2 %}{% break %}{% endif %}{{ @1 }}{% else %}{{ @2 }}{% endfor %}",
    "{% for x in xs %}{% for y in xs %}{{ @1 }}{% if @2 %}{% break %}{% endif %}{% endfor %}{{ @3 }}{% endfor %}",
    // the loop's own variable re-bound by a `set` inside the body, then read as the root of a path
    // in a non-write position (seeded change C09-14 let the fused load take the loop item directly,
    // past the iteration's assignments)
    "{% for v in xs %}{% set v = a %}{{ v.b ~ @1 }}{% if v.b %}{{ @2 }}{% endif %}{% endfor %}",
    "{% for k, v in {\"p\": 1} %}{% set v = a %}{% set k = a %}{{ (v.b.c | default(value=\"d\")) ~ (k.b | default(value=@1)) }}{% endfor %}{{ @2 }}",
    "{{ [@1 for x in xs] }}",
    "{{ [@1 for x in xs if @2] }}{{ @3 }}",
    "{{ [x for x in xs if @1] }}",
    "{% set v = @1 and @2 %}{{ v }}",
    "{% set v = @1 if @2 else @3 %}{{ v }}",
    "{% set v %}{{ @1 }}{% endset %}{{ v }}{{ @2 }}",
    "{% filter upper %}{{ @1 }}{% if @2 %}{{ @3 }}{% endif %}{% endfilter %}",
    "{% if @1 %}{% if @2 %}{{ @3 }}{% endif %}{% endif %}",
    "{% if @1 %}{% else %}{% if @2 %}{{ @3 }}{% endif %}{% endif %}",
    "{{ @1 and @2 }}{{ @3 }}",
    "{{ @1 }}{{ @2 }}{{ @3 }}",
    "{{ a.b and a.b.c and @1 }}",
    "{{ (@1).b }}",
    "{{ @1[\"b\"] }}",
    "{{ @1 or @2 | default(value=\"d\") }}",
];

/// Where the shape is placed.
/// The last four put the shape where the fused write has another destination or another branch:
/// an autoescaped template (the escaping branch of WritePath), one capture, two nested captures
/// (seeded change C09-5: the escaping branch of WritePath wrote into the OUTERMOST capture).
const PLACEMENTS: &[&str] = &[
    "top",
    "block",
    "child-block-super",
    "component-body",
    "include",
    "top-autoescaped",
    "filter-section",
    "set-block-in-filter-section-autoescaped",
    "call-body-in-set-block-autoescaped",
    "include-under-shadowing-set-and-loop",
];

fn fill(shape: &str, f: [&str; 3]) -> String {
    shape.replace("@1", f[0]).replace("@2", f[1]).replace("@3", f[2])
}

fn slots(shape: &str) -> usize {
    (1..=3).filter(|i| shape.contains(&format!("@{i}"))).count()
}

fn place(body: &str, placement: &str) -> Program {
    match placement {
        "top" => Program { templates: vec![("t.txt".into(), body.into())], entry: "t.txt".into() },
        "block" => Program {
            templates: vec![("t.txt".into(), format!("<{{% block k %}}{body}{{% endblock %}}>"))],
            entry: "t.txt".into(),
        },
        "child-block-super" => Program {
            templates: vec![
                ("p.txt".into(), format!("<{{% block k %}}{body}{{% endblock %}}>")),
                ("t.txt".into(), format!("{{% extends \"p.txt\" %}}{{% block k %}}[{{{{ super() }}}}]{body}{{% endblock %}}")),
            ],
            entry: "t.txt".into(),
        },
        "component-body" => Program {
            templates: vec![(
                "t.txt".into(),
                format!(
                    "{{% component C(a=none, n=none, xs=[], es=[], z=none) %}}{body}{{% endcomponent C %}}<{{{{ <C a={{a}} n={{n}} xs={{xs}} es={{es}} /> }}}}>"
                ),
            )],
            entry: "t.txt".into(),
        },
        "include" => Program {
            templates: vec![
                ("i.txt".into(), body.into()),
                ("t.txt".into(), "<{% include \"i.txt\" %}>".into()),
            ],
            entry: "t.txt".into(),
        },
        // the includer shadows names of the render context (an assignment, a loop variable): fused
        // and unfused loads inside the included template must both walk the includer's scopes
        // (seeded change C09-7: a fast path of LoadName went straight to the render context)
        "include-under-shadowing-set-and-loop" => Program {
            templates: vec![
                ("i.txt".into(), body.into()),
                ("t.txt".into(), "{% set a = {\"b\": \"shadow\"} %}{% for n in [7] %}<{% include \"i.txt\" %}>{% endfor %}".into()),
            ],
            entry: "t.txt".into(),
        },
        "top-autoescaped" => Program { templates: vec![("t.html".into(), body.into())], entry: "t.html".into() },
        "filter-section" => Program {
            templates: vec![("t.txt".into(), format!("<{{% filter upper %}}{body}{{% endfilter %}}>"))],
            entry: "t.txt".into(),
        },
        "set-block-in-filter-section-autoescaped" => Program {
            templates: vec![(
                "t.html".into(),
                format!("<{{% filter upper %}}o{{% set zc %}}{body}{{% endset %}}[{{{{ zc }}}}]{{% endfilter %}}>"),
            )],
            entry: "t.html".into(),
        },
        "call-body-in-set-block-autoescaped" => Program {
            templates: vec![(
                "t.html".into(),
                format!("{{% component W() %}}({{{{ body }}}}){{% endcomponent W %}}<{{% set zo %}}o{{% <W> %}}{body}{{% </W> %}}{{% endset %}}[{{{{ zo }}}}]>"),
            )],
            entry: "t.html".into(),
        },
        _ => unreachable!(),
    }
}

fn contexts() -> Vec<(String, Context)> {
    let abc = V::map(&[("b", V::map(&[("c", V::s("C"))]))]);
    let ab_none = V::map(&[("b", V::None)]);
    let a_empty = V::Map(vec![]);
    let ab_false = V::map(&[("b", V::Bool(false))]);
    let xs = V::Arr(vec![V::I64(1), V::I64(2), V::I64(3)]);
    let es = V::Arr(vec![]);
    let mut out = vec![];
    for (name, a) in [
        ("a={b:{c:C}}", abc),
        ("a={b:none}", ab_none),
        ("a={}", a_empty),
        ("a={b:false}", ab_false),
        ("a=none", V::None),
        ("a unbound", V::Undef),
        ("a=\"s\"", V::s("s")),
        // a map that *stores* an undefined value (Value::undefined() put in by the embedder, or a
        // map literal built from a missing variable): the key exists, its value is undefined
        // characters the escaper rewrites (the autoescaped placements)
        ("a={b:{c:<&>}}", V::map(&[("b", V::map(&[("c", V::s("<&>"))]))])),
        // a SAFE string stored in a map (a `| safe` result, a captured block, a component result or
        // Value::safe_string put into a map): the mark belongs to the value the path ends on
        ("a={b:{c:safe(<i>)}}", V::map(&[("b", V::map(&[("c", V::Safe("<i>".into()))]))])),
        ("a={b:safe(<b>)}", V::map(&[("b", V::Safe("<b>".into()))])),
        // the empty string, at the root and at the end of a path (prints as nothing: only an escape
        // function that quotes shows whether it was called)
        ("a=\"\"", V::s("")),
        ("a={b:\"\"}", V::map(&[("b", V::s(""))])),
        ("a={b:undefined}", V::map(&[("b", V::Undef)])),
        ("a={b:{c:undefined}}", V::map(&[("b", V::map(&[("c", V::Undef)]))])),
    ] {
        let ctx = vals::context(&[("a", &a), ("n", &V::None), ("xs", &xs), ("es", &es)]);
        out.push((name.to_string(), ctx));
    }
    out
}

fn main() {
    let mut run = Run::from_env("C09", "exploration");
    let thorough = run.tier.is_thorough();
    run.rule(
        "Every program of every family is compiled with the fusion pass off and on. Structural oracle on every chunk \
         (main, blocks, components) of every template; differential oracle on every context. One case = one \
         (program, context) render pair; non-trivial = the program's chunks contain at least one merged \
         LoadPath/WritePath group AND at least one jump (the pass had something to merge next to something it must preserve). \
         Programs are distinct by construction (distinct shape/fillers/placement).",
    );
    run.assume("instruction sequences no template produces are not explored (the pass is only claimed for compilable templates)");
    run.assume("error messages are allowed to differ between the two modes (fused instructions add `Available fields`); Ok/Err and text must not");
    run.extra("fillers", json!(FILL));
    run.extra("shapes", json!(SHAPES));
    run.extra("placements", json!(PLACEMENTS));

    let ctxs = contexts();
    run.extra("contexts", json!(ctxs.iter().map(|c| c.0.clone()).collect::<Vec<_>>()));

    // jump-adjacent: item = (shape, placement, filler of slot 1); inner loop over slots 2, 3
    let nf = FILL.len() as u64;
    let placements: &[&str] = if thorough { PLACEMENTS } else { &PLACEMENTS[..] };
    let np = placements.len() as u64;
    let items = SHAPES.len() as u64 * np * nf;
    run.family(
        Family::new(
            "jump-adjacent",
            items,
            &format!(
                "{} shapes x {} placements x all fillers ({}) of up to 3 slots x {} contexts, both optimiser modes",
                SHAPES.len(),
                np,
                nf,
                ctxs.len()
            ),
        ),
        |item, acc| {
            let f1 = (item % nf) as usize;
            let pl = placements[((item / nf) % np) as usize];
            let shape = SHAPES[(item / nf / np) as usize];
            let k = slots(shape);
            let n2 = if k >= 2 { FILL.len() } else { 1 };
            let n3 = if k >= 3 { FILL.len() } else { 1 };
            for f2 in 0..n2 {
                for f3 in 0..n3 {
                    let body = fill(shape, [FILL[f1], FILL[f2], FILL[f3]]);
                    let prog = place(&body, pl);
                    judge(&prog, &ctxs, acc, "jump-adjacent");
                }
            }
        },
    );

    // long-chunk: the jump shapes behind a long run of output, so that every jump target (in the
    // numbering before and after the pass) lies beyond 2^8, 2^15 and 2^16 instructions (seeded
    // change C09-15: the old-to-new index table narrowed to u16)
    let pads: &[usize] = if thorough { &[90, 130, 260, 11000, 17000, 23000, 33000, 66000] } else { &[130, 17000, 33000, 66000] };
    let long_fill: &[&str] = if thorough { &["a.b", "a?.b?.c", "z.y"] } else { &["a.b"] };
    let npad = pads.len() as u64;
    let nlf = long_fill.len() as u64;
    run.family(
        Family::new(
            "long-chunk",
            SHAPES.len() as u64 * npad * nlf,
            &format!(
                "{} shapes (all slots one filler of {:?}) at top level after {:?} units of `{{{{ xs | length }}}}x`, {} contexts, both optimiser modes",
                SHAPES.len(),
                long_fill,
                pads,
                ctxs.len()
            ),
        ),
        |item, acc| {
            let f = long_fill[(item % nlf) as usize];
            let pad = pads[((item / nlf) % npad) as usize];
            let shape = SHAPES[(item / nlf / npad) as usize];
            let body = format!("{}|{}", "{{ xs | length }}x".repeat(pad), fill(shape, [f, f, f]));
            let prog = place(&body, "top");
            judge(&prog, &ctxs, acc, "long-chunk");
        },
    );

    // ------------------------------------------------------------------ reuse: C02's expressions
    // every program of C02's families (operator pairs under their first leaf assignments, all
    // short-circuit / undefined / operand-kind / literal programs), sharded by position
    const SHARDS: u64 = 32;
    run.family(
        Family::new(
            "reuse-c02-expressions",
            SHARDS,
            "every program of C02's P (operator pairs; thorough: triples, capped leaf assignments), S, U, T, L families with its own context, both optimiser modes",
        ),
        |item, acc| {
            let mut idx = 0u64;
            let cap = if thorough { 4 } else { 6 };
            expr::families::for_each_program(thorough, cap, &mut |case| {
                idx += 1;
                if idx % SHARDS != item {
                    return;
                }
                let prog = Program { templates: vec![("t.txt".into(), case.source())], entry: "t.txt".into() };
                let ctx = [(case.id.clone(), case.context())];
                judge(&prog, &ctx, acc, "reuse-c02-expressions");
            });
        },
    );

    // ------------------------------------------------------------------ reuse: C03's statements
    let stmt_fams: Vec<(&str, u64, fn(u64, bool, &mut stmt::fam::Emit<'_>))> = {
        let mut v: Vec<(&str, u64, fn(u64, bool, &mut stmt::fam::Emit<'_>))> = vec![
            ("reuse-c03-f5-jump-patching", stmt::fam::f5_items(thorough), stmt::fam::f5_decode),
            ("reuse-c03-f2-loops", stmt::fam::f2_items(thorough), stmt::fam::f2_decode),
        ];
        if thorough {
            v.push(("reuse-c03-f1-branches", stmt::fam::f1_items(thorough), stmt::fam::f1_decode));
            v.push(("reuse-c03-f4-captures", stmt::fam::f4_items(thorough), stmt::fam::f4_decode));
        }
        v
    };
    for (name, items, decode) in stmt_fams {
        run.family(
            Family::new(name, items, "the complete C03 family of the same name (every program, every binding, every placement), both optimiser modes"),
            |item, acc| {
                decode(item, thorough, &mut |g: stmt::Group<'_>| {
                    let templates = g.program.sources();
                    let ctxs: Vec<(String, Context)> = g
                        .bindings
                        .iter()
                        .filter(|b| b.global.is_empty())
                        .map(|b| {
                            let mut c = Context::new();
                            for (k, v) in &b.ctx {
                                if *v != V::Undef {
                                    c.insert_value(k.clone(), v.to_tera());
                                }
                            }
                            (b.tag.clone(), c)
                        })
                        .collect();
                    for entry in &g.program.entries {
                        let prog = Program { templates: templates.clone(), entry: entry.clone() };
                        judge(&prog, &ctxs, acc, name);
                    }
                });
            },
        );
    }

    if run.is_supervisor() {
        let groups = run.counter("fused_groups");
        let jumps = run.counter("jumps");
        run.guard("pass-merged-something", groups > 1000, format!("{groups} merged groups seen"));
        run.guard("jumps-present", jumps > 1000, format!("{jumps} jumps seen"));
        let ok = run.outcome_any("ok");
        let err = run.outcome_any("err");
        run.guard("both-render-outcomes", ok > 0 && err > 0, format!("ok={ok} err={err}"));
        run.extra("merged_groups_checked", json!(groups));
        run.extra("jumps_checked", json!(jumps));
    }
    run.finish();
}
