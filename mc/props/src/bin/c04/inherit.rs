//! Inheritance chains: description type, source printer, reference resolver.
//!
//! Self-contained (std only; no engine call anywhere in this file) so that other checks can
//! include it with `#[path = "../c04/inherit.rs"] mod inherit;`.
//!
//! A *chain* is a list of levels: level 0 is the root template, level k > 0 extends level k-1.
//! A level's body is a small tree of text pieces, `{{ super() }}` calls, `{% block %}`
//! definitions (nested to any depth) and capturing sections (`{% filter upper %}`, a `set` block
//! that is printed right after, a component call with a body).
//!
//! The reference ([`reference_render`]) is written from the documentation
//! (`docs/content/_index.md`, "Inheritance") and the statement of property C04:
//!   * render the ROOT ancestor's body;
//!   * a block placeholder `x`, wherever it is met (root body, inside another block, inside a
//!     capturing section, inside a body reached through `super()`), is replaced by the definition
//!     of `x` in the MOST-DERIVED template of the chain that defines `x`;
//!   * `super()` inside the definition of `x` given by level j yields the rendering of the
//!     definition of `x` in the nearest level j' < j that defines `x` (levels without one are
//!     skipped; recursively), and is an error when there is none;
//!   * text a child writes outside of blocks is not rendered;
//!   * `render_block(t, x)` = the text the definition of `x` writes while `t` is rendered in full
//!     (the block's own writes: before an enclosing filter section transforms them).
//! It never looks at lineages, chunks or any other notion of the implementation.

#![allow(dead_code)]

use std::collections::BTreeMap;

// ------------------------------------------------------------------------------------------ AST

#[derive(Clone, Copy, Debug, PartialEq, Eq, PartialOrd, Ord)]
pub enum Wrap {
    /// `{% filter upper %}…{% endfilter %}`
    Filter,
    /// `{% set w %}…{% endset %}({{ w }})`
    Set,
    /// `{% <wrapcK> %}…{% </wrapcK> %}` with `{% component wrapcK() %}[{{ body }}]{% endcomponent wrapcK %}`
    /// defined at the end of the template of level K that uses it
    Component,
}

impl Wrap {
    pub fn name(self) -> &'static str {
        match self {
            Wrap::Filter => "filter-upper",
            Wrap::Set => "set-block",
            Wrap::Component => "component-body",
        }
    }
    /// What the section does to the text rendered inside it.
    pub fn apply(self, inner: &str) -> String {
        match self {
            Wrap::Filter => inner.to_uppercase(),
            Wrap::Set => format!("({inner})"),
            Wrap::Component => format!("[{inner}]"),
        }
    }
}

#[derive(Clone, Debug, PartialEq, Eq)]
pub enum Item {
    Text(String),
    /// `{{ super() }}`
    Super,
    /// `{{ super() | upper }}`: the parent's rendering used as a value
    SuperUpper,
    Block(Block),
    Wrap(Wrap, Vec<Item>),
}

#[derive(Clone, Debug, PartialEq, Eq)]
pub struct Block {
    pub name: String,
    pub body: Vec<Item>,
}

#[derive(Clone, Debug, Default, PartialEq, Eq)]
pub struct Level {
    pub body: Vec<Item>,
}

#[derive(Clone, Debug, Default, PartialEq, Eq)]
pub struct Chain {
    pub levels: Vec<Level>,
}

pub fn text(s: impl Into<String>) -> Item {
    Item::Text(s.into())
}
pub fn block(name: &str, body: Vec<Item>) -> Item {
    Item::Block(Block { name: name.to_string(), body })
}

// -------------------------------------------------------------------------------------- printer

fn uses_component(items: &[Item]) -> bool {
    items.iter().any(|i| match i {
        Item::Wrap(Wrap::Component, _) => true,
        Item::Wrap(_, inner) => uses_component(inner),
        Item::Block(b) => uses_component(&b.body),
        _ => false,
    })
}

fn print_items(items: &[Item], k: usize, out: &mut String) {
    for it in items {
        match it {
            Item::Text(t) => out.push_str(t),
            Item::Super => out.push_str("{{ super() }}"),
            Item::SuperUpper => out.push_str("{{ super() | upper }}"),
            Item::Block(b) => {
                out.push_str("{% block ");
                out.push_str(&b.name);
                out.push_str(" %}");
                print_items(&b.body, k, out);
                // both spellings of the end tag are documented; alternate by name
                if b.name == "n" {
                    out.push_str("{% endblock %}");
                } else {
                    out.push_str("{% endblock ");
                    out.push_str(&b.name);
                    out.push_str(" %}");
                }
            }
            Item::Wrap(Wrap::Filter, inner) => {
                out.push_str("{% filter upper %}");
                print_items(inner, k, out);
                out.push_str("{% endfilter %}");
            }
            Item::Wrap(Wrap::Set, inner) => {
                out.push_str("{% set w %}");
                print_items(inner, k, out);
                out.push_str("{% endset %}({{ w }})");
            }
            Item::Wrap(Wrap::Component, inner) => {
                out.push_str(&format!("{{% <wrapc{k}> %}}"));
                print_items(inner, k, out);
                out.push_str(&format!("{{% </wrapc{k}> %}}"));
            }
        }
    }
}

/// Source of the body of level `k` (everything but the `extends` tag).
pub fn body_source(level: &Level, k: usize) -> String {
    let mut s = String::new();
    print_items(&level.body, k, &mut s);
    if uses_component(&level.body) {
        s.push_str(&format!("{{% component wrapc{k}() %}}[{{{{ body }}}}]{{% endcomponent wrapc{k} %}}"));
    }
    s
}

/// Full template source of level `k`; `parent` is the registered name of level k-1.
pub fn template_source(level: &Level, k: usize, parent: Option<&str>) -> String {
    match parent {
        Some(p) => format!("{{% extends \"{p}\" %}}{}", body_source(level, k)),
        None => body_source(level, k),
    }
}

/// `(name, source)` of every level, named `names[k]`.
pub fn chain_sources(levels: &[&Level], names: &[String]) -> Vec<(String, String)> {
    levels
        .iter()
        .enumerate()
        .map(|(k, l)| {
            let parent = if k == 0 { None } else { Some(names[k - 1].as_str()) };
            (names[k].clone(), template_source(l, k, parent))
        })
        .collect()
}

// ------------------------------------------------------------------------------- static queries

/// One block definition of a level.
#[derive(Clone, Copy, Debug)]
pub struct Def<'a> {
    pub block: &'a Block,
    /// defined inside another block of the same template (a new extension point, not an override)
    pub nested: bool,
    /// lexically inside a capturing section of the same template
    pub in_wrap: bool,
}

fn collect<'a>(items: &'a [Item], nested: bool, in_wrap: bool, out: &mut Vec<Def<'a>>) {
    for it in items {
        match it {
            Item::Block(b) => {
                out.push(Def { block: b, nested, in_wrap });
                collect(&b.body, true, in_wrap, out);
            }
            Item::Wrap(_, inner) => collect(inner, nested, true, out),
            _ => {}
        }
    }
}

/// All block definitions of one level, in source order.
pub fn defs_of(level: &Level) -> Vec<Def<'_>> {
    let mut v = vec![];
    collect(&level.body, false, false, &mut v);
    v
}

#[derive(Clone, Debug, PartialEq, Eq)]
pub enum Reject {
    /// level, block: a top-level block of a child that no strict ancestor defines
    UnknownBlock(usize, String),
    /// level, block: two definitions of one name in one template
    Duplicate(usize, String),
}

/// Registration verdict of level `k` given its ancestors `levels[..k]`: a child may only define,
/// at its top level, blocks that some ancestor defines (anywhere, nested ones included — the
/// `ending` block of the documentation's example); one template defines a name at most once.
pub fn level_verdict(levels: &[&Level], k: usize) -> Result<(), Reject> {
    let mine = defs_of(levels[k]);
    for (i, d) in mine.iter().enumerate() {
        if mine[..i].iter().any(|e| e.block.name == d.block.name) {
            return Err(Reject::Duplicate(k, d.block.name.clone()));
        }
    }
    if k > 0 {
        for d in mine.iter().filter(|d| !d.nested) {
            let known = levels[..k]
                .iter()
                .any(|l| defs_of(l).iter().any(|e| e.block.name == d.block.name));
            if !known {
                return Err(Reject::UnknownBlock(k, d.block.name.clone()));
            }
        }
    }
    Ok(())
}

/// `Ok` iff every level of the chain is registrable.
pub fn chain_verdict(levels: &[&Level]) -> Result<(), Reject> {
    for k in 0..levels.len() {
        level_verdict(levels, k)?;
    }
    Ok(())
}

/// Every block name the chain `levels[..=top]` defines (what `render_block` may be asked for).
pub fn block_names(levels: &[&Level], top: usize) -> Vec<String> {
    let mut v: Vec<String> = vec![];
    for l in &levels[..=top] {
        for d in defs_of(l) {
            if !v.contains(&d.block.name) {
                v.push(d.block.name.clone());
            }
        }
    }
    v.sort();
    v
}

// ------------------------------------------------------------------------------------ reference

#[derive(Clone, Debug, PartialEq, Eq)]
pub enum RefError {
    /// `super()` in the definition of `block` at `level`, no strict ancestor defines it
    SuperWithoutAncestor { block: String, level: usize },
    /// the resolution rules never terminate on this chain (mutual block recursion)
    Diverges,
}

/// What one block wrote during the full render.
#[derive(Clone, Debug, PartialEq, Eq)]
pub struct BlockRecord {
    /// text of the first completed rendering of the block (its own writes, inner sections applied,
    /// enclosing sections not)
    pub text: String,
    pub times: u32,
    /// some rendering of the block completed with another text (cannot happen without context
    /// variables; kept as a self-check of the reference)
    pub inconsistent: bool,
    /// some rendering happened while a capturing section was open around the placeholder
    pub in_capture: bool,
}

pub mod ev {
    //! Events seen by the reference during one render (bit set).
    pub const SUPER: u32 = 1;
    /// a `super()` whose target was not the direct parent (at least one ancestor skipped)
    pub const SUPER_SKIPS: u32 = 2;
    pub const SUPER_ERROR: u32 = 4;
    /// a placeholder replaced by a definition of a more-derived level
    pub const OVERRIDDEN: u32 = 8;
    /// a placeholder nested in another block replaced by a TOP-LEVEL definition of a descendant
    pub const NESTED_OVERRIDDEN_AT_TOP: u32 = 16;
    /// a placeholder replaced by a definition that is nested in another block of a descendant
    pub const OVERRIDDEN_BY_NESTED: u32 = 32;
    /// a block rendered inside a capturing section
    pub const BLOCK_IN_CAPTURE: u32 = 64;
    /// one block rendered more than once during one render
    pub const MULTI: u32 = 128;
    /// a block placeholder met while rendering a body reached through `super()`
    pub const BLOCK_UNDER_SUPER: u32 = 256;
    /// `super()` reached at two or more levels of one block (a walk of length >= 2)
    pub const SUPER_DEEP: u32 = 512;
    pub const NAMES: [(u32, &str); 10] = [
        (SUPER, "super"),
        (SUPER_SKIPS, "super-skips-ancestor"),
        (SUPER_ERROR, "super-without-ancestor"),
        (OVERRIDDEN, "placeholder-overridden"),
        (NESTED_OVERRIDDEN_AT_TOP, "nested-placeholder-overridden-at-top-level"),
        (OVERRIDDEN_BY_NESTED, "placeholder-overridden-by-nested-definition"),
        (BLOCK_IN_CAPTURE, "block-inside-capture"),
        (MULTI, "block-rendered-twice"),
        (BLOCK_UNDER_SUPER, "placeholder-under-super"),
        (SUPER_DEEP, "super-walk-two-levels"),
    ];
}

#[derive(Clone, Debug, PartialEq, Eq)]
pub struct Rendered {
    pub out: Result<String, RefError>,
    /// per block name: what it wrote (only blocks whose rendering completed)
    pub blocks: BTreeMap<String, BlockRecord>,
    pub events: u32,
    /// largest number of block placeholders being rendered at the same time (`super()` bodies
    /// not counted): the engine refuses more than 40 (its guard against blocks that render each
    /// other for ever)
    pub max_block_depth: usize,
}

const MAX_DEPTH: usize = 96;

struct Walk<'a> {
    defs: Vec<Vec<Def<'a>>>,
    blocks: BTreeMap<String, BlockRecord>,
    events: u32,
    /// definitions (block, level) whose body is being rendered: rendering a definition is a
    /// function of (block, level) alone, so meeting one that is already active never terminates
    active: Vec<(&'a str, usize)>,
    max_block_depth: usize,
}

#[derive(Clone, Copy)]
struct Frame<'a> {
    /// the block whose definition is running, and the level that gave it
    cur: Option<(&'a str, usize)>,
    /// level whose source is being walked
    lvl: usize,
    captures: usize,
    supers: usize,
    depth: usize,
    /// block placeholders being rendered
    blocks: usize,
}

impl<'a> Walk<'a> {
    fn find(&self, level: usize, name: &str) -> Option<Def<'a>> {
        self.defs[level].iter().find(|d| d.block.name == name).copied()
    }

    /// Renders the body of the definition of `name` given by level `j`.
    fn definition(&mut self, def: Def<'a>, name: &'a str, j: usize, f: Frame<'a>, out: &mut String) -> Result<(), RefError> {
        if self.active.contains(&(name, j)) {
            return Err(RefError::Diverges);
        }
        self.active.push((name, j));
        let r = self.items(&def.block.body, Frame { cur: Some((name, j)), lvl: j, depth: f.depth + 1, ..f }, out);
        self.active.pop();
        r
    }

    fn items(&mut self, items: &'a [Item], f: Frame<'a>, out: &mut String) -> Result<(), RefError> {
        if f.depth > MAX_DEPTH {
            return Err(RefError::Diverges);
        }
        for it in items {
            match it {
                Item::Text(t) => out.push_str(t),
                Item::Wrap(w, inner) => {
                    let mut s = String::new();
                    let r = self.items(inner, Frame { captures: f.captures + 1, depth: f.depth + 1, ..f }, &mut s);
                    r?;
                    out.push_str(&w.apply(&s));
                }
                Item::Block(b) => {
                    let name = b.name.as_str();
                    let top = self.defs.len() - 1;
                    // most-derived definition
                    let (j, def) = (0..=top)
                        .rev()
                        .find_map(|j| self.find(j, name).map(|d| (j, d)))
                        .expect("the placeholder's own level defines the block");
                    if j > f.lvl {
                        self.events |= ev::OVERRIDDEN;
                        if f.cur.is_some() && !def.nested {
                            self.events |= ev::NESTED_OVERRIDDEN_AT_TOP;
                        }
                        if def.nested {
                            self.events |= ev::OVERRIDDEN_BY_NESTED;
                        }
                    }
                    if f.captures > 0 {
                        self.events |= ev::BLOCK_IN_CAPTURE;
                    }
                    if f.supers > 0 {
                        self.events |= ev::BLOCK_UNDER_SUPER;
                    }
                    let mut s = String::new();
                    self.max_block_depth = self.max_block_depth.max(f.blocks + 1);
                    self.definition(def, name, j, Frame { supers: 0, blocks: f.blocks + 1, ..f }, &mut s)?;
                    match self.blocks.get_mut(name) {
                        Some(rec) => {
                            rec.times += 1;
                            rec.in_capture |= f.captures > 0;
                            if rec.text != s {
                                rec.inconsistent = true;
                            }
                            self.events |= ev::MULTI;
                        }
                        None => {
                            self.blocks.insert(
                                name.to_string(),
                                BlockRecord { text: s.clone(), times: 1, inconsistent: false, in_capture: f.captures > 0 },
                            );
                        }
                    }
                    out.push_str(&s);
                }
                Item::Super | Item::SuperUpper => {
                    let (name, j) = f.cur.expect("super() is only generated inside a block");
                    self.events |= ev::SUPER;
                    let target = (0..j).rev().find_map(|jj| self.find(jj, name).map(|d| (jj, d)));
                    let Some((jj, def)) = target else {
                        self.events |= ev::SUPER_ERROR;
                        return Err(RefError::SuperWithoutAncestor { block: name.to_string(), level: j });
                    };
                    if jj + 1 < j {
                        self.events |= ev::SUPER_SKIPS;
                    }
                    if f.supers >= 1 {
                        self.events |= ev::SUPER_DEEP;
                    }
                    let mut s = String::new();
                    self.definition(def, name, jj, Frame { supers: f.supers + 1, ..f }, &mut s)?;
                    if *it == Item::SuperUpper {
                        s = s.to_uppercase();
                    }
                    out.push_str(&s);
                }
            }
        }
        Ok(())
    }
}

/// Renders template `top` of the chain (its ancestors are `levels[..top]`).
pub fn reference_render(levels: &[&Level], top: usize) -> Rendered {
    let chain: &[&Level] = &levels[..=top];
    let mut w = Walk { defs: chain.iter().map(|l| defs_of(l)).collect(), blocks: BTreeMap::new(), events: 0, active: vec![], max_block_depth: 0 };
    let mut out = String::new();
    let root: &Level = chain[0];
    let r = w.items(&root.body, Frame { cur: None, lvl: 0, captures: 0, supers: 0, depth: 0, blocks: 0 }, &mut out);
    Rendered { out: r.map(|()| out), blocks: w.blocks, events: w.events, max_block_depth: w.max_block_depth }
}

/// What `render_block(top, name)` has to return according to the property.
#[derive(Clone, Debug, PartialEq, Eq)]
pub enum BlockExpect {
    /// no template of the chain defines the block: an error
    NoSuchBlock,
    /// the full render fails: an error (if the block completed before the failure, its text)
    RenderFails(Option<String>),
    /// exactly this text ("" when the block is never reached)
    Text(String),
    /// the reference met two different renderings of the block: any of them (never happens here)
    Ambiguous,
}

pub fn expect_block(levels: &[&Level], top: usize, r: &Rendered, name: &str) -> BlockExpect {
    let defined = levels[..=top].iter().any(|l| defs_of(l).iter().any(|d| d.block.name == name));
    if !defined {
        return BlockExpect::NoSuchBlock;
    }
    let rec = r.blocks.get(name);
    if rec.map(|x| x.inconsistent).unwrap_or(false) {
        return BlockExpect::Ambiguous;
    }
    match &r.out {
        Err(_) => BlockExpect::RenderFails(rec.map(|x| x.text.clone())),
        Ok(_) => BlockExpect::Text(rec.map(|x| x.text.clone()).unwrap_or_default()),
    }
}

// ------------------------------------------------------------------------ the option alphabet

/// One level of the C04 alphabet (DESIGN.md §4 C04). Block universe {a, b, n}; n may be nested in a.
#[derive(Clone, Copy, Debug, PartialEq, Eq, PartialOrd, Ord)]
pub struct LevelOpt {
    /// block a: 0 absent, 1 plain, 2 super() before the text, 3 after, 4 twice (before and after),
    /// 5 (extended) super() inside `{% filter upper %}` before the text
    pub a: u8,
    /// n nested inside a: 0 no, 1 plain, 2 with super(), 3/4 (extended) the same inside a
    /// `{% filter upper %}` section of a's body
    pub nn: u8,
    /// n at top level: 0 absent, 1 plain, 2 with super()
    pub nt: u8,
    /// b: 0 absent, 1 plain, 2 with super(), 3 (extended) `{{ super() | upper }}` after the text
    pub b: u8,
    /// where the ROOT places b: 0 bare, 1 filter section, 2 set block, 3 component call body,
    /// 4 filter in filter, 5 set block in filter, 6 filter in component call body
    pub place: u8,
}

pub const A_NAMES: [&str; 6] = ["absent", "plain", "super-before", "super-after", "super-twice", "super-in-filter"];
pub const NN_NAMES: [&str; 5] = ["no", "plain", "super", "plain-in-filter", "super-in-filter"];
pub const T_NAMES: [&str; 3] = ["absent", "plain", "super"];
pub const B_NAMES: [&str; 4] = ["absent", "plain", "super", "super-as-filtered-value-after-text"];
pub const PLACE_NAMES: [&str; 7] = [
    "bare",
    "in-filter-section",
    "in-set-block",
    "in-component-body",
    // two captures open at once (seeded change C04-2: only the innermost capture was set aside)
    "in-filter-in-filter",
    "in-set-block-in-filter",
    "in-filter-in-component-body",
];

impl LevelOpt {
    pub const EMPTY: LevelOpt = LevelOpt { a: 0, nn: 0, nt: 0, b: 0, place: 0 };

    pub fn describe(&self) -> String {
        format!(
            "a={} n-in-a={} n-top={} b={}{}",
            A_NAMES[self.a as usize],
            NN_NAMES[self.nn as usize],
            T_NAMES[self.nt as usize],
            B_NAMES[self.b as usize],
            if self.b != 0 && self.place != 0 { format!("@{}", PLACE_NAMES[self.place as usize]) } else { String::new() }
        )
    }

    /// The level this option denotes at depth `k` of a chain. Every text piece is a unique
    /// lower-case marker naming block + level (+ position): `a2p`/`a2q` the two halves of a's
    /// text at level 2, `n2i` the nested n, `n2t` the top-level n, `b2`, `-s2.0-` … `-s2.3-` the
    /// text outside blocks (which is output only when the level is the root).
    pub fn level(&self, k: usize) -> Level {
        let mut body = vec![text(format!("-s{k}.0-"))];
        if self.a != 0 {
            let mut a = vec![];
            match self.a {
                2 | 4 => a.push(Item::Super),
                5 => a.push(Item::Wrap(Wrap::Filter, vec![Item::Super])),
                _ => {}
            }
            a.push(text(format!("a{k}p")));
            if self.nn != 0 {
                let mut n = vec![];
                if self.nn == 2 || self.nn == 4 {
                    n.push(Item::Super);
                }
                n.push(text(format!("n{k}i")));
                let nb = block("n", n);
                if self.nn >= 3 {
                    a.push(Item::Wrap(Wrap::Filter, vec![text(format!("f{k}")), nb]));
                } else {
                    a.push(nb);
                }
            }
            a.push(text(format!("a{k}q")));
            if self.a == 3 || self.a == 4 {
                a.push(Item::Super);
            }
            body.push(block("a", a));
        }
        body.push(text(format!("-s{k}.1-")));
        if self.nt != 0 {
            let mut n = vec![];
            if self.nt == 2 {
                n.push(Item::Super);
            }
            n.push(text(format!("n{k}t")));
            body.push(block("n", n));
        }
        body.push(text(format!("-s{k}.2-")));
        if self.b != 0 {
            let mut b = vec![];
            if self.b == 2 {
                b.push(Item::Super);
            }
            b.push(text(format!("b{k}")));
            if self.b == 3 {
                b.push(Item::SuperUpper);
            }
            let bb = block("b", b);
            let wrapped = |w: Wrap| Item::Wrap(w, vec![text(format!("w{k}")), bb.clone(), text(format!("v{k}"))]);
            let wrapped2 = |outer: Wrap, inner: Wrap| {
                Item::Wrap(outer, vec![text(format!("u{k}")), wrapped(inner), text(format!("t{k}"))])
            };
            body.push(match self.place {
                0 => bb.clone(),
                1 => wrapped(Wrap::Filter),
                2 => wrapped(Wrap::Set),
                3 => wrapped(Wrap::Component),
                4 => wrapped2(Wrap::Filter, Wrap::Filter),
                5 => wrapped2(Wrap::Filter, Wrap::Set),
                _ => wrapped2(Wrap::Component, Wrap::Filter),
            });
        }
        body.push(text(format!("-s{k}.3-")));
        Level { body }
    }
}

/// The per-level alphabet, simplest first. `with_b`: include block b; `extended`: include the
/// in-filter variants of a and of the nested n; `root`: include the three capturing placements of
/// b (only the root's top-level text is ever rendered, so only the root needs them).
/// A name is defined at most once per template (n nested in a excludes n at top level).
pub fn alphabet(with_b: bool, extended: bool, root: bool) -> Vec<LevelOpt> {
    let mut v = vec![];
    let a_max = if extended { 5 } else { 4 };
    let nn_max = if extended { 4 } else { 2 };
    for b in 0..=(if !with_b { 0u8 } else if extended { 3 } else { 2 }) {
        for place in 0..=(if root && b != 0 { 6u8 } else { 0 }) {
            for a in 0..=a_max {
                for nn in 0..=(if a == 0 { 0 } else { nn_max }) {
                    for nt in 0..=(if nn == 0 { 2u8 } else { 0 }) {
                        v.push(LevelOpt { a, nn, nt, b, place });
                    }
                }
            }
        }
    }
    v
}

/// A small alphabet for the deepest order family: a and the two ways of defining n, with and
/// without super().
pub fn alphabet_small() -> Vec<LevelOpt> {
    let mut v = vec![];
    for (a, nn, nt) in [
        (0, 0, 0),
        (1, 0, 0),
        (2, 0, 0),
        (4, 0, 0),
        (0, 0, 1),
        (0, 0, 2),
        (1, 1, 0),
        (1, 2, 0),
        (2, 1, 0),
        (3, 2, 0),
        (2, 0, 2),
        (1, 0, 1),
    ] {
        v.push(LevelOpt { a, nn, nt, b: 0, place: 0 });
    }
    v
}

// ------------------------------------------------------------------ general nestings (forests)

/// Every way one template can define a subset of `names` as a forest of nested blocks, each block
/// with or without `super()` (before its text). Sibling order follows `names`. Markers: `<name><k>`.
pub fn forests(names: &[&str]) -> Vec<ForestOpt> {
    // parent[i] in {none = i (absent marker usize::MAX), root = names.len(), or index of another present block}
    let n = names.len();
    let mut out = vec![];
    // state per block: absent | parent (n = top level, j = inside block j)
    let mut choice = vec![0usize; n]; // 0 absent, 1 top, 2+j inside block j
    loop {
        // validate: parents present, no self, acyclic
        let mut ok = true;
        for i in 0..n {
            if choice[i] >= 2 {
                let p = choice[i] - 2;
                if p == i || choice[p] == 0 {
                    ok = false;
                }
            }
        }
        if ok {
            for i in 0..n {
                let mut cur = i;
                let mut steps = 0;
                while choice[cur] >= 2 {
                    cur = choice[cur] - 2;
                    steps += 1;
                    if steps > n {
                        ok = false;
                        break;
                    }
                }
            }
        }
        if ok {
            let present: Vec<usize> = (0..n).filter(|&i| choice[i] != 0).collect();
            for mask in 0..(1u32 << present.len()) {
                let mut sup = vec![false; n];
                for (bit, &i) in present.iter().enumerate() {
                    sup[i] = mask & (1 << bit) != 0;
                }
                out.push(ForestOpt {
                    names: names.iter().map(|s| s.to_string()).collect(),
                    parent: choice
                        .iter()
                        .map(|&c| match c {
                            0 => None,
                            1 => Some(None),
                            c => Some(Some(c - 2)),
                        })
                        .collect(),
                    sup,
                });
            }
        }
        // next
        let mut i = 0;
        loop {
            if i == n {
                // simplest first: fewest blocks, then fewest super() calls
                out.sort_by_key(|f: &ForestOpt| {
                    (f.parent.iter().filter(|p| p.is_some()).count(), f.sup.iter().filter(|s| **s).count())
                });
                return out;
            }
            choice[i] += 1;
            if choice[i] < n + 2 {
                break;
            }
            choice[i] = 0;
            i += 1;
        }
    }
}

/// One template as a forest of nested blocks.
#[derive(Clone, Debug, PartialEq, Eq)]
pub struct ForestOpt {
    pub names: Vec<String>,
    /// per block: None = absent, Some(None) = top level, Some(Some(j)) = nested directly in block j
    pub parent: Vec<Option<Option<usize>>>,
    /// per block: calls super() before its text
    pub sup: Vec<bool>,
}

impl ForestOpt {
    pub fn describe(&self) -> String {
        let mut parts = vec![];
        for (i, p) in self.parent.iter().enumerate() {
            if let Some(p) = p {
                parts.push(format!(
                    "{}{}{}",
                    self.names[i],
                    match p {
                        None => String::new(),
                        Some(j) => format!(" in {}", self.names[*j]),
                    },
                    if self.sup[i] { " +super" } else { "" }
                ));
            }
        }
        if parts.is_empty() { "no blocks".into() } else { parts.join(", ") }
    }

    fn build(&self, i: usize, k: usize) -> Item {
        let mut body = vec![];
        if self.sup[i] {
            body.push(Item::Super);
        }
        body.push(text(format!("{}{k}", self.names[i])));
        for j in 0..self.names.len() {
            if self.parent[j] == Some(Some(i)) {
                body.push(self.build(j, k));
            }
        }
        body.push(text(format!("/{}{k}", self.names[i])));
        block(&self.names[i], body)
    }

    pub fn level(&self, k: usize) -> Level {
        let mut body = vec![text(format!("-s{k}-"))];
        for i in 0..self.names.len() {
            if self.parent[i] == Some(None) {
                body.push(self.build(i, k));
                body.push(text(format!("-s{k}-")));
            }
        }
        Level { body }
    }
}

// ------------------------------------------------------------------------ documentation example

/// The grandparent / parent / child example of docs/content/_index.md ("Nested blocks also work
/// in Tera"), transcribed, with the result the documentation states.
pub fn doc_example() -> (Chain, Vec<String>, &'static str) {
    let grandparent = Level { body: vec![block("hey", vec![text("hello")])] };
    let parent = Level {
        body: vec![block(
            "hey",
            vec![text("hi and grandma says "), Item::Super, text(" "), block("ending", vec![text("sincerely")])],
        )],
    };
    let child = Level {
        body: vec![
            block("hey", vec![text("dad says "), Item::Super]),
            block("ending", vec![Item::Super, text(" with love")]),
        ],
    };
    (
        Chain { levels: vec![grandparent, parent, child] },
        vec!["grandparent".into(), "parent".into(), "child".into()],
        "dad says hi and grandma says hello sincerely with love",
    )
}

/// The same example in the documentation's own spelling (line breaks and `endblock <name>` included).
pub fn doc_example_literal() -> Vec<(String, String)> {
    vec![
        ("grandparent".into(), "{% block hey %}hello{% endblock hey %}\n".into()),
        (
            "parent".into(),
            "{% extends \"grandparent\" %}\n{% block hey %}hi and grandma says {{ super() }} {% block ending %}sincerely{% endblock ending %}{% endblock hey %}\n".into(),
        ),
        (
            "child".into(),
            "{% extends \"parent\" %}\n{% block hey %}dad says {{ super() }}{% endblock hey %}\n{% block ending %}{{ super() }} with love{% endblock ending %}\n".into(),
        ),
    ]
}

/// Self-test of the reference on facts stated by the documentation and by the property text.
/// Returns the list of failed expectations (empty = the oracle agrees with the documents).
pub fn reference_self_test() -> Vec<String> {
    let mut bad = vec![];
    let (chain, _, want) = doc_example();
    let lv: Vec<&Level> = chain.levels.iter().collect();
    let r = reference_render(&lv, 2);
    if r.out.as_deref() != Ok(want) {
        bad.push(format!("doc example: reference gives {:?}, documentation says {want:?}", r.out));
    }
    if r.blocks.get("ending").map(|b| b.text.as_str()) != Some("sincerely with love") {
        bad.push(format!("doc example: block `ending` recorded as {:?}", r.blocks.get("ending")));
    }
    if chain_verdict(&lv).is_err() {
        bad.push("doc example: reference rejects the documented chain".into());
    }
    // parent alone: "hi and grandma says hello sincerely"
    let r = reference_render(&lv, 1);
    if r.out.as_deref() != Ok("hi and grandma says hello sincerely") {
        bad.push(format!("doc example, parent: {:?}", r.out));
    }
    // the base/child pair of the documentation: un-overridden blocks keep the base's content,
    // super() renders the parent block
    let base = Level {
        body: vec![
            text("<head>"),
            block("head", vec![text("<link/>"), block("title", vec![]), text(" - My Webpage")]),
            text("</head><div>"),
            block("content", vec![]),
            text("</div>"),
            block("footer", vec![text("(c)")]),
        ],
    };
    let child = Level {
        body: vec![
            block("title", vec![text("Index")]),
            block("head", vec![Item::Super, text("<style/>")]),
            block("content", vec![text("<h1>Index</h1>")]),
        ],
    };
    let lv2 = [&base, &child];
    let r = reference_render(&lv2, 1);
    let want = "<head><link/>Index - My Webpage<style/></head><div><h1>Index</h1></div>(c)";
    if r.out.as_deref() != Ok(want) {
        bad.push(format!("base/child example: {:?}", r.out));
    }
    // super() at the top of the chain is an error; the F-block shape records the block's own text
    let top = Level { body: vec![block("a", vec![Item::Super, text("x")])] };
    if reference_render(&[&top], 0).out.is_ok() {
        bad.push("super() without ancestor must be an error".into());
    }
    let fb = Level {
        body: vec![text("A"), Item::Wrap(Wrap::Filter, vec![text("x"), block("a", vec![text("hello")]), text("y")]), text("B")],
    };
    let r = reference_render(&[&fb], 0);
    if r.out.as_deref() != Ok("AXHELLOYB") || r.blocks.get("a").map(|b| b.text.as_str()) != Some("hello") {
        bad.push(format!("filter-section shape: {:?} / {:?}", r.out, r.blocks.get("a")));
    }
    // a child block unknown to every ancestor is refused; a nested new block is not
    let c1 = Level { body: vec![block("zz", vec![])] };
    if chain_verdict(&[&top, &c1]).is_ok() {
        bad.push("unknown child block must be refused".into());
    }
    let c2 = Level { body: vec![block("a", vec![block("zz", vec![])])] };
    if chain_verdict(&[&top, &c2]).is_err() {
        bad.push("a new block nested in an overriding block must be accepted".into());
    }
    // divergence is recognised
    let t1 = Level { body: vec![block("a", vec![text("x"), block("n", vec![text("y")])])] };
    let t2 = Level { body: vec![block("n", vec![block("a", vec![Item::Super])])] };
    let t0 = Level { body: vec![block("a", vec![text("a0")])] };
    if reference_render(&[&t0, &t1, &t2], 2).out != Err(RefError::Diverges) {
        bad.push("mutual block recursion must be recognised as divergent".into());
    }
    bad
}
