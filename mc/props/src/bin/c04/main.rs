//! C04 — inheritance: blocks resolve to the most-derived override, `super()` walks up to the
//! nearest ancestor that defines the block, nested blocks, any registration order; `render_block`
//! returns exactly the text the block writes during the full render.
//!
//! Every chain of a family is printed to template sources, registered on a fresh `Tera`, and
//! `render` of every level plus `render_block` of every block name {a, b, n, z} of every level is
//! compared with the reference of `inherit.rs` (written from the documentation and the property
//! statement; it never calls the engine).
//!
//! Families
//!   doc-example     the grandparent/parent/child example of the documentation, in the documentation's
//!                   spelling and through the printer, every registration
//!   chains-L<k>     every chain of length k over the per-level alphabet, one batch, parents first
//!   orders-L<k>     every chain of length k over a sub-alphabet x every assignment of the names
//!                   t0..t{k-1} to the levels x every batch order, plus the one-by-one parents-first history
//!   include-of-chain-L<k>  every level of every chain over the sub-alphabet rendered through `{% include %}`
//!   nestings-*      every forest of nested blocks per level (all nestings of 2 / 3 block names)
//!   deviations-L5-* chains of length 5 where at most 2 levels differ from a default level

mod inherit;

use inherit::{BlockExpect, ForestOpt, Level, LevelOpt, RefError, Rendered, ev};
use mccore::engine::{self, Out};
use mccore::{Acc, Family, Json, Run, json};

/// Block names asked of `render_block` at every level (`z` is defined nowhere).
const PROBES: [&str; 4] = ["a", "b", "n", "z"];

// ------------------------------------------------------------------------------------- spaces

/// Per level index k, the options available there, pre-printed.
struct Space {
    lv: Vec<Vec<Level>>,
    src: Vec<Vec<String>>,
    desc: Vec<Vec<String>>,
}

impl Space {
    fn from_opts(root: &[LevelOpt], rest: &[LevelOpt], max_l: usize) -> Space {
        let mut s = Space { lv: vec![], src: vec![], desc: vec![] };
        for k in 0..max_l {
            let opts = if k == 0 { root } else { rest };
            let lv: Vec<Level> = opts.iter().map(|o| o.level(k)).collect();
            s.src.push(lv.iter().map(|l| inherit::body_source(l, k)).collect());
            s.desc.push(opts.iter().map(|o| o.describe()).collect());
            s.lv.push(lv);
        }
        s
    }
    fn from_forests(f: &[ForestOpt], max_l: usize) -> Space {
        let mut s = Space { lv: vec![], src: vec![], desc: vec![] };
        for k in 0..max_l {
            let lv: Vec<Level> = f.iter().map(|o| o.level(k)).collect();
            s.src.push(lv.iter().map(|l| inherit::body_source(l, k)).collect());
            s.desc.push(f.iter().map(|o| o.describe()).collect());
            s.lv.push(lv);
        }
        s
    }
    fn n(&self, k: usize) -> u64 {
        self.lv[k].len() as u64
    }
    /// number of prefixes (levels 0..l-1 fixed, the last level iterated inside the item)
    fn prefixes(&self, l: usize) -> u64 {
        (0..l - 1).map(|k| self.n(k)).product()
    }
    fn chains(&self, l: usize) -> u64 {
        (0..l).map(|k| self.n(k)).product()
    }
    /// item -> option index of levels 0..l-1 (level l-2 varies fastest)
    fn decode_prefix(&self, l: usize, mut item: u64) -> Vec<usize> {
        let mut v = vec![0usize; l - 1];
        for k in (0..l - 1).rev() {
            v[k] = (item % self.n(k)) as usize;
            item /= self.n(k);
        }
        v
    }
}

// ------------------------------------------------------------------------------ registrations

/// One way of registering a chain.
#[derive(Clone, Debug)]
struct Registration {
    /// name of level k
    names: Vec<String>,
    /// levels in the order they are handed to the engine
    order: Vec<usize>,
    /// false: one `add_raw_templates` batch; true: one `add_raw_template` call per template
    one_by_one: bool,
}

impl Registration {
    fn canonical(l: usize) -> Registration {
        Registration { names: (0..l).map(|k| format!("t{k}")).collect(), order: (0..l).collect(), one_by_one: false }
    }
    fn words(&self) -> String {
        if self.one_by_one { "one add_raw_template call per template, in the order listed".into() } else { "one add_raw_templates batch, in the order listed".into() }
    }
}

fn permutations(n: usize) -> Vec<Vec<usize>> {
    fn rec(cur: &mut Vec<usize>, used: &mut Vec<bool>, n: usize, out: &mut Vec<Vec<usize>>) {
        if cur.len() == n {
            out.push(cur.clone());
            return;
        }
        for i in 0..n {
            if !used[i] {
                used[i] = true;
                cur.push(i);
                rec(cur, used, n, out);
                cur.pop();
                used[i] = false;
            }
        }
    }
    let mut out = vec![];
    rec(&mut vec![], &mut vec![false; n], n, &mut out);
    out
}

// ---------------------------------------------------------------------------------- observing

#[derive(Clone, Debug, PartialEq, Eq)]
struct LevelObs {
    render: Out,
    blocks: Vec<Out>,
}

#[derive(Clone, Debug, PartialEq, Eq)]
struct Obs {
    /// result of every add call (one for a batch)
    adds: Vec<Out>,
    /// per level: None when the engine did not register it
    levels: Vec<Option<LevelObs>>,
}

impl Obs {
    /// what differential comparisons look at: error messages dropped
    fn coarse(&self) -> Vec<String> {
        let mut v: Vec<String> = self.adds.iter().map(|o| o.coarse()).collect();
        for l in &self.levels {
            match l {
                None => v.push("unregistered".into()),
                Some(l) => {
                    v.push(l.render.coarse());
                    v.extend(l.blocks.iter().map(|o| o.coarse()));
                }
            }
        }
        v
    }
}

/// `render_block` and its writer sibling `render_block_to` (own existence test and own buffer
/// hand-over in the engine): one answer, or an `ApiMismatch` error no reference ever expects.
fn render_block_both(t: &tera::Tera, name: &str, block: &str, ctx: &tera::Context) -> Out {
    let a = engine::render_block(t, name, block, ctx);
    let mut buf: Vec<u8> = vec![];
    let b = match engine::guarded(|| t.render_block_to(name, block, ctx, &mut buf)) {
        Ok(Ok(())) => Out::Ok(String::from_utf8_lossy(&buf).into_owned()),
        Ok(Err(e)) => Out::Err(engine::kind_tag(e.kind()).to_string(), engine::err_message(&e)),
        Err(p) => Out::Panic(p),
    };
    if a.coarse() == b.coarse() {
        a
    } else {
        Out::Err("ApiMismatch".into(), format!("render_block gives {}, render_block_to gives {}", a.show(), b.show()))
    }
}

/// Registers `bodies[k]` (source of level k without its extends tag) as `reg` says on a fresh
/// engine, then renders every registered level and every probe block of it.
fn observe(bodies: &[&str], reg: &Registration) -> (Obs, Vec<(String, String)>) {
    observe_with(bodies, reg, true)
}

/// `probes = false`: registration and the full render of every level only.
fn observe_with(bodies: &[&str], reg: &Registration, probes: bool) -> (Obs, Vec<(String, String)>) {
    let l = bodies.len();
    let ctx = tera::Context::new();
    let sources: Vec<(String, String)> = reg
        .order
        .iter()
        .map(|&k| {
            let src = if k == 0 {
                bodies[0].to_string()
            } else {
                format!("{{% extends \"{}\" %}}{}", reg.names[k - 1], bodies[k])
            };
            (reg.names[k].clone(), src)
        })
        .collect();
    thread_local! {
        static PRISTINE: tera::Tera = tera::Tera::default();
    }
    let mut t = PRISTINE.with(|p| p.clone());
    if HOST_SUPER.with(|c| c.get()) {
        t.register_function("super", |_: tera::Kwargs, _: &tera::State| "HOST".to_string());
    }
    let mut registered = vec![false; l];
    let mut adds = vec![];
    if reg.one_by_one {
        for (i, s) in sources.iter().enumerate() {
            let o = engine::add_templates(&mut t, std::slice::from_ref(s));
            registered[reg.order[i]] = o.is_ok();
            adds.push(o);
        }
    } else {
        let o = engine::add_templates(&mut t, &sources);
        if o.is_ok() {
            registered.iter_mut().for_each(|r| *r = true);
        }
        adds.push(o);
    }
    let levels = (0..l)
        .map(|k| {
            if !registered[k] {
                return None;
            }
            let name = reg.names[k].as_str();
            Some(LevelObs {
                render: engine::render(&t, name, &ctx),
                blocks: if probes { PROBES.iter().map(|b| render_block_both(&t, name, b, &ctx)).collect() } else { vec![] },
            })
        })
        .collect();
    (Obs { adds, levels }, sources)
}

/// Source of level k under `names`: as a child of level k-1, or (k == 0 or `as_root`) without an
/// extends tag.
fn level_source(bodies: &[&str], names: &[String], k: usize, as_root: bool) -> (String, String) {
    let src = if k == 0 || as_root { bodies[k].to_string() } else { format!("{{% extends \"{}\" %}}{}", names[k - 1], bodies[k]) };
    (names[k].clone(), src)
}

/// Runs a history of add calls on one engine, then observes the levels `from..` by name.
fn observe_history(names: &[String], from: usize, steps: &[Vec<(String, String)>]) -> Obs {
    let ctx = tera::Context::new();
    let mut t = tera::Tera::default();
    let adds: Vec<Out> = steps.iter().map(|s| engine::add_templates(&mut t, s)).collect();
    let levels = names[from..]
        .iter()
        .map(|name| {
            if !t.get_template_names().any(|n| n == name) {
                return None;
            }
            Some(LevelObs {
                render: engine::render(&t, name, &ctx),
                blocks: PROBES.iter().map(|b| render_block_both(&t, name, b, &ctx)).collect(),
            })
        })
        .collect();
    Obs { adds, levels }
}

/// A chain that reaches its final shape through re-registration: it *grows at the top* (levels
/// s.. are registered first with level s as a root; then levels 0..s arrive and level s is re-added
/// as a child), or it is *cut* (the whole chain is registered, then level s is re-added as a root).
/// Whatever the history, the instance must behave like a fresh one given the final set in one batch.
fn run_regrowth(bodies: &[&str], name_perms: &[Vec<usize>], acc: &mut Acc) {
    let l = bodies.len();
    for np in name_perms {
        let names: Vec<String> = (0..l).map(|k| format!("t{}", np[k])).collect();
        let (fresh, fsources) = observe(bodies, &Registration { names: names.clone(), order: (0..l).collect(), one_by_one: false });
        for s in 1..l {
            let tail_first: Vec<(String, String)> = (s..l).map(|k| level_source(bodies, &names, k, k == s)).collect();
            let head_then: Vec<(String, String)> = (0..=s).map(|k| level_source(bodies, &names, k, false)).collect();
            let full: Vec<(String, String)> = (0..l).map(|k| level_source(bodies, &names, k, false)).collect();
            let cut: Vec<(String, String)> = vec![level_source(bodies, &names, s, true)];
            let singles = |v: &[(String, String)]| -> Vec<Vec<(String, String)>> { v.iter().map(|x| vec![x.clone()]).collect() };
            let mut one_by_one = singles(&tail_first);
            one_by_one.extend(singles(&head_then));
            // the sub-chain s.. with level s as a root, fresh: what the cut instance must look like
            let (fresh_cut, _) = observe(&bodies[s..], &Registration { names: names[s..].to_vec(), order: (0..l - s).collect(), one_by_one: false });
            let histories: [(&str, Vec<Vec<(String, String)>>, usize, &Obs); 3] = [
                ("grow-at-top:two-batches", vec![tail_first.clone(), head_then.clone()], 0, &fresh),
                ("grow-at-top:one-by-one", one_by_one, 0, &fresh),
                ("cut:full-batch-then-level-as-root", vec![full.clone(), cut.clone()], s, &fresh_cut),
            ];
            for (hname, steps, from, want) in histories {
                let obs = observe_history(&names, from, &steps);
                let n = 1 + obs.levels.iter().flatten().count() as u64 * (1 + PROBES.len() as u64);
                let earlier_ok = obs.adds[..obs.adds.len() - 1].iter().all(|o| o.is_ok());
                let case = || {
                    json!({
                        "history": steps.iter().map(|b| b.iter().map(|(n, s)| json!({"name": n, "source": s})).collect::<Vec<_>>()).collect::<Vec<_>>(),
                        "adds": obs.adds.iter().map(|o| o.show()).collect::<Vec<_>>(),
                        "final_set_in_one_batch_on_a_fresh_instance": fsources.iter().map(|(n, s)| json!({"name": n, "source": s})).collect::<Vec<_>>(),
                        "observed_levels": obs.levels.iter().map(|x| x.as_ref().map(|x| (x.render.show(), x.blocks.iter().map(|o| o.show()).collect::<Vec<_>>()))).collect::<Vec<_>>(),
                        "fresh_levels": want.levels.iter().map(|x| x.as_ref().map(|x| (x.render.show(), x.blocks.iter().map(|o| o.show()).collect::<Vec<_>>()))).collect::<Vec<_>>(),
                        "calls": "per level render + render_block a, b, n, z",
                    })
                };
                if !earlier_ok || !want.adds[0].is_ok() {
                    // an intermediate set is not registrable (or the final one is not): nothing to compare
                    acc.case(false, &format!("regrowth:{hname}:intermediate-or-final-set-refused"));
                    continue;
                }
                if !obs.adds.last().unwrap().is_ok() {
                    acc.violation(&format!("regrowth:{hname}:final-call-refused"), "the call that completes the chain is refused although a fresh instance accepts the same final set", case);
                    continue;
                }
                let coarse = |o: &Obs| -> Vec<String> {
                    o.levels.iter().flat_map(|l| match l {
                        None => vec!["unregistered".to_string()],
                        Some(l) => std::iter::once(l.render.coarse()).chain(l.blocks.iter().map(|o| o.coarse())).collect(),
                    }).collect()
                };
                if coarse(&obs) == coarse(want) {
                    acc.evaluations += n;
                    acc.nontrivial += n;
                    *acc.outcomes.entry(format!("regrowth:{hname}:same-as-fresh")).or_insert(0) += n;
                } else {
                    acc.violation(&format!("regrowth:{hname}:differs-from-fresh"), "a chain completed through re-registration renders differently from a fresh instance holding the same templates", case);
                }
            }
        }
    }
}

// ------------------------------------------------------------------------------------ judging

/// What the reference says about one chain (independent of the registration).
struct Expect {
    /// level k and all its ancestors are registrable
    valid_upto: Vec<bool>,
    reject: Option<inherit::Reject>,
    renders: Vec<Rendered>,
    /// some registrable level has no finite rendering (blocks that render each other for ever)
    diverges: bool,
}

/// The engine refuses to have this many blocks open at once (its guard against endless mutual
/// block recursion); a finite render that needs more may be refused as well.
const ENGINE_BLOCK_DEPTH_LIMIT: usize = 40;

fn expect(levels: &[&Level]) -> Expect {
    let l = levels.len();
    let mut valid_upto = vec![];
    let mut reject = None;
    let mut ok = true;
    for k in 0..l {
        if ok && let Err(r) = inherit::level_verdict(levels, k) {
            ok = false;
            reject = Some(r);
        }
        valid_upto.push(ok);
    }
    let renders: Vec<Rendered> = (0..l).map(|k| inherit::reference_render(levels, k)).collect();
    let diverges = renders.iter().enumerate().any(|(k, r)| valid_upto[k] && r.out == Err(RefError::Diverges));
    Expect { valid_upto, reject, renders, diverges }
}

struct Tally {
    events: [u64; ev::NAMES.len()],
    multi_reached: u64,
    /// counted renders by the largest number of blocks open at once
    depth: [u64; 48],
}

impl Default for Tally {
    fn default() -> Self {
        Tally { events: [0; ev::NAMES.len()], multi_reached: 0, depth: [0; 48] }
    }
}

/// A wall-clock budget is a safety net of the thorough tier only (every family completes in a
/// fraction of it on 16 free cores; on an overloaded machine the evidence then says `cap_hit`).
fn with_budget(f: Family<'_>, budget: Option<f64>) -> Family<'_> {
    match budget {
        Some(s) => f.budget(s),
        None => f,
    }
}

/// Developer aid: `C04_ONLY=prefix[,prefix]` runs only the families whose name starts with one of
/// the prefixes (recorded in the evidence as `families_filter`; never set by ./check).
fn wanted(name: &str) -> bool {
    match std::env::var("C04_ONLY") {
        Ok(f) if !f.is_empty() => f.split(',').any(|p| name.starts_with(p)),
        _ => true,
    }
}

impl Tally {
    fn flush(&self, acc: &mut Acc) {
        for (i, (_, name)) in ev::NAMES.iter().enumerate() {
            if self.events[i] > 0 {
                acc.count(&format!("renders-with:{name}"), self.events[i]);
            }
        }
        for (d, n) in self.depth.iter().enumerate() {
            if *n > 0 {
                acc.count(&format!("renders-with-blocks-open-at-once:{d:02}"), *n);
            }
        }
        if self.multi_reached > 0 {
            acc.count("render_block-of-a-block-reached-several-times", self.multi_reached);
        }
    }
}

struct Judge<'a> {
    levels: &'a [&'a Level],
    descs: Vec<&'a str>,
    exp: &'a Expect,
    reg: &'a Registration,
    sources: &'a [(String, String)],
    /// signature prefix ("" for the canonical registration)
    prefix: &'a str,
    /// count the observations as cases (false for a baseline another family already counts)
    count: bool,
}

impl Judge<'_> {
    fn case_json(&self, call: &str, expected: &str, observed: &str) -> Json {
        json!({
            "templates": self.sources.iter().map(|(n, s)| json!({"name": n, "source": s})).collect::<Vec<_>>(),
            "registration": self.reg.words(),
            "levels": self.descs.iter().enumerate().map(|(k, d)| format!("level {k} = {} : {d}", self.reg.names[k])).collect::<Vec<_>>(),
            "context": "empty",
            "call": call,
            "expected": expected,
            "observed": observed,
        })
    }

    fn run(&self, obs: &Obs, acc: &mut Acc, tally: &mut Tally) {
        let l = self.levels.len();
        let p = self.prefix;
        // ---- registration decisions
        if self.reg.one_by_one {
            for (i, o) in obs.adds.iter().enumerate() {
                let k = self.reg.order[i];
                let want = self.exp.valid_upto[k];
                self.add_decision(o, want, &format!("add_raw_template({})", self.reg.names[k]), l >= 2, acc);
            }
        } else {
            let want = self.exp.valid_upto[l - 1];
            self.add_decision(&obs.adds[0], want, "add_raw_templates(all)", l >= 2, acc);
        }
        // ---- renders of what both sides registered
        for k in 0..l {
            let Some(lo) = &obs.levels[k] else { continue };
            if !self.exp.valid_upto[k] {
                continue; // wrongly accepted: already reported by add_decision
            }
            let name = self.reg.names[k].as_str();
            let r = &self.exp.renders[k];
            let nontrivial = k >= 1;
            if self.count {
                for (i, (bit, _)) in ev::NAMES.iter().enumerate() {
                    if r.events & bit != 0 {
                        tally.events[i] += 1;
                    }
                }
                tally.depth[r.max_block_depth.min(47)] += 1;
            }
            let sup = if r.events & ev::SUPER != 0 { ":super" } else { "" };
            let call = format!("render({name})");
            if r.out == Err(RefError::Diverges) {
                // no finite rendering exists: anything but a plain error is wrong (a crash is caught by the kernel)
                for (what, o) in std::iter::once((call.clone(), &lo.render)).chain(PROBES.iter().zip(&lo.blocks).map(|(b, o)| (format!("render_block({name}, {b})"), o))) {
                    if !o.is_err() {
                        acc.violation(
                            format!("{p}divergent-chain-rendered-{}", o.class()),
                            format!("{what} gave {}, but the blocks of this chain render each other for ever: only an error is acceptable", o.show()),
                            || self.case_json(&what, "Err (block resolution does not terminate)", &o.show()),
                        );
                    }
                    if self.count {
                        acc.case(true, if o.is_err() { "divergent:err" } else { "divergent:not-an-error" });
                    }
                }
                continue;
            }
            let deep = r.max_block_depth >= ENGINE_BLOCK_DEPTH_LIMIT;
            match (&r.out, &lo.render) {
                (Ok(w), Out::Ok(g)) if w == g => {}
                (Ok(_), Out::Err(..)) if deep => {}
                (Ok(w), Out::Ok(g)) => acc.violation(format!("{p}render:wrong-text{sup}"), format!("{call} gave {g:?}, the chain resolves to {w:?}"), || {
                    self.case_json(&call, &format!("Ok({w:?})"), &lo.render.show())
                }),
                (Ok(w), o) => acc.violation(format!("{p}render:{}-on-valid-chain{sup}", o.class()), format!("{call} gave {}, the chain resolves to {w:?}", o.show()), || {
                    self.case_json(&call, &format!("Ok({w:?})"), &o.show())
                }),
                (Err(_), Out::Err(..)) => {}
                (Err(e), o) => acc.violation(
                    format!("{p}render:{}-though-super-has-no-ancestor", o.class()),
                    format!("{call} gave {}, but a reached super() has no ancestor definition ({e:?})", o.show()),
                    || self.case_json(&call, &format!("Err ({e:?})"), &o.show()),
                ),
            }
            if self.count {
                acc.case(nontrivial, if lo.render.is_ok() { "render:ok" } else if lo.render.is_err() { "render:err" } else { "render:panic" });
            }
            for (bi, b) in PROBES.iter().enumerate() {
                let got = &lo.blocks[bi];
                let want = inherit::expect_block(self.levels, k, r, b);
                let call = format!("render_block({name}, {b})");
                let class: &str;
                match (&want, got) {
                    (BlockExpect::Ambiguous, _) => class = "render_block:ambiguous-reference",
                    (BlockExpect::NoSuchBlock, Out::Err(..)) => class = "render_block:no-such-block",
                    (BlockExpect::NoSuchBlock, o) => {
                        class = "render_block:violation";
                        acc.violation(format!("{p}render_block:{}-for-undefined-block", o.class()), format!("{call} gave {}, no template of the chain defines `{b}`", o.show()), || {
                            self.case_json(&call, "Err (no such block)", &o.show())
                        });
                    }
                    (BlockExpect::RenderFails(_), Out::Err(..)) => class = "render_block:err",
                    (BlockExpect::RenderFails(Some(t)), Out::Ok(g)) if t == g => class = "render_block:ok-before-failure",
                    (BlockExpect::RenderFails(t), o) => {
                        class = "render_block:violation";
                        acc.violation(
                            format!("{p}render_block:{}-though-full-render-fails", o.class()),
                            format!("{call} gave {}, but the full render fails (block text before the failure: {t:?})", o.show()),
                            || self.case_json(&call, &format!("Err, or the text the block completed before the failure ({t:?})"), &o.show()),
                        );
                    }
                    (BlockExpect::Text(t), Out::Ok(g)) if t == g => {
                        class = if t.is_empty() { "render_block:never-reached" } else { "render_block:ok" };
                        if self.count && r.blocks.get(*b).map(|x| x.times > 1).unwrap_or(false) {
                            tally.multi_reached += 1;
                        }
                    }
                    (BlockExpect::Text(_), Out::Err(..)) if deep => class = "render_block:err",
                    (BlockExpect::Text(t), o) => {
                        class = "render_block:violation";
                        let in_capture = r.blocks.get(*b).map(|x| x.in_capture).unwrap_or(false);
                        let sig = match o {
                            Out::Ok(g) if g.is_empty() && in_capture => "render_block:inside-capture-empty".to_string(),
                            Out::Ok(_) => format!("render_block:wrong-text{sup}"),
                            o => format!("render_block:{}-on-valid-chain", o.class()),
                        };
                        acc.violation(
                            format!("{p}{sig}"),
                            format!("{call} gave {}, during the full render the block writes {t:?}", o.show()),
                            || self.case_json(&call, &format!("Ok({t:?})"), &o.show()),
                        );
                    }
                }
                if self.count {
                    acc.case(nontrivial, class);
                }
            }
        }
    }

    fn add_decision(&self, o: &Out, want_accept: bool, call: &str, nontrivial: bool, acc: &mut Acc) {
        let p = self.prefix;
        match (o, want_accept) {
            (Out::Ok(_), true) | (Out::Err(..), false) => {}
            (Out::Ok(_), false) => acc.violation(
                format!("{p}add:accepted-invalid-chain"),
                format!("{call} accepted; expected a refusal: {:?}", self.exp.reject),
                || self.case_json(call, &format!("Err ({:?})", self.exp.reject), "Ok"),
            ),
            (Out::Err(..), true) => acc.violation(
                format!("{p}add:rejected-valid-chain"),
                format!("{call} gave {}; every child block is defined by an ancestor", o.show()),
                || self.case_json(call, "Ok", &o.show()),
            ),
            (Out::Panic(m), _) => acc.violation(format!("{p}add:panic"), format!("{call} panicked: {m}"), || self.case_json(call, if want_accept { "Ok" } else { "Err" }, &o.show())),
        }
        if self.count {
            acc.case(nontrivial, if o.is_ok() { "add:accepted" } else if o.is_err() { "add:rejected" } else { "add:panic" });
        }
    }
}

/// Runs one chain under the canonical registration and judges it.
/// `divergent`: false = the differential families, which leave chains without a finite rendering
/// to the divergent-* families; true = run only those.
thread_local! {
    /// observe() registers a host function called `super` on the instance
    static HOST_SUPER: std::cell::Cell<bool> = const { std::cell::Cell::new(false) };
}

/// `{% block x %}` -> `{% block x %}{% for q in range(end=0) %}{% endfor %}` everywhere in a body.
fn with_call_in_blocks(body: &str) -> String {
    let mut out = String::new();
    let mut rest = body;
    while let Some(i) = rest.find("{% block ") {
        let end = i + rest[i..].find("%}").expect("generator bug: unterminated block tag") + 2;
        out.push_str(&rest[..end]);
        out.push_str("{% for q in range(end=0) %}{% endfor %}");
        rest = &rest[end..];
    }
    out.push_str(rest);
    out
}

fn run_canonical(levels: &[&Level], bodies: &[&str], descs: &[&str], acc: &mut Acc, tally: &mut Tally, sample: bool, divergent: bool) {
    let exp = expect(levels);
    if exp.diverges != divergent {
        if exp.diverges {
            acc.case(false, "left-to-divergent-family");
        }
        return;
    }
    let reg = Registration::canonical(levels.len());
    let (obs, sources) = observe(bodies, &reg);
    let j = Judge { levels, descs: descs.to_vec(), exp: &exp, reg: &reg, sources: &sources, prefix: "", count: true };
    j.run(&obs, acc, tally);
    // The same chain with a function call at the start of every block body (a loop over an empty
    // `range`): no text is added, so every answer must be the one above. `super()` is a function
    // call too, so this is done for every chain that calls it - seeded change C04-10 decided "does this block call super()" from the first
    // function call of the body only.
    // (chains of three or more levels: only those whose root places b bare - the seven placements of
    // b in the root multiply the chains by five and have nothing to do with the calls; cost)
    if !divergent && bodies.iter().any(|b| b.contains("super()")) && (levels.len() < 3 || !descs[0].contains('@')) {
        let decorated: Vec<String> = bodies.iter().map(|b| with_call_in_blocks(b)).collect();
        let drefs: Vec<&str> = decorated.iter().map(|s| s.as_str()).collect();
        let probes = true;
        let (dobs, dsources) = observe_with(&drefs, &reg, probes);
        let n = 1 + dobs.levels.iter().flatten().count() as u64 * (1 + if probes { PROBES.len() as u64 } else { 0 });
        let plain = if probes {
            obs.clone()
        } else {
            Obs { adds: obs.adds.clone(), levels: obs.levels.iter().map(|l| l.as_ref().map(|l| LevelObs { render: l.render.clone(), blocks: vec![] })).collect() }
        };
        if dobs.coarse() == plain.coarse() {
            acc.evaluations += n;
            acc.nontrivial += n;
            *acc.outcomes.entry("function-call-in-blocks:same-as-plain-spelling".into()).or_insert(0) += n;
        } else {
            acc.violation(
                "function-call-in-blocks:observation-differs",
                "the same chain with `{% for q in range(end=0) %}{% endfor %}` at the start of every block body is accepted or rendered differently",
                || {
                    json!({
                        "templates": dsources.iter().map(|(n, s)| json!({"name": n, "source": s})).collect::<Vec<_>>(),
                        "plain_templates": sources.iter().map(|(n, s)| json!({"name": n, "source": s})).collect::<Vec<_>>(),
                        "observed": dobs.coarse(),
                        "observed_plain": plain.coarse(),
                        "calls": if probes { "add, then per level render + render_block a, b, n, z" } else { "add, then per level render" },
                    })
                },
            );
            Judge { levels, descs: descs.to_vec(), exp: &exp, reg: &reg, sources: &dsources, prefix: "function-call-in-blocks:", count: true }.run(&dobs, acc, tally);
        }
    }
    // Inside a block `super()` is the parent's rendering whatever the host program registered: the
    // same chain on an instance that has a user function called `super` (chains of one and two
    // levels). (Seeded change C04-14 looked `super` up in the function table first.)
    if !divergent && levels.len() <= 2 && bodies.iter().any(|b| b.contains("super()")) {
        HOST_SUPER.with(|c| c.set(true));
        let (hobs, hsources) = observe(bodies, &reg);
        HOST_SUPER.with(|c| c.set(false));
        let n = 1 + hobs.levels.iter().flatten().count() as u64 * (1 + PROBES.len() as u64);
        if hobs.coarse() == obs.coarse() {
            acc.evaluations += n;
            acc.nontrivial += n;
            *acc.outcomes.entry("host-function-named-super:same".into()).or_insert(0) += n;
        } else {
            acc.violation(
                "host-function-named-super:observation-differs",
                "the same chain on an instance where the host registered a function called `super` is accepted or rendered differently",
                || json!({"templates": hsources.iter().map(|(n, s)| json!({"name": n, "source": s})).collect::<Vec<_>>(), "registered": "function `super` returning \"HOST\"", "observed": hobs.coarse(), "observed_without_it": obs.coarse()}),
            );
        }
    }
    let k = levels.len() - 1;
    let interesting = divergent || (exp.renders[k].events & ev::SUPER != 0 && obs.levels[k].as_ref().map(|l| l.render.is_ok()).unwrap_or(false));
    if sample && interesting && acc.wants_sample() {
        acc.sample(|| {
            json!({
                "templates": sources.iter().map(|(n, s)| json!({"name": n, "source": s})).collect::<Vec<_>>(),
                "render_of_last_level": obs.levels[k].as_ref().map(|l| l.render.show()),
                "render_block_a_b_n_z": obs.levels[k].as_ref().map(|l| l.blocks.iter().map(|o| o.show()).collect::<Vec<_>>()),
                "reference": format!("{:?}", exp.renders[k].out),
            })
        });
    }
}

/// Runs one chain under every registration: names x batch orders, plus one-by-one parents-first
/// under every naming. The canonical one is judged against the reference (not counted: another
/// family counts it when `count_canonical` is false); every other one is compared with the
/// canonical observation and, where it differs, judged against the reference.
fn run_all_orders(
    levels: &[&Level],
    bodies: &[&str],
    descs: &[&str],
    perms: &[Vec<usize>],
    name_perms: &[Vec<usize>],
    count_canonical: bool,
    acc: &mut Acc,
    tally: &mut Tally,
) {
    let l = levels.len();
    let exp = expect(levels);
    if exp.diverges {
        acc.case(false, "left-to-divergent-family");
        return;
    }
    let canon = Registration::canonical(l);
    let (cobs, csources) = observe(bodies, &canon);
    Judge { levels, descs: descs.to_vec(), exp: &exp, reg: &canon, sources: &csources, prefix: "", count: count_canonical }.run(&cobs, acc, tally);
    let ccoarse = cobs.coarse();
    for np in name_perms {
        let names: Vec<String> = (0..l).map(|k| format!("t{}", np[k])).collect();
        for order in perms {
            let reg = Registration { names: names.clone(), order: order.clone(), one_by_one: false };
            let is_canon = reg.names == canon.names && reg.order == canon.order;
            if is_canon {
                continue;
            }
            let (obs, sources) = observe(bodies, &reg);
            if obs.coarse() == ccoarse {
                // same decision, same texts as the canonical registration
                let n = 1 + obs.levels.iter().flatten().count() as u64 * (1 + PROBES.len() as u64);
                acc.evaluations += n;
                if l >= 2 {
                    acc.nontrivial += n;
                }
                *acc.outcomes.entry("registration:same-as-canonical".into()).or_insert(0) += n;
            } else {
                acc.violation(
                    "order-dependent:observation-differs-from-canonical-registration",
                    "the same chain registered under other names / in another batch order is accepted differently or renders differently",
                    || {
                        json!({
                            "templates": sources.iter().map(|(n, s)| json!({"name": n, "source": s})).collect::<Vec<_>>(),
                            "registration": reg.words(),
                            "canonical_templates": csources.iter().map(|(n, s)| json!({"name": n, "source": s})).collect::<Vec<_>>(),
                            "observed": obs.coarse(),
                            "observed_canonical": ccoarse,
                            "calls": "add, then per level render + render_block a, b, n, z",
                        })
                    },
                );
                Judge { levels, descs: descs.to_vec(), exp: &exp, reg: &reg, sources: &sources, prefix: "order-dependent:", count: true }.run(&obs, acc, tally);
            }
        }
        // the one-by-one parents-first history
        let reg = Registration { names, order: (0..l).collect(), one_by_one: true };
        let (obs, sources) = observe(bodies, &reg);
        Judge { levels, descs: descs.to_vec(), exp: &exp, reg: &reg, sources: &sources, prefix: "one-by-one:", count: true }.run(&obs, acc, tally);
        let k = l - 1;
        if acc.wants_sample() && l >= 2 && exp.valid_upto[k] && exp.renders[k].events & ev::SUPER != 0 && exp.renders[k].out.is_ok() {
            acc.sample(|| {
                json!({
                    "templates": sources.iter().map(|(n, s)| json!({"name": n, "source": s})).collect::<Vec<_>>(),
                    "registration": reg.words(),
                    "registrations_of_this_chain": name_perms.len() * (perms.len() + 1),
                    "adds": obs.adds.iter().map(|o| o.show()).collect::<Vec<_>>(),
                    "render_of_last_level": obs.levels[k].as_ref().map(|x| x.render.show()),
                    "reference": format!("{:?}", exp.renders[k].out),
                })
            });
        }
    }
}

// --------------------------------------------------------------------------------------- main

fn main() {
    let mut run = Run::from_env("C04", "exploration");
    let thorough = run.tier.is_thorough();
    run.rule(
        "A chain is a list of per-level options printed to template sources (every text piece is a unique marker naming \
         block + level); each chain x registration is built on a fresh Tera. One case = one engine observation compared \
         with the reference: the accept/reject decision of an add call, `render` of a level, `render_block` of one of the \
         names a, b, n, z at a level. Non-trivial = the observation involves inheritance: an add decision over >= 2 \
         templates, a render / render_block of a template that has at least one ancestor. Chains are distinct by \
         construction (mixed-radix enumeration of the option product; the canonical registration inside the orders \
         families is judged but not counted again). Counters `renders-with:*` say how many counted renders reached each \
         behaviour (super() skipping an ancestor, a nested placeholder overridden at top level, a block inside a capture, ...).",
    );
    run.assume("block universe {a, b, n} (+ the undefined name z for render_block), n nested in a or at top level, b at top level; other nestings only in the nestings-* families; empty context, no variables, autoescape off (template names without suffix)");
    run.assume("the reference (inherit.rs) is the Jinja block-resolution rule as stated by docs/content/_index.md and the C04 statement; self-tested on the documentation's examples before every run");
    run.assume("a child top-level block that no ancestor defines is expected to be refused at registration (engine's documented message; pinned, DESIGN §4 C04); a reached super() without ancestor definition is expected to fail the render, an add-time refusal is not modelled because the engine registers such chains");
    run.assume("when one block is reached several times in one render all its renderings are the same text (no context); render_block is expected to return one of them");
    run.assume("chains on which block resolution does not terminate (blocks rendering each other through super(), only possible in nestings-*) have no finite expected text: the differential families leave them out (outcome left-to-divergent-family) and the divergent-* families require an error for every render / render_block of such a level (never a text, never a crash); the reference recognises them exactly (a definition (block, level) met again while it is being rendered)");
    run.assume("a finite render that would need 40 or more blocks open at once may be refused (the engine's recursion guard); no chain of these spaces comes near (the evidence reports the deepest nesting met)");
    run.assume("iteration order of the registry's HashMaps is drawn per Tera instance by std's RandomState and cannot be enumerated through the public API: every chain is built once per registration, so the internal orders exercised are those drawn during the run; a violation that depends on it may not replay");
    run.assume("include of a template that extends (F-include-extends) is out of scope here (C03)");

    // ---- oracle self-test (documentation examples)
    if run.is_supervisor() {
        let bad = inherit::reference_self_test();
        run.guard("reference-agrees-with-documentation-examples", bad.is_empty(), if bad.is_empty() { "grandparent/parent/child, base/child, super() at the top, filter-section shape, unknown child block, divergence".into() } else { bad.join("; ") });
    }

    // ---- alphabets
    let extended = thorough;
    let full_root = inherit::alphabet(true, extended, true);
    let full_rest = inherit::alphabet(true, extended, false);
    let full = Space::from_opts(&full_root, &full_rest, 3);
    let sub = inherit::alphabet(false, extended, false);
    let subspace = Space::from_opts(&sub, &sub, 3);
    run.extra(
        "alphabets",
        json!({
            "block_a": inherit::A_NAMES[..if extended { 6 } else { 5 }],
            "n_nested_in_a": inherit::NN_NAMES[..if extended { 5 } else { 3 }],
            "n_top_level": inherit::T_NAMES,
            "b": inherit::B_NAMES[..if extended { 4 } else { 3 }],
            "placement_of_b_in_root": inherit::PLACE_NAMES,
            "options_per_level": {"root": full_root.len(), "child": full_rest.len(), "sub_alphabet_a_n": sub.len()},
            "note": "one template defines a name once: n nested in a excludes n at top level (the parser refuses duplicates)",
            "render_block_probes": PROBES,
        }),
    );

    // ---------------------------------------------------------------- doc example
    let perms3 = permutations(3);
    if let Ok(f) = std::env::var("C04_ONLY")
        && !f.is_empty()
    {
        run.extra("families_filter", json!(f));
    }
    if wanted("doc-example") {
    run.family(Family::new("doc-example", 1, "the documentation's grandparent/parent/child example: literal spelling in all 6 batch orders, transcribed chain under every registration"), |_item, acc: &mut Acc| {
        let (chain, _names, want) = inherit::doc_example();
        let ctx = tera::Context::new();
        let lit = inherit::doc_example_literal();
        for order in &perms3 {
            let batch: Vec<(String, String)> = order.iter().map(|&i| lit[i].clone()).collect();
            let mut t = tera::Tera::default();
            let add = engine::add_templates(&mut t, &batch);
            let out = engine::render(&t, "child", &ctx);
            let squeezed = out.ok().map(|s| s.split_whitespace().collect::<Vec<_>>().join(" "));
            if !add.is_ok() || squeezed.as_deref() != Some(want) {
                acc.violation("doc-example:mismatch", format!("add {} render(child) {}; the documentation states {want:?} (not counting whitespace)", add.show(), out.show()), || {
                    json!({"templates": batch.iter().map(|(n, s)| json!({"name": n, "source": s})).collect::<Vec<_>>(), "call": "render(child)", "expected": want, "observed": out.show()})
                });
            }
            acc.case(true, if out.is_ok() { "render:ok" } else { "render:err" });
            let blk = engine::render_block(&t, "child", "ending", &ctx);
            if blk.ok() != Some("sincerely with love") {
                acc.violation("doc-example:render_block", format!("render_block(child, ending) gave {}", blk.show()), || {
                    json!({"templates": batch.iter().map(|(n, s)| json!({"name": n, "source": s})).collect::<Vec<_>>(), "call": "render_block(child, ending)", "expected": "sincerely with love", "observed": blk.show()})
                });
            }
            acc.case(true, "render_block:ok");
        }
        // transcribed chain through printer + judge (probes a, b, n, z are all undefined there: only renders matter)
        let lv: Vec<&Level> = chain.levels.iter().collect();
        let bodies: Vec<String> = lv.iter().enumerate().map(|(k, l)| inherit::body_source(l, k)).collect();
        let b: Vec<&str> = bodies.iter().map(|s| s.as_str()).collect();
        let mut tally = Tally::default();
        run_all_orders(&lv, &b, &["grandparent", "parent", "child"], &perms3, &perms3, true, acc, &mut tally);
        tally.flush(acc);
    });
    }

    // ---------------------------------------------------------------- canonical chains
    let chains_family = |run: &mut Run, name: &str, space: &Space, l: usize, words: &str, budget: Option<f64>| {
        if !wanted(name) {
            return;
        }
        let items = space.prefixes(l);
        let total = space.chains(l);
        run.family(
            with_budget(
                Family::new(name, items, &format!("all {total} chains of length {l} {words}; canonical registration (one batch, parents first)"))
                    .describe(|i| json!({"prefix_option_indices": space.decode_prefix(l, i), "note": "last level iterates over its whole alphabet inside the item"})),
                budget,
            ),
            |item, acc: &mut Acc| {
                let prefix = space.decode_prefix(l, item);
                let mut tally = Tally::default();
                for last in 0..space.n(l - 1) as usize {
                    let mut idx = prefix.clone();
                    idx.push(last);
                    let lv: Vec<&Level> = idx.iter().enumerate().map(|(k, &i)| &space.lv[k][i]).collect();
                    let bodies: Vec<&str> = idx.iter().enumerate().map(|(k, &i)| space.src[k][i].as_str()).collect();
                    let descs: Vec<&str> = idx.iter().enumerate().map(|(k, &i)| space.desc[k][i].as_str()).collect();
                    run_canonical(&lv, &bodies, &descs, acc, &mut tally, true, false);
                }
                tally.flush(acc);
            },
        );
    };
    let words_full = format!("over the {}-option root alphabet and the {}-option child alphabet {{a, n, b}}", full_root.len(), full_rest.len());
    for l in 1..=3 {
        chains_family(&mut run, &format!("chains-L{l}"), &full, l, &words_full, if thorough && l == 3 { Some(240.0) } else { None });
    }

    // ---------------------------------------------------------------- wrapped overrides
    // A block definition may sit inside a capturing section at the top level of ANY level, not only
    // of the root: in a child the section itself is never rendered, but the definition inside it is
    // still that level's override (seeded change C04-11 handed only the top-level block nodes of an
    // extending template to the compiler). Block b in every placement (bare, filter section, set
    // block, component call body, and the three two-capture nestings) at every level.
    {
        let mut wr_root = vec![];
        let mut wr_rest = vec![LevelOpt::EMPTY, LevelOpt { a: 2, ..LevelOpt::EMPTY }];
        for place in 0..=6u8 {
            for a in [0u8, 1] {
                for b in [1u8, 2] {
                    wr_root.push(LevelOpt { a, b, place, ..LevelOpt::EMPTY });
                }
            }
            for a in [0u8, 2] {
                for b in [1u8, 2, 3] {
                    wr_rest.push(LevelOpt { a, b, place, ..LevelOpt::EMPTY });
                }
            }
        }
        let wrapped = Space::from_opts(&wr_root, &wr_rest, 3);
        let words = format!(
            "over block b in 7 placements (bare, in a filter section / set block / component call body, in two nested captures) at EVERY level: {} root options, {} child options",
            wr_root.len(),
            wr_rest.len()
        );
        for l in 2..=3 {
            chains_family(&mut run, &format!("wrapped-overrides-L{l}"), &wrapped, l, &words, None);
        }
    }

    // ---------------------------------------------------------------- deep nestings
    // Blocks nested d deep at render time, the innermost one introduced by a child inside the block
    // it overrides (one template can nest 39 blocks, the parser's limit; inheritance adds to that).
    // The engine guards block rendering against recursion with a depth limit of 40 (blocks that
    // render each other, family divergent-*): every depth up to that limit is a legal chain and
    // renders; what happens beyond it is not judged. (Seeded change C04-13 counted the block being
    // entered, so the 40th level failed.)
    {
        run.family(
            Family::new("deep-nestings", 39, "d = 2..=40: a base with d-1 nested blocks b1..b(d-1), a child that overrides the innermost one and introduces block bd inside it: render of the child and render_block of its new block and of the outermost block"),
            |item, acc: &mut Acc| {
                let d = item as usize + 2;
                let mut base = String::new();
                for k in 1..d {
                    base.push_str(&format!("{{% block b{k} %}}<{k}"));
                }
                for k in (1..d).rev() {
                    base.push_str(&format!("{k}>{{% endblock b{k} %}}"));
                }
                let inner = d - 1;
                let child = format!("{{% extends \"base\" %}}{{% block b{inner} %}}[X{{% block b{d} %}}Y{d}{{% endblock b{d} %}}X]{{% endblock b{inner} %}}");
                let mut want = String::new();
                for k in 1..inner {
                    want.push_str(&format!("<{k}"));
                }
                want.push_str(&format!("[XY{d}X]"));
                for k in (1..inner).rev() {
                    want.push_str(&format!("{k}>"));
                }
                let tpls = vec![("base".to_string(), base), ("child".to_string(), child)];
                let case = || json!({"templates": tpls.iter().map(|(n, s)| json!({"name": n, "source": s})).collect::<Vec<_>>(), "blocks_open_at_the_innermost_level": d});
                let mut t = tera::Tera::default();
                let added = engine::add_templates(&mut t, &tpls);
                if !added.is_ok() {
                    acc.violation("deep-nesting:refused", format!("registration failed: {}", added.show()), case);
                    acc.case(true, "refused");
                    return;
                }
                let ctx = tera::Context::new();
                for (call, got, want) in [
                    ("render(child)".to_string(), engine::render(&t, "child", &ctx), want.clone()),
                    (format!("render_block(child, b{d})"), render_block_both(&t, "child", &format!("b{d}"), &ctx), format!("Y{d}")),
                    ("render_block(child, b1)".to_string(), render_block_both(&t, "child", "b1", &ctx), want.clone()),
                ] {
                    if got.ok() != Some(want.as_str()) {
                        acc.violation(format!("deep-nesting:{}", call.split('(').next().unwrap()), format!("{call} at nesting depth {d} gave {}, expected {want:?}", got.show()), case);
                    }
                    acc.case(true, if d >= 39 { "at-the-limit" } else { "below-the-limit" });
                }
            },
        );
    }

    // ---------------------------------------------------------------- registration orders
    let orders_family = |run: &mut Run, name: &str, space: &Space, l: usize, words: &str, name_perms: Vec<Vec<usize>>, count_canonical: bool, budget: Option<f64>| {
        if !wanted(name) {
            return;
        }
        let items = space.prefixes(l);
        let total = space.chains(l);
        let perms = permutations(l);
        let regs = name_perms.len() * (perms.len() + 1);
        run.family(
            with_budget(Family::new(
                name,
                items,
                &format!(
                    "all {total} chains of length {l} {words} x {regs} registrations: {} assignment(s) of the names t0..t{} to the levels x (all {} batch orders + the one-by-one parents-first history)",
                    name_perms.len(),
                    l - 1,
                    perms.len()
                ),
            )
            .describe(|i| json!({"prefix_option_indices": space.decode_prefix(l, i)})), budget),
            |item, acc: &mut Acc| {
                let prefix = space.decode_prefix(l, item);
                let mut tally = Tally::default();
                for last in 0..space.n(l - 1) as usize {
                    let mut idx = prefix.clone();
                    idx.push(last);
                    let lv: Vec<&Level> = idx.iter().enumerate().map(|(k, &i)| &space.lv[k][i]).collect();
                    let bodies: Vec<&str> = idx.iter().enumerate().map(|(k, &i)| space.src[k][i].as_str()).collect();
                    let descs: Vec<&str> = idx.iter().enumerate().map(|(k, &i)| space.desc[k][i].as_str()).collect();
                    run_all_orders(&lv, &bodies, &descs, &perms, &name_perms, count_canonical, acc, &mut tally);
                }
                tally.flush(acc);
            },
        );
    };
    let words_sub = format!("over the {}-option sub-alphabet {{a, n}}", sub.len());
    for l in 1..=3 {
        orders_family(&mut run, &format!("orders-L{l}"), &subspace, l, &words_sub, permutations(l), false, if thorough && l == 3 { Some(60.0) } else { None });
    }

    // ---------------------------------------------------------------- by-name render sees what the full render sees
    // "returns exactly the text that block writes during the full render": the same variables are
    // in reach - the render context AND the instance's global context, in blocks, in what they reach
    // through super(), and in nested blocks (seeded change C04-9 built the state of a by-name render
    // without the global context).
    run.family(
        Family::new(
            "render-block-contexts",
            3,
            "a three-level chain (nested block, super() at two levels) whose blocks read one variable of the global context, one of the render context and one that is in both: render and render_block / render_block_to of every (template, block) against hand-written texts, under 3 placements of the variables",
        ),
        |item, acc: &mut Acc| {
            let tpls: Vec<(String, String)> = vec![
                ("base".into(), "{% block a %}<a:{{ g }}:{{ c }}:{{ both }}{% block n %}<n:{{ g }}{{ both }}>{% endblock %}>{% endblock %}".into()),
                ("child".into(), "{% extends \"base\" %}{% block a %}[{{ super() }}|{{ g }}{{ c }}]{% endblock %}".into()),
                ("leaf".into(), "{% extends \"child\" %}{% block n %}(n2:{{ g }}{{ c }}{{ super() }}){% endblock %}".into()),
            ];
            // (global g, context c, `both` in the global context, `both` in the render context)
            let (gg, cc, bg, bc): (&str, &str, Option<&str>, Option<&str>) = [("G", "C", Some("bg"), Some("bc")), ("G", "C", Some("bg"), None), ("G", "C", None, Some("bc"))][item as usize];
            let both = bc.or(bg).unwrap();
            let mut t = tera::Tera::default();
            t.global_context().insert("g", gg);
            if let Some(b) = bg {
                t.global_context().insert("both", b);
            }
            let mut ctx = tera::Context::new();
            ctx.insert("c", cc);
            if let Some(b) = bc {
                ctx.insert("both", b);
            }
            let case = || json!({"templates": tpls, "global_context": {"g": gg, "both": bg}, "render_context": {"c": cc, "both": bc}});
            if !engine::add_templates(&mut t, &tpls).is_ok() {
                acc.violation("render-block-contexts:refused", "the chain was refused".to_string(), case);
                return;
            }
            let n_base = format!("<n:{gg}{both}>");
            let a_base = format!("<a:{gg}:{cc}:{both}{n_base}>");
            let a_child = format!("[{a_base}|{gg}{cc}]");
            let n_leaf = format!("(n2:{gg}{cc}{n_base})");
            let a_leaf = format!("[<a:{gg}:{cc}:{both}{n_leaf}>|{gg}{cc}]");
            let expect: [(&str, &str, &String); 9] = [
                ("base", "", &a_base), ("base", "a", &a_base), ("base", "n", &n_base),
                ("child", "", &a_child), ("child", "a", &a_child), ("child", "n", &n_base),
                ("leaf", "", &a_leaf), ("leaf", "a", &a_leaf), ("leaf", "n", &n_leaf),
            ];
            for (tpl, block, want) in expect {
                let out = if block.is_empty() { engine::render(&t, tpl, &ctx) } else { render_block_both(&t, tpl, block, &ctx) };
                if out.ok() != Some(want.as_str()) {
                    acc.violation(
                        format!("render-block-contexts:{}", if block.is_empty() { "render" } else { "render_block" }),
                        format!("{}({tpl}{}{block}) gave {}, expected {want:?}", if block.is_empty() { "render" } else { "render_block" }, if block.is_empty() { "" } else { ", " }, out.show()),
                        case,
                    );
                }
                acc.case(true, out.class());
            }
        },
    );

    // ---------------------------------------------------------------- chains completed by re-registration
    {
        let small = inherit::alphabet_small();
        let sp4 = Space::from_opts(&small, &small, 4);
        let mut regrowth_family = |name: &str, space: &Space, l: usize, words: &str, name_perms: Vec<Vec<usize>>| {
            if !wanted(name) {
                return;
            }
            run.family(
                Family::new(
                    name,
                    space.prefixes(l),
                    &format!(
                        "all {} chains of length {l} {words} x {} namings x every split s in 1..{l}: levels s.. registered first with level s as a root, then levels 0..=s (two batches / one call per template); the full chain, then level s re-added as a root. Differential against a fresh one-batch instance",
                        space.chains(l),
                        name_perms.len()
                    ),
                )
                .describe(|i| json!({"prefix_option_indices": space.decode_prefix(l, i)})),
                |item, acc: &mut Acc| {
                    let prefix = space.decode_prefix(l, item);
                    for last in 0..space.n(l - 1) as usize {
                        let mut idx = prefix.clone();
                        idx.push(last);
                        let bodies: Vec<&str> = idx.iter().enumerate().map(|(k, &i)| space.src[k][i].as_str()).collect();
                        run_regrowth(&bodies, &name_perms, acc);
                    }
                },
            );
        };
        regrowth_family("regrowth-L3", &subspace, 3, &words_sub, permutations(3));
        regrowth_family("regrowth-L4", &sp4, 4, &format!("over a {}-option alphabet", small.len()), vec![vec![0, 1, 2, 3], vec![3, 2, 1, 0], vec![2, 0, 3, 1]]);
    }

    // ---------------------------------------------------------------- include of a level
    // `{% include "tk" %}` renders tk like a top-level render does (metamorphic: same text, same failures)
    for l in 1..=3usize {
        let name = format!("include-of-chain-L{l}");
        if !wanted(&name) {
            continue;
        }
        let space = &subspace;
        let total = space.chains(l);
        run.family(
            Family::new(&name, space.prefixes(l), &format!("all {total} chains of length {l} {words_sub}: every level included from a template `<{{% include \"tk\" %}}>` registered in the same batch"))
                .describe(|i| json!({"prefix_option_indices": space.decode_prefix(l, i)})),
            |item, acc: &mut Acc| {
                let prefix = space.decode_prefix(l, item);
                let ctx = tera::Context::new();
                for last in 0..space.n(l - 1) as usize {
                    let mut idx = prefix.clone();
                    idx.push(last);
                    let lv: Vec<&Level> = idx.iter().enumerate().map(|(k, &i)| &space.lv[k][i]).collect();
                    let exp = expect(&lv);
                    if !exp.valid_upto[l - 1] || exp.diverges {
                        continue; // refusals are the business of chains-L*
                    }
                    let mut sources: Vec<(String, String)> = idx
                        .iter()
                        .enumerate()
                        .map(|(k, &i)| (format!("t{k}"), if k == 0 { space.src[0][i].clone() } else { format!("{{% extends \"t{}\" %}}{}", k - 1, space.src[k][i]) }))
                        .collect();
                    for k in 0..l {
                        sources.push((format!("i{k}"), format!("<{{% include \"t{k}\" %}}>")));
                    }
                    let mut t = tera::Tera::default();
                    let add = engine::add_templates(&mut t, &sources);
                    let case = |call: &str, want: &str, got: &str| {
                        json!({
                            "templates": sources.iter().map(|(n, s)| json!({"name": n, "source": s})).collect::<Vec<_>>(),
                            "registration": "one add_raw_templates batch, in the order listed",
                            "context": "empty", "call": call, "expected": want, "observed": got,
                        })
                    };
                    if !add.is_ok() {
                        acc.violation("include-of-chain:add-refused", format!("add gave {}", add.show()), || case("add_raw_templates(all)", "Ok", &add.show()));
                        acc.case(true, "add:rejected");
                        continue;
                    }
                    for k in 0..l {
                        let got = engine::render(&t, &format!("i{k}"), &ctx);
                        let call = format!("render(i{k})");
                        match (&exp.renders[k].out, &got) {
                            (Ok(w), Out::Ok(g)) if *g == format!("<{w}>") => {}
                            (Err(_), Out::Err(..)) => {}
                            (w, g) => acc.violation(
                                format!("include-of-chain:{}", if g.is_ok() && w.is_ok() { "wrong-text" } else if g.is_ok() { "ok-though-render-fails" } else { g.class() }),
                                format!("{call} gave {}, rendering t{k} directly resolves to {w:?}", g.show()),
                                || case(&call, &format!("{:?} inside <>", w), &g.show()),
                            ),
                        }
                        acc.case(k >= 1, if got.is_ok() { "include:ok" } else { "include:err" });
                        if k == l - 1 && k >= 1 && got.is_ok() && exp.renders[k].events & ev::SUPER != 0 && acc.wants_sample() {
                            acc.sample(|| case(&call, &format!("{:?} inside <>", exp.renders[k].out), &got.show()));
                        }
                    }
                }
            },
        );
    }

    // ---------------------------------------------------------------- length 4
    // quick: the sub-alphabet {a, n}; thorough: the whole child alphabet (b bare in the root)
    let l4_opts = if thorough { inherit::alphabet(true, false, false) } else { inherit::alphabet(false, false, false) };
    let l4 = Space::from_opts(&l4_opts, &l4_opts, 4);
    chains_family(
        &mut run,
        "chains-L4",
        &l4,
        4,
        &format!("over the {}-option alphabet {} (a: 5 variants, n nested / top-level: 3 each{})", l4_opts.len(), if thorough { "{a, n, b}" } else { "{a, n}" }, if thorough { ", b: 3, bare in the root" } else { "" }),
        if thorough { Some(420.0) } else { None },
    );
    if thorough {
        let small = inherit::alphabet_small();
        let sp = Space::from_opts(&small, &small, 4);
        run.extra("alphabet_orders_L4", json!(small.iter().map(|o| o.describe()).collect::<Vec<_>>()));
        // identity naming and the reversed one (t3 is the root): the sorted-name pass of the finalizer sees both directions
        orders_family(&mut run, "orders-L4", &sp, 4, &format!("over a {}-option alphabet", small.len()), vec![vec![0, 1, 2, 3], vec![3, 2, 1, 0], vec![2, 0, 3, 1]], true, Some(90.0));
    }

    // ---------------------------------------------------------------- all nestings
    let f2 = inherit::forests(&["a", "n"]);
    let f3 = inherit::forests(&["a", "b", "n"]);
    run.extra("nestings_options_per_level", json!({"names_a_n": f2.len(), "names_a_b_n": f3.len(), "what": "every forest of nested blocks over a subset of the names, each block with or without super()"}));
    let sp2 = Space::from_forests(&f2, 4);
    let sp3 = Space::from_forests(&f3, 3);
    for l in 1..=4 {
        chains_family(&mut run, &format!("nestings-2-L{l}"), &sp2, l, &format!("where every level is any of the {} nesting forests over {{a, n}}", f2.len()), None);
    }
    for l in 1..=(if thorough { 3 } else { 2 }) {
        chains_family(&mut run, &format!("nestings-3-L{l}"), &sp3, l, &format!("where every level is any of the {} nesting forests over {{a, b, n}}", f3.len()), if l == 3 { Some(90.0) } else { None });
    }

    // ---------------------------------------------------------------- chains without a finite rendering
    let divergent_family = |run: &mut Run, name: &str, space: &Space, l: usize, words: &str, budget: Option<f64>| {
        if !wanted(name) {
            return;
        }
        let total = space.chains(l);
        let decode = |item: u64| -> Vec<usize> {
            let mut idx = space.decode_prefix(l, item / space.n(l - 1));
            idx.push((item % space.n(l - 1)) as usize);
            idx
        };
        run.family(
            with_budget(Family::new(name, total, &format!("every chain of length {l} {words} on which block resolution does not terminate (one work item per chain of the product; the others are skipped here)"))
                .describe(|i| {
                    let idx = decode(i);
                    json!({
                        "templates": idx.iter().enumerate().map(|(k, &o)| json!({"name": format!("t{k}"), "source": if k == 0 { space.src[0][o].clone() } else { format!("{{% extends \"t{}\" %}}{}", k - 1, space.src[k][o]) }})).collect::<Vec<_>>(),
                        "registration": "one add_raw_templates batch, in the order listed",
                        "calls": "render + render_block(a, b, n, z) of every level",
                    })
                })
                .crash_signature(|_, kind| format!("{kind}:block-recursion-through-super")), budget),
            |item, acc: &mut Acc| {
                let idx = decode(item);
                let lv: Vec<&Level> = idx.iter().enumerate().map(|(k, &i)| &space.lv[k][i]).collect();
                let bodies: Vec<&str> = idx.iter().enumerate().map(|(k, &i)| space.src[k][i].as_str()).collect();
                let descs: Vec<&str> = idx.iter().enumerate().map(|(k, &i)| space.desc[k][i].as_str()).collect();
                let mut tally = Tally::default();
                run_canonical(&lv, &bodies, &descs, acc, &mut tally, true, true);
                tally.flush(acc);
            },
        );
    };
    for l in 2..=4 {
        divergent_family(&mut run, &format!("divergent-2-L{l}"), &sp2, l, "over the nesting forests of {a, n}", None);
    }
    for l in 2..=(if thorough { 3 } else { 2 }) {
        divergent_family(&mut run, &format!("divergent-3-L{l}"), &sp3, l, "over the nesting forests of {a, b, n}", if l == 3 { Some(60.0) } else { None });
    }

    // ---------------------------------------------------------------- length 5, <= 2 deviations
    if thorough {
        let dl = 5usize;
        let dev = Space::from_opts(&full_root, &full_rest, dl);
        let defaults: [(&str, LevelOpt, LevelOpt); 3] = [
            ("skip", LevelOpt { a: 1, nn: 0, nt: 1, b: 1, place: 0 }, LevelOpt::EMPTY),
            ("walk", LevelOpt { a: 1, nn: 0, nt: 1, b: 1, place: 0 }, LevelOpt { a: 2, nn: 0, nt: 2, b: 2, place: 0 }),
            ("nested", LevelOpt { a: 1, nn: 1, nt: 0, b: 1, place: 0 }, LevelOpt { a: 4, nn: 2, nt: 0, b: 2, place: 0 }),
        ];
        for (dname, droot, drest) in defaults {
            if !wanted(&format!("deviations-L{dl}-{dname}")) {
                continue;
            }
            let d_idx: Vec<usize> = (0..dl)
                .map(|k| {
                    let (alpha, want) = if k == 0 { (&full_root, droot) } else { (&full_rest, drest) };
                    alpha.iter().position(|o| *o == want).expect("default option is in the alphabet")
                })
                .collect();
            // work items: (deviating positions, option at the first of two positions)
            let mut items: Vec<(Vec<usize>, usize)> = vec![(vec![], 0)];
            for p in 0..dl {
                items.push((vec![p], 0));
            }
            for p1 in 0..dl {
                for p2 in p1 + 1..dl {
                    for o1 in 0..dev.n(p1) as usize {
                        if o1 != d_idx[p1] {
                            items.push((vec![p1, p2], o1));
                        }
                    }
                }
            }
            let dev = &dev;
            let items = &items;
            let d_idx = &d_idx;
            run.family(
                Family::new(
                    &format!("deviations-L{dl}-{dname}"),
                    items.len() as u64,
                    &format!(
                        "all chains of length {dl} in which at most 2 levels differ from the default (root: {}; children: {}), the deviating levels ranging over the whole {}-/{}-option alphabets",
                        droot.describe(),
                        drest.describe(),
                        full_root.len(),
                        full_rest.len()
                    ),
                )
                .describe(|i| json!({"deviating_levels": items[i as usize].0, "option_index_at_first": items[i as usize].1}))
                .budget(45.0),
                |item, acc: &mut Acc| {
                    let (pos, o1) = &items[item as usize];
                    let mut tally = Tally::default();
                    let mut idx = d_idx.clone();
                    let go = |idx: &Vec<usize>, acc: &mut Acc, tally: &mut Tally| {
                        let lv: Vec<&Level> = idx.iter().enumerate().map(|(k, &i)| &dev.lv[k][i]).collect();
                        let bodies: Vec<&str> = idx.iter().enumerate().map(|(k, &i)| dev.src[k][i].as_str()).collect();
                        let descs: Vec<&str> = idx.iter().enumerate().map(|(k, &i)| dev.desc[k][i].as_str()).collect();
                        run_canonical(&lv, &bodies, &descs, acc, tally, true, false);
                    };
                    match pos.len() {
                        0 => go(&idx, acc, &mut tally),
                        1 => {
                            for o in 0..dev.n(pos[0]) as usize {
                                if o != d_idx[pos[0]] {
                                    idx[pos[0]] = o;
                                    go(&idx, acc, &mut tally);
                                }
                            }
                        }
                        _ => {
                            idx[pos[0]] = *o1;
                            for o in 0..dev.n(pos[1]) as usize {
                                if o != d_idx[pos[1]] {
                                    idx[pos[1]] = o;
                                    go(&idx, acc, &mut tally);
                                }
                            }
                        }
                    }
                    tally.flush(acc);
                },
            );
        }
    }

    if run.is_supervisor() {
        let acc_ok = run.outcome_any("add:accepted");
        let acc_no = run.outcome_any("add:rejected");
        run.guard("both-registration-decisions", acc_ok > 0 && acc_no > 0, format!("accepted={acc_ok} rejected={acc_no}"));
        let (rok, rerr) = (run.outcome_any("render:ok"), run.outcome_any("render:err"));
        run.guard("renders-succeed-and-fail", rok > 0 && rerr > 0, format!("render ok={rok} err={rerr}"));
        let nb = [
            "render_block:ok",
            "render_block:never-reached",
            "render_block:no-such-block",
            "render_block:err",
        ]
        .map(|c| (c, run.outcome_any(c)));
        run.guard("render_block-all-classes", nb.iter().all(|(_, n)| *n > 0), format!("{nb:?}"));
        let evs: Vec<(String, u64)> = ev::NAMES.iter().map(|(_, n)| (n.to_string(), run.counter(&format!("renders-with:{n}")))).collect();
        run.guard("every-behaviour-reached", evs.iter().all(|(_, n)| *n > 0), format!("{evs:?}"));
        let (dv, dleft) = (run.outcome_any("divergent:err") + run.outcome_any("divergent:not-an-error"), run.outcome_any("left-to-divergent-family"));
        run.guard("divergent-chains-exist-and-are-run", dv > 0 && dleft > 0, format!("{dleft} chains left out of the differential families, {dv} render / render_block observations on divergent levels"));
        let same = run.outcome_any("registration:same-as-canonical");
        run.guard("registrations-compared", same > 0, format!("{same} observations under non-canonical registrations"));
    }
    run.finish();
}
