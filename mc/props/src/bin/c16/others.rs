// Part of main.rs (include!): keyed, long and triples-v families.

const BAD_PATHS: [&str; 10] = ["id", "t", "p", "k.zz", "", "t.1", "t.-1", "id.k", "zz", "k."];

/// One array of maps {"id": position, "k": key, "p": {"k": key}, "t": [key]}.
fn check_keyed(eng: &Eng, ka: &[Option<V>], ka_tok: &[Option<String>], idx: &[usize], acc: &mut Acc) {
    let n = idx.len();
    let els: Vec<V> = idx.iter().enumerate().map(|(i, &k)| keyed_element(i, &ka[k])).collect();
    let mut ctx = tera::Context::new();
    ctx.insert_value("ws", tera::Value::from(els.iter().map(|e| e.to_tera()).collect::<Vec<_>>()));
    let ws_text = || V::Arr(els.clone()).describe();
    let keys: Vec<Option<&V>> = idx.iter().map(|&k| ka[k].as_ref()).collect();
    let pos: Vec<usize> = (0..n).collect();
    let decode = |s: &str| parse_ids(s);

    for prog in ["w_sort_k", "w_sort_pk", "w_sort_t0"] {
        let out = eng.run(prog, &ctx);
        let inp = SortInput { keys: keys.clone(), kid: idx.to_vec(), ident: pos.clone(), may_refuse: false };
        judge_sort(acc, prog, "attribute", &out, &inp, &decode, &|| mk_case(eng, prog, &[("ws", ws_text())]));
    }
    // sort without attribute: maps are not comparable, not even with themselves
    let out = eng.run("w_sort_plain", &ctx);
    let inp = SortInput { keys: els.iter().map(Some).collect(), kid: pos.clone(), ident: pos.clone(), may_refuse: false };
    judge_sort(acc, "w_sort_plain", "plain", &out, &inp, &decode, &|| mk_case(eng, "w_sort_plain", &[("ws", ws_text())]));

    // unique: the ids make all elements distinct, whatever their keys
    let out = eng.run("w_unique", &ctx);
    let id_toks: Vec<String> = pos.iter().map(|p| p.to_string()).collect();
    let id_refs: Vec<&str> = id_toks.iter().map(|s| s.as_str()).collect();
    let el_refs: Vec<&V> = els.iter().collect();
    judge_unique(acc, "w_unique", &out, &el_refs, &id_refs, &|| mk_case(eng, "w_unique", &[("ws", ws_text())]));

    for prog in ["w_group_k", "w_group_pk"] {
        let out = eng.run(prog, &ctx);
        judge_group(
            acc,
            prog,
            &out,
            &keys,
            false,
            &|p| p.to_string(),
            &|p| ka_tok[idx[p]].clone().unwrap_or_default(),
            &|| mk_case(eng, prog, &[("ws", ws_text())]),
        );
    }

    // other attribute paths (present on every element, nested containers, dangling)
    if n <= 3 {
        for path in BAD_PATHS {
            ctx.insert_value("a", tera::Value::from(path));
            let pkeys: Vec<Option<&V>> = els.iter().map(|e| attr(e, path)).collect();
            let b = || [("ws", ws_text()), ("a", format!("{path:?}"))];
            let out = eng.run("w_sort_a", &ctx);
            let inp = SortInput { keys: pkeys.clone(), kid: pos.clone(), ident: pos.clone(), may_refuse: false };
            judge_sort(acc, "w_sort_a", "attribute-path", &out, &inp, &decode, &|| mk_case(eng, "w_sort_a", &b()));
            let out = eng.run("w_group_a", &ctx);
            judge_group(
                acc,
                "w_group_a",
                &out,
                &pkeys,
                false,
                &|p| p.to_string(),
                &|p| pkeys[p].map(|k| eng.label(k).0).unwrap_or_default(),
                &|| mk_case(eng, "w_group_a", &b()),
            );
        }
    }
}

// ---------------------------------------------------------------------------------------------
// long inputs

const LONG_LENGTHS: [usize; 4] = [21, 22, 33, 64];
const PATTERNS: [&str; 16] = [
    "blocks",
    "blocks-reversed",
    "round-robin",
    "round-robin-reversed",
    "blocks-rotated-n/3",
    "blocks-rotated-2n/3",
    "blocks-rotated-1",
    "blocks-rotated-n-1",
    "organ-pipe",
    "pairs-round-robin",
    "triples-round-robin",
    "de-bruijn-prefix",
    "blocks-stride-5",
    "blocks-stride-13",
    "needles-at-end",
    "needles-at-front",
];

/// de Bruijn sequence B(m, k) (standard Lyndon-word construction).
fn de_bruijn(m: usize, k: usize) -> Vec<usize> {
    fn db(t: usize, p: usize, m: usize, k: usize, a: &mut Vec<usize>, out: &mut Vec<usize>) {
        if t > k {
            if k % p == 0 {
                out.extend_from_slice(&a[1..=p]);
            }
        } else {
            a[t] = a[t - p];
            db(t + 1, p, m, k, a, out);
            for j in a[t - p] + 1..m {
                a[t] = j;
                db(t + 1, t, m, k, a, out);
            }
        }
    }
    if m == 1 {
        return vec![0; 64];
    }
    let mut a = vec![0usize; m * k + 1];
    let mut out = vec![];
    db(1, 1, m, k, &mut a, &mut out);
    out
}

/// Which base element stands at position i of an array of length n over m base elements.
fn layout(pattern: usize, m: usize, n: usize, i: usize, dbs: &[Vec<usize>]) -> usize {
    let block = |j: usize| (j.min(n - 1)) * m / n;
    match pattern {
        0 => block(i),
        1 => block(n - 1 - i),
        2 => i % m,
        3 => m - 1 - i % m,
        4 => block((i + n / 3) % n),
        5 => block((i + 2 * n / 3) % n),
        6 => block((i + 1) % n),
        7 => block((i + n - 1) % n),
        8 => block(if i < n / 2 { 2 * i } else { 2 * (n - 1 - i) + 1 }),
        9 => (i / 2) % m,
        10 => (i / 3) % m,
        11 => dbs[m][i % dbs[m].len()],
        12 => block((i * 5) % n),
        13 => block((i * 13) % n),
        14 => {
            if i < n - (m - 1) {
                0
            } else {
                i - (n - m)
            }
        }
        15 => i.min(m - 1),
        _ => unreachable!(),
    }
}

fn subsets(n: usize, sizes: &[usize]) -> Vec<Vec<usize>> {
    fn rec(start: usize, n: usize, left: usize, cur: &mut Vec<usize>, out: &mut Vec<Vec<usize>>) {
        if left == 0 {
            out.push(cur.clone());
            return;
        }
        for i in start..n {
            cur.push(i);
            rec(i + 1, n, left - 1, cur, out);
            cur.pop();
        }
    }
    let mut out = vec![];
    for &s in sizes {
        rec(0, n, s, &mut vec![], &mut out);
    }
    out
}

fn long_array(base: &[usize], n: usize, pattern: usize, dbs: &[Vec<usize>]) -> Vec<usize> {
    (0..n).map(|i| base[layout(pattern, base.len(), n, i, dbs)]).collect()
}

fn check_long(eng: &Eng, al: &Alpha, base: &[usize], n: usize, pattern: usize, dbs: &[Vec<usize>], acc: &mut Acc) {
    let idx = long_array(base, n, pattern, dbs);
    let xs: Vec<&V> = idx.iter().map(|&i| &al.vs[i]).collect();
    let toks: Vec<&str> = idx.iter().map(|&i| al.tok[i].as_str()).collect();
    let pos: Vec<usize> = (0..n).collect();
    let wrapped: Vec<tera::Value> = idx
        .iter()
        .enumerate()
        .map(|(i, &e)| {
            let mut m = tera::value::Map::new();
            m.insert(K::Str("k".into()).to_tera(), al.tv[e].clone());
            m.insert(K::Str("id".into()).to_tera(), tera::Value::from(i as i64));
            tera::Value::from(m)
        })
        .collect();
    let mut ctx = tera::Context::new();
    ctx.insert_value("xs", tera::Value::from(idx.iter().map(|&i| al.tv[i].clone()).collect::<Vec<_>>()));
    ctx.insert_value("ws", tera::Value::from(wrapped));
    let b = || {
        [
            ("base", format!("[{}]", base.iter().map(|&i| al.vs[i].describe()).collect::<Vec<_>>().join(", "))),
            ("pattern", PATTERNS[pattern].to_string()),
            ("length", n.to_string()),
            ("xs", V::Arr(xs.iter().map(|v| (*v).clone()).collect()).describe()),
            ("ws", "[{\"k\": xs[i], \"id\": i} for every position i]".to_string()),
        ]
    };
    let decode_tok = |s: &str| -> Option<Vec<usize>> { tokens(s)?.iter().map(|t| al.by_tok.get(*t).copied()).collect() };
    let decode_id = |s: &str| parse_ids(s);
    let keys: Vec<Option<&V>> = xs.iter().map(|v| Some(*v)).collect();

    let out = eng.run("sort", &ctx);
    let inp = SortInput { keys: keys.clone(), kid: idx.clone(), ident: idx.clone(), may_refuse: false };
    judge_sort(acc, "sort", "plain", &out, &inp, &decode_tok, &|| mk_case(eng, "sort", &b()));

    let out = eng.run("w_sort_k", &ctx);
    let inp = SortInput { keys: keys.clone(), kid: idx.clone(), ident: pos.clone(), may_refuse: false };
    judge_sort(acc, "w_sort_k", "attribute", &out, &inp, &decode_id, &|| mk_case(eng, "w_sort_k", &b()));

    let out = eng.run("unique", &ctx);
    judge_unique(acc, "unique", &out, &xs, &toks, &|| mk_case(eng, "unique", &b()));

    let out = eng.run("w_group_k", &ctx);
    judge_group(acc, "w_group_k", &out, &keys, false, &|p| p.to_string(), &|p| al.tok[idx[p]].clone(), &|| mk_case(eng, "w_group_k", &b()));

    let out = eng.run("rev2", &ctx);
    let want: String = toks.iter().map(|t| format!("{t};")).collect();
    expect_text(acc, "rev2", "reverse-twice-not-identity", &out, &want, true, &|| mk_case(eng, "rev2", &b()));
}

// ---------------------------------------------------------------------------------------------
// ordered triples of the common value alphabet

struct Labeled {
    vs: Vec<V>,
    tv: Vec<tera::Value>,
    tok: Vec<String>,
}

fn labeled(eng: &Eng, vs: Vec<V>) -> Labeled {
    let tok: Vec<String> = vs.iter().map(|v| if *v == V::Undef { String::new() } else { eng.label(v).0 }).collect();
    for (v, t) in vs.iter().zip(&tok) {
        if t.contains([';', '#', '¦']) {
            die(format!("value alphabet: the print of {} contains a separator", v.describe()));
        }
    }
    Labeled { tv: vs.iter().map(|v| v.to_tera()).collect(), vs, tok }
}

fn check_triple(eng: &Eng, l: &Labeled, idx: &[usize], acc: &mut Acc) {
    let xs: Vec<&V> = idx.iter().map(|&i| &l.vs[i]).collect();
    let toks: Vec<&str> = idx.iter().map(|&i| l.tok[i].as_str()).collect();
    let pos: Vec<usize> = (0..idx.len()).collect();
    let wrapped: Vec<tera::Value> = idx
        .iter()
        .enumerate()
        .map(|(i, &e)| {
            let mut m = tera::value::Map::new();
            m.insert(K::Str("k".into()).to_tera(), l.tv[e].clone());
            m.insert(K::Str("id".into()).to_tera(), tera::Value::from(i as i64));
            tera::Value::from(m)
        })
        .collect();
    let mut ctx = tera::Context::new();
    ctx.insert_value("xs", tera::Value::from(idx.iter().map(|&i| l.tv[i].clone()).collect::<Vec<_>>()));
    ctx.insert_value("ws", tera::Value::from(wrapped));
    let b = || {
        [
            ("xs", V::Arr(xs.iter().map(|v| (*v).clone()).collect()).describe()),
            ("ws", "[{\"k\": xs[i], \"id\": i} for every position i]".to_string()),
        ]
    };
    let keys: Vec<Option<&V>> = xs.iter().map(|v| Some(*v)).collect();
    let decode_id = |s: &str| parse_ids(s);

    let out = eng.run("w_sort_k", &ctx);
    let inp = SortInput { keys: keys.clone(), kid: idx.to_vec(), ident: pos.clone(), may_refuse: false };
    judge_sort(acc, "w_sort_k", "attribute", &out, &inp, &decode_id, &|| mk_case(eng, "w_sort_k", &b()));

    let out = eng.run("unique", &ctx);
    judge_unique(acc, "unique", &out, &xs, &toks, &|| mk_case(eng, "unique", &b()));

    let out = eng.run("w_group_k", &ctx);
    judge_group(acc, "w_group_k", &out, &keys, false, &|p| p.to_string(), &|p| l.tok[idx[p]].clone(), &|| mk_case(eng, "w_group_k", &b()));
}

include!("others2.rs");
