//! C16 — collection filters keep their contracts
//! (sort, unique, group_by, first, last, nth, length, reverse, keys/values/pairs, join, split).
//!
//! Every input of the stated finite spaces is built as a context value, pushed through the real
//! filters by registered templates that print *discriminating projections* (a kind tag plus the
//! engine's own print of every element, or element ids), and judged by reference semantics in
//! `refs.rs` that never call the filter under test.
//!
//! Families:
//!   arrays      all arrays of length <= 4 (quick) / <= 6 (thorough) over the 12-element alphabet E
//!               x every filter program
//!   arrays-wide all arrays of length <= 3 / <= 4 over the 27-element alphabet E+ x the same programs
//!   keyed       all arrays of length <= 4 / <= 6 of maps {"id": position, "k": key, "p": {"k": key},
//!               "t": [key]} with key over the 12-element key alphabet KA (incl. "missing"):
//!               sort / group_by by "k", "p.k", "t.0", bad paths, unique
//!   long        arrays of length 21, 22, 33, 64 over every pair and triple (thorough: also every
//!               4- and 5-subset) of the 20-element alphabet EL laid out by 16 arrangement patterns:
//!               sort, sort(attribute) on wrapped elements, unique, group_by
//!   triples-v   every ordered triple of the common value alphabet V: sort(attribute), unique, group_by
//!   maps        all maps of <= 3 (thorough <= 4) entries: keys / values / pairs / length / sort after
//!   strings     all strings of <= 4 (thorough <= 6) characters over 6 characters of 1..4 bytes x
//!               11 patterns: split, split|join, reverse, length
//!   receivers   every value of V (and undefined) as the receiver of every filter, wrong-kind
//!               arguments: no panic, documented refusals

mod refs;

use mccore::engine::{self, Out};
use mccore::vals::{self, K, Kind, V};
use mccore::{Acc, Family, Run, json};
use refs::*;
use serde_json::Value as Json;
use std::collections::HashMap;

fn die(msg: String) -> ! {
    println!("MACHINERY: {msg}");
    std::process::exit(2);
}

// ---------------------------------------------------------------------------------------------
// engine with registered programs

struct Eng {
    tera: tera::Tera,
    srcs: Vec<(String, String)>,
}

/// The projection of one element bound to `var`: a kind tag, the engine's own print, `;`.
fn tag(var: &str) -> String {
    format!(
        "{{% if {v} is none %}}n{{% elif {v} is string %}}s{{% elif {v} is integer %}}i{{% elif {v} is float %}}f{{% elif {v} is bool %}}b{{% elif {v} is array %}}a{{% elif {v} is map %}}m{{% else %}}?{{% endif %}}{{{{ {v} }}}};",
        v = var
    )
}

impl Eng {
    fn new(progs: Vec<(&str, String)>) -> Eng {
        let mut tera = tera::Tera::default();
        tera.autoescape_on(Vec::<&str>::new());
        let srcs: Vec<(String, String)> = progs.into_iter().map(|(a, b)| (a.to_string(), b)).collect();
        if let Err(e) = tera.add_raw_templates(srcs.iter().map(|(a, b)| (a.as_str(), b.as_str()))) {
            die(format!("the check's own templates do not load: {e:?}"));
        }
        Eng { tera, srcs }
    }
    fn src(&self, name: &str) -> &str {
        self.srcs.iter().find(|(n, _)| n == name).map(|(_, s)| s.as_str()).unwrap_or("?")
    }
    fn run(&self, name: &str, ctx: &tera::Context) -> Out {
        engine::render(&self.tera, name, ctx)
    }
    /// (token, plain print) of a value, as the engine labels / prints it when it stands alone.
    fn label(&self, v: &V) -> (String, String) {
        let ctx = vals::context(&[("x", v)]);
        let t = self.run("label", &ctx);
        let p = self.run("plain", &ctx);
        match (t, p) {
            (Out::Ok(t), Out::Ok(p)) => (t.strip_suffix(';').unwrap_or(&t).to_string(), p),
            (t, p) => die(format!("cannot label {}: {} / {}", v.describe(), t.show(), p.show())),
        }
    }
}

fn programs() -> Vec<(&'static str, String)> {
    let t = tag("x");
    let tk = tag("k");
    let lp = |e: &str| format!("{{% for x in {e} %}}{t}{{% endfor %}}");
    let ids = |e: &str| format!("{{% for x in {e} %}}{{{{ x.id }}}};{{% endfor %}}");
    let grp = |e: &str, member: &str| {
        format!("{{% for k, v in {e} %}}{tk}¦{{% for x in v %}}{member}{{% endfor %}}#{{% endfor %}}")
    };
    let one = |e: &str| format!("{{% set x = {e} %}}{t}");
    let mut p: Vec<(&'static str, String)> = vec![
        ("label", t.clone()),
        ("plain", "{{ x }}".to_string()),
        // plain arrays (context: xs, n, s)
        ("sort", lp("xs | sort")),
        ("sort_k", lp("xs | sort(attribute=\"k\")")),
        ("unique", lp("xs | unique")),
        ("group_k", grp("xs | group_by(attribute=\"k\")", &t)),
        ("first", one("xs | first")),
        ("last", one("xs | last")),
        ("nth", one("xs | nth(n=n)")),
        ("nth_noarg", one("xs | nth")),
        ("length", "{{ xs | length }}".to_string()),
        ("reverse", lp("xs | reverse")),
        ("rev2", lp("xs | reverse | reverse")),
        ("join", "{{ xs | join(sep=s) }}".to_string()),
        ("join_nosep", "{{ xs | join }}".to_string()),
        ("join_split", lp("xs | join(sep=s) | split(pat=s)")),
        ("join_split_join", "{{ xs | join(sep=s) | split(pat=s) | join(sep=s) }}".to_string()),
        // arrays of maps with ids (context: ws, a)
        ("w_sort_k", ids("ws | sort(attribute=\"k\")")),
        ("w_sort_pk", ids("ws | sort(attribute=\"p.k\")")),
        ("w_sort_t0", ids("ws | sort(attribute=\"t.0\")")),
        ("w_sort_a", ids("ws | sort(attribute=a)")),
        ("w_sort_plain", ids("ws | sort")),
        ("w_unique", ids("ws | unique")),
        ("w_group_k", grp("ws | group_by(attribute=\"k\")", "{{ x.id }};")),
        ("w_group_pk", grp("ws | group_by(attribute=\"p.k\")", "{{ x.id }};")),
        ("w_group_a", grp("ws | group_by(attribute=a)", "{{ x.id }};")),
        // maps (context: m)
        ("keys", lp("m | keys")),
        ("values", lp("m | values")),
        (
            "pairs",
            format!(
                "{{% for p in m | pairs %}}{{% set k = p[0] %}}{{% set x = p[1] %}}{{{{ p | length }}}}:{tk}={t}#{{% endfor %}}"
            ),
        ),
        (
            "pairs_sorted",
            format!(
                "{{% for p in m | pairs | sort(attribute=\"0\") %}}{{% set k = p[0] %}}{{% set x = p[1] %}}{{{{ p | length }}}}:{tk}={t}#{{% endfor %}}"
            ),
        ),
        ("keys_sorted", lp("m | keys | sort")),
        ("m_length", "{{ m | length }}".to_string()),
        // strings (context: s, p)
        ("split", format!("{{{{ s | split(pat=p) | length }}}}:{}", lp("s | split(pat=p)"))),
        ("split_join", "{{ s | split(pat=p) | join(sep=p) }}".to_string()),
        ("s_reverse", "{{ s | reverse }}".to_string()),
        ("s_rev2", "{{ s | reverse | reverse }}".to_string()),
        ("s_length", "{{ s | length }}:{{ s | reverse | length }}".to_string()),
    ];
    // receivers (context: x, a): every filter on an arbitrary receiver
    for (name, f) in RECEIVER_FILTERS {
        p.push((name, format!("{{{{ x | {f} }}}}")));
    }
    for (name, f) in ARG_FILTERS {
        p.push((name, format!("{{{{ x | {f} }}}}")));
    }
    p
}

const RECEIVER_FILTERS: [(&str, &str); 16] = [
    ("r_sort", "sort"),
    ("r_sort_k", "sort(attribute=\"k\")"),
    ("r_unique", "unique"),
    ("r_group_k", "group_by(attribute=\"k\")"),
    ("r_first", "first"),
    ("r_last", "last"),
    ("r_nth", "nth(n=0)"),
    ("r_length", "length"),
    ("r_reverse", "reverse"),
    ("r_rev2", "reverse | reverse"),
    ("r_keys", "keys"),
    ("r_values", "values"),
    ("r_pairs", "pairs"),
    ("r_join", "join(sep=\"/\")"),
    ("r_split", "split(pat=\"/\")"),
    ("r_split_join", "split(pat=\"a\") | join(sep=\"a\")"),
];

/// Filters whose keyword argument is taken from the context variable `a` (wrong kinds).
const ARG_FILTERS: [(&str, &str); 5] = [
    ("a_sort", "sort(attribute=a)"),
    ("a_group", "group_by(attribute=a)"),
    ("a_join", "join(sep=a)"),
    ("a_split", "split(pat=a)"),
    ("a_nth", "nth(n=a)"),
];

// ---------------------------------------------------------------------------------------------
// alphabets

struct Alpha {
    vs: Vec<V>,
    tv: Vec<tera::Value>,
    tok: Vec<String>,
    plain: Vec<String>,
    by_tok: HashMap<String, usize>,
    /// token of the element's attribute "k", when it has one
    ktok: Vec<Option<String>>,
}

impl Alpha {
    fn new(eng: &Eng, vs: Vec<V>, name: &str) -> Alpha {
        let mut a = Alpha { tv: vs.iter().map(|v| v.to_tera()).collect(), vs, tok: vec![], plain: vec![], by_tok: HashMap::new(), ktok: vec![] };
        for (i, v) in a.vs.iter().enumerate() {
            let (t, p) = eng.label(v);
            if t.contains([';', '#', '¦']) {
                die(format!("alphabet {name}: the print of {} contains a separator", v.describe()));
            }
            if a.by_tok.insert(t.clone(), i).is_some() {
                die(format!("alphabet {name}: two elements print as {t:?}; projections would be ambiguous"));
            }
            a.tok.push(t);
            a.plain.push(p);
            a.ktok.push(attr(v, "k").map(|k| eng.label(k).0));
        }
        a
    }
    fn n(&self) -> u64 {
        self.vs.len() as u64
    }
    fn describe(&self) -> Json {
        json!(self.vs.iter().map(|v| v.describe()).collect::<Vec<_>>())
    }
}

fn mid(id: i64, k: Option<V>) -> V {
    let mut e = vec![];
    if let Some(k) = k {
        e.push(("k", k));
    }
    e.push(("id", V::I64(id)));
    V::map(&e)
}

/// E of DESIGN §4 C16.
fn alphabet_e() -> Vec<V> {
    vec![
        V::I64(1),
        V::F64(1.0),
        V::I64(2),
        V::s("a"),
        V::s("b"),
        V::None,
        V::Arr(vec![V::I64(1)]),
        V::Arr(vec![V::s("a")]),
        mid(0, Some(V::I64(1))),
        mid(1, Some(V::F64(1.0))),
        mid(2, Some(V::s("a"))),
        mid(3, None),
    ]
}

/// E+ : E plus bools, a fraction, NaN, the empty string (prints like none), more arrays (so that
/// lexicographic order, the empty array and partial comparability inside arrays are reached),
/// maps that are `==` but print differently, and more attribute kinds.
fn alphabet_wide() -> Vec<V> {
    let mut v = alphabet_e();
    v.extend([
        V::Bool(true),
        V::Bool(false),
        V::F64(0.5),
        V::F64(f64::NAN),
        V::s(""),
        V::Arr(vec![]),
        V::Arr(vec![V::I64(2)]),
        V::Arr(vec![V::I64(1), V::I64(2)]),
        V::Arr(vec![V::None, V::I64(1)]),
        V::map(&[("k", V::I64(1))]),
        V::map(&[("k", V::F64(1.0))]),
        mid(4, Some(V::I64(2))),
        mid(5, Some(V::None)),
        mid(6, Some(V::s("b"))),
        mid(7, Some(V::Bool(true))),
        // one class of equal numbers with three prints: positive and negative float zero, integer zero
        V::F64(0.0),
        V::F64(-0.0),
        V::I64(0),
        mid(8, Some(V::F64(0.0))),
        mid(9, Some(V::F64(-0.0))),
        // maps that differ in a bool key only (unequal, and `unique` must keep both)
        V::Map(vec![(K::Bool(true), V::I64(1))]),
        V::Map(vec![(K::Bool(false), V::I64(1))]),
        // negative floats with a fraction between the integers next to them (with 0 above:
        // -1.5 < -1 < -0.5 < 0; seeded change C16-11 compared a float with an integer after
        // truncating it toward zero)
        V::F64(-0.5),
        V::I64(-1),
        V::F64(-1.5),
        mid(10, Some(V::F64(-0.5))),
        mid(11, Some(V::I64(-1))),
    ]);
    v
}

/// EL : the alphabet of the long-input family (E plus the shapes on which a structural fallback
/// order matters: several arrays that are pairwise comparable / incomparable, a bool, NaN).
fn alphabet_long() -> Vec<V> {
    let mut v = alphabet_e();
    v.extend([
        V::Arr(vec![V::I64(2)]),
        V::Arr(vec![V::I64(0)]),
        V::Arr(vec![V::s("b")]),
        V::Arr(vec![V::I64(1), V::I64(2)]),
        V::Arr(vec![]),
        V::Bool(true),
        V::F64(0.5),
        V::F64(f64::NAN),
    ]);
    v
}

/// KA : keys of the keyed family; `None` = the element has no attribute at all.
fn alphabet_keys() -> Vec<Option<V>> {
    vec![
        Some(V::I64(1)),
        // the same integer in an unsigned encoding: one key, one group (seeded change C16-3: equal
        // keys of different signedness hashed differently and group_by split them)
        Some(V::U64(1)),
        Some(V::F64(1.0)),
        // equal keys that print differently (seeded change C16-4: an order that told -0.0 from 0.0)
        Some(V::F64(0.0)),
        Some(V::F64(-0.0)),
        Some(V::U64(2)),
        Some(V::s("a")),
        Some(V::s("b")),
        Some(V::None),
        Some(V::Bool(true)),
        Some(V::Bool(false)),
        Some(V::Arr(vec![V::I64(1)])),
        Some(V::Arr(vec![V::s("a")])),
        Some(V::map(&[("z", V::I64(1))])),
        None,
    ]
}

fn keyed_element(id: usize, key: &Option<V>) -> V {
    match key {
        Some(k) => V::map(&[
            ("id", V::I64(id as i64)),
            ("k", k.clone()),
            ("p", V::map(&[("k", k.clone())])),
            ("t", V::Arr(vec![k.clone()])),
        ]),
        None => V::map(&[("id", V::I64(id as i64)), ("p", V::Map(vec![])), ("t", V::Arr(vec![]))]),
    }
}

/// Decodes `item` into a sequence over `base` symbols, all lengths 0..=maxlen, shortest first.
fn decode_seq(mut item: u64, base: u64, maxlen: usize) -> Vec<usize> {
    let mut len = 0usize;
    let mut count = 1u64;
    while item >= count {
        item -= count;
        count *= base;
        len += 1;
        assert!(len <= maxlen);
    }
    let mut out = vec![0usize; len];
    for d in out.iter_mut().rev() {
        *d = (item % base) as usize;
        item /= base;
    }
    out
}

fn seq_count(base: u64, maxlen: usize) -> u64 {
    (0..=maxlen as u32).map(|l| base.pow(l)).sum()
}

fn tokens(s: &str) -> Option<Vec<&str>> {
    let mut v: Vec<&str> = s.split(';').collect();
    if v.pop() != Some("") {
        return None;
    }
    Some(v)
}

fn parse_ids(s: &str) -> Option<Vec<usize>> {
    tokens(s)?.into_iter().map(|t| t.parse().ok()).collect()
}

// ---------------------------------------------------------------------------------------------
// judging one sort render

#[allow(clippy::too_many_arguments)]
fn judge_sort(
    acc: &mut Acc,
    prog: &str,
    which: &str,
    out: &Out,
    inp: &SortInput,
    decode: &dyn Fn(&str) -> Option<Vec<usize>>,
    case: &dyn Fn() -> Json,
) {
    let n = inp.keys.len();
    let facts = sort_facts(inp);
    match out {
        Out::Panic(p) => {
            acc.violation(format!("panic:sort:{which}"), format!("sort panicked: {p}"), case);
        }
        Out::Err(..) => {
            if facts.missing {
                acc.count("sort-refused-missing-attribute", 1);
            } else if facts.incomparable.is_some() {
                acc.count("sort-refused-incomparable", 1);
            } else if inp.may_refuse {
                acc.count("sort-refused-none-element(unpinned)", 1);
            } else {
                acc.violation(
                    format!("sort-rejected-comparable:{which}"),
                    format!("all keys are mutually comparable (or none) but sort refused: {}", out.show()),
                    case,
                );
            }
        }
        Out::Ok(s) => {
            if facts.missing {
                acc.violation(
                    format!("sort-accepted-missing-attribute:{which}"),
                    format!("an element has no such attribute but sort answered {s:?}"),
                    case,
                );
            } else if let Some((i, j)) = facts.incomparable {
                acc.violation(
                    format!("sort-accepted-incomparable:{which}"),
                    format!(
                        "keys at input positions {i} and {j} ({} and {}) are not comparable, but sort answered {s:?}",
                        inp.keys[i].unwrap().describe(),
                        inp.keys[j].unwrap().describe()
                    ),
                    case,
                );
            } else {
                match decode(s) {
                    None => acc.violation(
                        format!("sort-permutation:{which}"),
                        format!("output {s:?} holds something that is not an element of the input"),
                        case,
                    ),
                    Some(obs) => match judge_sorted(inp, &obs) {
                        Ok(ok) => {
                            if ok.stability_observable {
                                acc.count("sort-ok-stability-observable", 1);
                            }
                            if ok.reordered {
                                acc.count("sort-ok-reordered", 1);
                            }
                        }
                        Err((what, msg)) => acc.violation(format!("{what}:{which}"), format!("{msg}; output {s:?}"), case),
                    },
                }
            }
        }
    }
    acc.case(n >= 2, &format!("{prog}:{}", out.class()));
}

/// Judges a group_by render. `keys[p]`: attribute of input position p (None = missing).
#[allow(clippy::too_many_arguments)]
fn judge_group(
    acc: &mut Acc,
    prog: &str,
    out: &Out,
    keys: &[Option<&V>],
    none_element: bool,
    member_tok: &dyn Fn(usize) -> String,
    key_tok: &dyn Fn(usize) -> String,
    case: &dyn Fn() -> Json,
) {
    let facts = group_facts(keys, none_element);
    match out {
        Out::Panic(p) => acc.violation("panic:group_by", format!("group_by panicked: {p}"), case),
        Out::Err(..) => {
            if facts.missing {
                acc.count("group_by-refused-missing-attribute", 1);
            } else if facts.unkeyable {
                acc.count("group_by-refused-unkeyable(unpinned)", 1);
            } else if facts.none_element {
                acc.count("group_by-refused-none-element(unpinned)", 1);
            } else {
                acc.violation(
                    "group_by-rejected",
                    format!("every attribute is present and is none or a bool / integer / string, but group_by refused: {}", out.show()),
                    case,
                );
            }
        }
        Out::Ok(s) => {
            if facts.unkeyable {
                // documentation: keys are "stringified"; how floats / containers group is not pinned,
                // but the groups still partition the elements whose attribute is present and not none:
                // none of them may be lost (seeded change C16-10 skipped unkeyable attributes silently)
                acc.count("group_by-ok-unkeyable(membership-only)", 1);
                if let Some(obs) = parse_groups(s) {
                    let mut got: Vec<String> = obs.iter().flat_map(|g| g.1.iter().cloned()).collect();
                    let mut want: Vec<String> = keys
                        .iter()
                        .enumerate()
                        .filter(|(_, k)| matches!(k, Some(k) if **k != V::None))
                        .map(|(p, _)| member_tok(p))
                        .collect();
                    got.sort();
                    want.sort();
                    if got != want {
                        acc.violation(
                            "group_by-partition",
                            format!("the groups hold the members {got:?}, the elements whose attribute is present and not none are {want:?}; output {s:?}"),
                            case,
                        );
                    }
                }
            } else {
                if facts.missing {
                    acc.count("group_by-ok-missing-dropped", 1);
                }
                match parse_groups(s) {
                    None => acc.violation("group_by-partition", format!("unreadable projection {s:?}"), case),
                    Some(obs) => {
                        if let Err((what, msg)) = judge_groups(&facts, &obs, member_tok, key_tok) {
                            acc.violation(what, format!("{msg}; output {s:?}"), case);
                        } else {
                            if facts.groups.iter().any(|g| g.1.len() >= 2) {
                                acc.count("group_by-ok-multi-member-group", 1);
                            }
                            if facts.groups.len() >= 2 {
                                acc.count("group_by-ok-several-groups", 1);
                            }
                        }
                    }
                }
            }
        }
    }
    acc.case(keys.len() >= 2, &format!("{prog}:{}", out.class()));
}

fn expect_text(acc: &mut Acc, prog: &str, sig: &str, out: &Out, want: &str, nontrivial: bool, case: &dyn Fn() -> Json) {
    if out.ok() != Some(want) {
        let sig = if out.is_panic() { format!("panic:{prog}") } else { sig.to_string() };
        acc.violation(sig, format!("{prog} gave {}, expected {want:?}", out.show()), case);
    }
    acc.case(nontrivial, &format!("{prog}:{}", out.class()));
}

fn expect_err(acc: &mut Acc, prog: &str, sig: &str, out: &Out, case: &dyn Fn() -> Json) {
    if !out.is_err() {
        let sig = if out.is_panic() { format!("panic:{prog}") } else { sig.to_string() };
        acc.violation(sig, format!("{prog} gave {}, expected a refusal", out.show()), case);
    }
    acc.case(true, &format!("{prog}:{}", out.class()));
}

include!("arrays.rs");
include!("others.rs");
include!("run.rs");
