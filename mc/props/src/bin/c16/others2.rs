// Part of main.rs (include!): maps, strings and receivers families.

fn map_keys() -> Vec<K> {
    vec![
        K::Str("a".into()),
        K::Str("b".into()),
        K::Str("".into()),
        K::Str("é".into()),
        K::I64(1),
        K::U64(2),
        K::Bool(true),
        K::I128(-1),
    ]
}

fn map_values() -> Vec<V> {
    vec![V::I64(1), V::F64(1.0), V::s("a"), V::None, V::Arr(vec![V::I64(1)]), V::map(&[("k", V::I64(1))])]
}

struct MapSpace {
    keys: Vec<K>,
    ktok: Vec<String>,
    kv: Vec<V>,
    vals: Vec<V>,
    vtok: Vec<String>,
    subsets: Vec<Vec<usize>>,
    /// first item index of every subset
    starts: Vec<u64>,
    total: u64,
}

fn map_space(eng: &Eng, max_entries: usize) -> MapSpace {
    let keys = map_keys();
    let vals = map_values();
    let kv: Vec<V> = keys.iter().map(|k| k.as_v()).collect();
    let ktok: Vec<String> = kv.iter().map(|v| eng.label(v).0).collect();
    let vtok: Vec<String> = vals.iter().map(|v| eng.label(v).0).collect();
    for t in ktok.iter().chain(&vtok) {
        if t.contains([';', '#', '=', ':']) && !t.starts_with('m') {
            die(format!("maps: token {t:?} contains a separator"));
        }
    }
    let mut d = ktok.clone();
    d.sort();
    d.dedup();
    if d.len() != ktok.len() {
        die("maps: two keys print alike".into());
    }
    let sizes: Vec<usize> = (0..=max_entries).collect();
    let subsets = subsets(keys.len(), &sizes);
    let mut starts = vec![];
    let mut total = 0u64;
    for s in &subsets {
        starts.push(total);
        total += (vals.len() as u64).pow(s.len() as u32);
    }
    MapSpace { keys, ktok, kv, vals, vtok, subsets, starts, total }
}

/// Parses `2:ktok;=vtok;#...` into (length text, key token, value token).
fn parse_pairs(s: &str) -> Option<Vec<(String, String, String)>> {
    let mut parts: Vec<&str> = s.split('#').collect();
    if parts.pop() != Some("") {
        return None;
    }
    let mut out = vec![];
    for p in parts {
        let (len, rest) = p.split_once(':')?;
        let rest = rest.strip_suffix(';')?;
        let (k, v) = rest.split_once(";=")?;
        out.push((len.to_string(), k.to_string(), v.to_string()));
    }
    Some(out)
}

fn check_map(eng: &Eng, ms: &MapSpace, item: u64, acc: &mut Acc) {
    let si = match ms.starts.binary_search(&item) {
        Ok(i) => i,
        Err(i) => i - 1,
    };
    let subset = &ms.subsets[si];
    let mut r = item - ms.starts[si];
    let nv = ms.vals.len() as u64;
    // entries: (key index, value index)
    let mut entries: Vec<(usize, usize)> = vec![];
    for &k in subset {
        entries.push((k, (r % nv) as usize));
        r /= nv;
    }
    let n = entries.len();
    let m = V::Map(entries.iter().map(|&(k, v)| (ms.keys[k].clone(), ms.vals[v].clone())).collect());
    let ctx = vals::context(&[("m", &m)]);
    let b = || [("m", m.describe())];
    let sorted = |mut v: Vec<String>| {
        v.sort();
        v
    };

    // keys / values: the same multiset as the entries (iteration order is not specified)
    let mut in_order: Vec<Option<Vec<String>>> = vec![];
    for (prog, want) in [
        ("keys", sorted(entries.iter().map(|e| ms.ktok[e.0].clone()).collect())),
        ("values", sorted(entries.iter().map(|e| ms.vtok[e.1].clone()).collect())),
    ] {
        let out = eng.run(prog, &ctx);
        in_order.push(out.ok().and_then(tokens).map(|t| t.into_iter().map(String::from).collect()));
        let ok = match &out {
            Out::Ok(s) => tokens(s).map(|t| sorted(t.into_iter().map(String::from).collect())) == Some(want.clone()),
            _ => false,
        };
        if !ok {
            let sig = if out.is_panic() { format!("panic:{prog}") } else { format!("{prog}-mismatch") };
            acc.violation(sig, format!("{prog} gave {}, expected the multiset {want:?}", out.show()), &|| mk_case(eng, prog, &b()));
        }
        acc.case(n >= 1, &format!("{prog}:{}", out.class()));
    }
    // pairs = the entries, each a 2-element array
    let want_pairs = sorted(entries.iter().map(|e| format!("2|{}|{}", ms.ktok[e.0], ms.vtok[e.1])).collect());
    let out = eng.run("pairs", &ctx);
    let ok = match &out {
        Out::Ok(s) => parse_pairs(s).map(|p| sorted(p.into_iter().map(|(l, k, v)| format!("{l}|{k}|{v}")).collect())) == Some(want_pairs.clone()),
        _ => false,
    };
    if !ok {
        let sig = if out.is_panic() { "panic:pairs" } else { "pairs-mismatch" };
        acc.violation(sig, format!("pairs gave {}, expected the multiset (length|key|value) {want_pairs:?}", out.show()), &|| mk_case(eng, "pairs", &b()));
    }
    acc.case(n >= 1, &format!("pairs:{}", out.class()));
    // "agree with one another": whatever order the map is walked in, the three filters walk the
    // SAME map the same way - position i of `pairs` is [position i of `keys`, position i of `values`]
    if let (Some(Some(ks)), Some(Some(vs)), Some(ps)) = (in_order.first(), in_order.get(1), out.ok().and_then(parse_pairs)) {
        let zipped: Vec<(String, String)> = ks.iter().cloned().zip(vs.iter().cloned()).collect();
        let from_pairs: Vec<(String, String)> = ps.iter().map(|(_, k, v)| (k.to_string(), v.to_string())).collect();
        if zipped != from_pairs {
            acc.violation(
                "keys-values-pairs-disagree-by-position",
                format!("keys {ks:?} and values {vs:?} taken position by position do not give pairs {from_pairs:?}"),
                &|| mk_case(eng, "pairs", &b()),
            );
        }
        acc.case(n >= 2, "keys/values/pairs:position-agreement");
    }
    let out = eng.run("m_length", &ctx);
    expect_text(acc, "m_length", "length-mismatch:map", &out, &n.to_string(), n >= 1, &|| mk_case(eng, "m_length", &b()));

    // "You can sort the pairs by key ... using the sort filter after": keys are distinct, so the
    // answer is unique when they are mutually comparable, and a refusal otherwise
    let keys: Vec<Option<&V>> = entries.iter().map(|e| Some(&ms.kv[e.0])).collect();
    let pos: Vec<usize> = (0..n).collect();
    let key_pos = |t: &str| entries.iter().position(|e| ms.ktok[e.0] == t);
    let inp = SortInput { keys: keys.clone(), kid: pos.clone(), ident: pos.clone(), may_refuse: false };
    let out = eng.run("keys_sorted", &ctx);
    judge_sort(acc, "keys_sorted", "map-keys", &out, &inp, &|s| tokens(s)?.into_iter().map(key_pos).collect(), &|| mk_case(eng, "keys_sorted", &b()));
    let out = eng.run("pairs_sorted", &ctx);
    judge_sort(
        acc,
        "pairs_sorted",
        "map-pairs",
        &out,
        &inp,
        &|s| {
            parse_pairs(s)?
                .into_iter()
                .map(|(l, k, v)| {
                    let p = key_pos(&k)?;
                    // the value must still be the one stored under that key
                    (l == "2" && ms.vtok[entries[p].1] == v).then_some(p)
                })
                .collect()
        },
        &|| mk_case(eng, "pairs_sorted", &b()),
    );
}

// ---------------------------------------------------------------------------------------------
// strings

const CHARS: [char; 6] = ['a', 'b', '/', 'é', '€', '😀'];
const PATS: [&str; 11] = ["/", "a", "é", "😀", "//", "a/", "ab", "", "x", "/a/", "aa"];

fn check_string(eng: &Eng, idx: &[usize], acc: &mut Acc) {
    let s: String = idx.iter().map(|&i| CHARS[i]).collect();
    let n = idx.len();
    let mut ctx = tera::Context::new();
    ctx.insert_value("s", tera::Value::from(s.as_str()));
    let b1 = || [("s", format!("{s:?}"))];
    let out = eng.run("s_reverse", &ctx);
    let rev: String = s.chars().rev().collect();
    expect_text(acc, "s_reverse", "reverse-mismatch:string", &out, &rev, n >= 2, &|| mk_case(eng, "s_reverse", &b1()));
    let out = eng.run("s_rev2", &ctx);
    expect_text(acc, "s_rev2", "reverse-twice-not-identity:string", &out, &s, n >= 2, &|| mk_case(eng, "s_rev2", &b1()));
    let out = eng.run("s_length", &ctx);
    expect_text(acc, "s_length", "length-mismatch:string", &out, &format!("{n}:{n}"), n >= 1, &|| mk_case(eng, "s_length", &b1()));
    for pat in PATS {
        ctx.insert_value("p", tera::Value::from(pat));
        let b = || [("s", format!("{s:?}")), ("p", format!("{pat:?}"))];
        let out = eng.run("split_join", &ctx);
        expect_text(acc, "split_join", "join-after-split-not-identity", &out, &s, s.contains(pat), &|| mk_case(eng, "split_join", &b()));
        let out = eng.run("split", &ctx);
        if pat.is_empty() {
            // splitting on the empty pattern is not documented: anything but a panic
            if let Out::Panic(p) = &out {
                acc.violation("panic:split", format!("split panicked: {p}"), &|| mk_case(eng, "split", &b()));
            }
            acc.case(false, &format!("split-empty-pattern:{}", out.class()));
        } else {
            let pieces = naive_split(&s, pat);
            let want = format!("{}:{}", pieces.len(), pieces.iter().map(|p| format!("s{p};")).collect::<String>());
            if n == 0 && out.ok() == Some("0:") {
                acc.case(false, "split:ok"); // "" | split -> []: not documented, accepted
            } else {
                expect_text(acc, "split", "split-mismatch", &out, &want, pieces.len() >= 2, &|| mk_case(eng, "split", &b()));
            }
        }
    }
}

// ---------------------------------------------------------------------------------------------
// receivers and wrong-kind arguments

fn check_receiver(eng: &Eng, l: &Labeled, plain: &[String], i: usize, acc: &mut Acc) {
    let x = &l.vs[i];
    let ctx = vals::context(&[("x", x)]);
    let b = || [("x", x.describe())];
    for (prog, _) in RECEIVER_FILTERS {
        let out = eng.run(prog, &ctx);
        let case = || mk_case(eng, prog, &b());
        if let Out::Panic(p) = &out {
            acc.violation(format!("panic:{prog}"), format!("panicked: {p}"), &case);
        }
        // the few facts the documentation pins for any receiver
        let want: Option<Result<String, ()>> = match (prog, x) {
            ("r_length", V::Arr(a)) => Some(Ok(a.len().to_string())),
            ("r_length", V::Map(m)) => Some(Ok(m.len().to_string())),
            ("r_length", V::Str(s) | V::Safe(s)) => Some(Ok(s.chars().count().to_string())),
            ("r_rev2", V::Arr(_) | V::Str(_) | V::Safe(_)) => Some(Ok(plain[i].clone())),
            ("r_split_join", V::Str(s) | V::Safe(s)) => Some(Ok(s.clone())),
            ("r_keys" | "r_values" | "r_pairs", v) if !matches!(v.kind(), Kind::Map | Kind::Undef) => Some(Err(())),
            ("r_keys" | "r_values" | "r_pairs", V::Map(_)) => None,
            _ => None,
        };
        match &want {
            Some(Ok(w)) if out.ok() != Some(w.as_str()) && !out.is_panic() => {
                acc.violation(format!("receiver-mismatch:{prog}"), format!("gave {}, expected {w:?}", out.show()), &case)
            }
            Some(Err(())) if out.is_ok() => {
                acc.violation(format!("receiver-accepted:{prog}"), format!("gave {}, expected a refusal (the receiver is not a map)", out.show()), &case)
            }
            _ => {}
        }
        if prog == "r_keys" && matches!(x, V::Map(_)) && !out.is_ok() && !out.is_panic() {
            acc.violation("receiver-mismatch:r_keys", format!("keys of a map refused: {}", out.show()), &case);
        }
        acc.case(want.is_some(), &format!("{prog}:{}", out.class()));
    }
}

fn check_argument(eng: &Eng, a: &V, acc: &mut Acc) {
    let arr = V::Arr(vec![mid(0, Some(V::I64(2))), mid(1, Some(V::I64(1)))]);
    let text = V::s("a/b");
    for (prog, _) in ARG_FILTERS {
        let x = if prog == "a_split" { &text } else { &arr };
        let ctx = vals::context(&[("x", x), ("a", a)]);
        let out = eng.run(prog, &ctx);
        let case = || mk_case(eng, prog, &[("x", x.describe()), ("a", a.describe())]);
        if let Out::Panic(p) = &out {
            acc.violation(format!("panic:{prog}"), format!("panicked: {p}"), &case);
        }
        // a value of the wrong kind for a documented string / index argument must be refused;
        // undefined and none arguments are not pinned
        let wrong = match (prog, a.kind()) {
            (_, Kind::Undef | Kind::None) => false,
            ("a_nth", k) => !matches!(k, Kind::Int | Kind::Float),
            (_, k) => k != Kind::Str,
        };
        if wrong && out.is_ok() {
            acc.violation(format!("argument-kind-accepted:{prog}"), format!("gave {}, expected a refusal", out.show()), &case);
        }
        acc.case(wrong, &format!("{prog}:{}", out.class()));
    }
}
