// Part of main.rs (include!): the program list applied to one plain array.

static NONE_V: V = V::None;

const SEPS: [&str; 5] = ["/", "", ", ", "1", "é/"];

fn mk_case(eng: &Eng, prog: &str, bindings: &[(&str, String)]) -> Json {
    let mut m = serde_json::Map::new();
    m.insert("template".into(), json!(eng.src(prog)));
    for (k, v) in bindings {
        m.insert((*k).into(), json!(v));
    }
    Json::Object(m)
}

enum NthWant {
    At(usize),
    AtOrErr(usize),
    Err,
    ErrOrNone,
}

fn nth_specials() -> Vec<(V, NthWant)> {
    vec![
        (V::U64(1), NthWant::At(1)),
        (V::I128(0), NthWant::At(0)),
        (V::U128(2), NthWant::At(2)),
        (V::U64(u64::MAX), NthWant::ErrOrNone),
        (V::U128(1u128 << 64), NthWant::ErrOrNone),
        (V::I128(i128::MIN), NthWant::ErrOrNone),
        (V::F64(1.0), NthWant::AtOrErr(1)),
        (V::F64(1.5), NthWant::Err),
        (V::F64(f64::NAN), NthWant::Err),
        (V::s("1"), NthWant::Err),
        (V::None, NthWant::Err),
        (V::Bool(true), NthWant::Err),
        (V::Arr(vec![V::I64(0)]), NthWant::Err),
        (V::Map(vec![]), NthWant::Err),
    ]
}

fn unique_sig(obs: &[&str], want: &[&str]) -> &'static str {
    let (mut a, mut b) = (obs.to_vec(), want.to_vec());
    a.sort();
    b.sort();
    if a == b {
        "unique-order"
    } else if obs.len() < want.len() {
        "unique-merged-distinct"
    } else if obs.len() > want.len() {
        "unique-kept-duplicate"
    } else {
        "unique-wrong-representative"
    }
}

/// `unique` on a sequence of values whose tokens are `toks`: first occurrence of every == class.
fn judge_unique(acc: &mut Acc, prog: &str, out: &Out, xs: &[&V], toks: &[&str], case: &dyn Fn() -> Json) {
    let want: Vec<&str> = unique_positions(xs).iter().map(|&p| toks[p]).collect();
    match out {
        Out::Ok(s) => match tokens(s) {
            Some(obs) if obs == want => {
                if want.len() < xs.len() {
                    acc.count("unique-ok-merged-duplicates", 1);
                }
            }
            Some(obs) => acc.violation(unique_sig(&obs, &want), format!("unique gave {obs:?}, expected {want:?}"), case),
            None => acc.violation("unique-order", format!("unreadable projection {s:?}"), case),
        },
        Out::Err(..) => acc.violation("unique-refused", format!("unique refused: {}", out.show()), case),
        Out::Panic(p) => acc.violation("panic:unique", format!("unique panicked: {p}"), case),
    }
    acc.case(xs.len() >= 2, &format!("{prog}:{}", out.class()));
}

fn check_array(eng: &Eng, al: &Alpha, idx: &[usize], acc: &mut Acc, specials: &[(V, NthWant)]) {
    let n = idx.len();
    let xs: Vec<&V> = idx.iter().map(|&i| &al.vs[i]).collect();
    let toks: Vec<&str> = idx.iter().map(|&i| al.tok[i].as_str()).collect();
    let plains: Vec<&str> = idx.iter().map(|&i| al.plain[i].as_str()).collect();
    let mut ctx = tera::Context::new();
    ctx.insert_value("xs", tera::Value::from(idx.iter().map(|&i| al.tv[i].clone()).collect::<Vec<_>>()));
    let xs_text = || V::Arr(xs.iter().map(|v| (*v).clone()).collect()).describe();
    let decode = |s: &str| -> Option<Vec<usize>> { tokens(s)?.iter().map(|t| al.by_tok.get(*t).copied()).collect() };
    let seq = |ts: &mut dyn Iterator<Item = &str>| -> String {
        let mut s = String::new();
        for t in ts {
            s.push_str(t);
            s.push(';');
        }
        s
    };

    // sort
    let out = eng.run("sort", &ctx);
    let inp = SortInput { keys: xs.iter().map(|v| Some(*v)).collect(), kid: idx.to_vec(), ident: idx.to_vec(), may_refuse: false };
    judge_sort(acc, "sort", "plain", &out, &inp, &decode, &|| mk_case(eng, "sort", &[("xs", xs_text())]));

    // sort(attribute="k"): the attribute of a none element is not documented (none or missing)
    let none_element = xs.iter().any(|v| **v == V::None);
    let keys_k: Vec<Option<&V>> = xs.iter().map(|v| if **v == V::None { Some(&NONE_V) } else { attr(v, "k") }).collect();
    let out = eng.run("sort_k", &ctx);
    let inp = SortInput { keys: keys_k.clone(), kid: idx.to_vec(), ident: idx.to_vec(), may_refuse: none_element };
    judge_sort(acc, "sort_k", "attribute", &out, &inp, &decode, &|| mk_case(eng, "sort_k", &[("xs", xs_text())]));

    // unique
    let out = eng.run("unique", &ctx);
    judge_unique(acc, "unique", &out, &xs, &toks, &|| mk_case(eng, "unique", &[("xs", xs_text())]));

    // group_by(attribute="k")
    let out = eng.run("group_k", &ctx);
    judge_group(
        acc,
        "group_k",
        &out,
        &keys_k,
        none_element,
        &|p| al.tok[idx[p]].clone(),
        &|p| al.ktok[idx[p]].clone().unwrap_or_default(),
        &|| mk_case(eng, "group_k", &[("xs", xs_text())]),
    );

    // first / last / nth / length
    let at = |p: usize| -> String { format!("{};", if p < n { toks[p] } else { "n" }) };
    let out = eng.run("first", &ctx);
    expect_text(acc, "first", "first-mismatch", &out, &at(0), n >= 1, &|| mk_case(eng, "first", &[("xs", xs_text())]));
    let out = eng.run("last", &ctx);
    let want = if n == 0 { "n;".to_string() } else { at(n - 1) };
    expect_text(acc, "last", "last-mismatch", &out, &want, n >= 1, &|| mk_case(eng, "last", &[("xs", xs_text())]));
    for i in -1i64..=(n as i64 + 1) {
        ctx.insert_value("n", tera::Value::from(i));
        let out = eng.run("nth", &ctx);
        let case = || mk_case(eng, "nth", &[("xs", xs_text()), ("n", format!("{i}i64"))]);
        if i < 0 {
            // negative n: not documented. A refusal, none, or counting from the end are accepted.
            let ok = match &out {
                Out::Err(..) => true,
                Out::Ok(s) => s == "n;" || (n > 0 && *s == at(n - 1)),
                Out::Panic(_) => false,
            };
            if !ok {
                let sig = if out.is_panic() { "panic:nth" } else { "nth-mismatch:negative" };
                acc.violation(sig, format!("nth(n=-1) gave {}", out.show()), &case);
            }
            acc.case(true, &format!("nth:{}", out.class()));
        } else {
            expect_text(acc, "nth", "nth-mismatch", &out, &at(i as usize), (i as usize) < n, &case);
        }
    }
    if !specials.is_empty() {
        for (nv, want) in specials {
            ctx.insert_value("n", nv.to_tera());
            let out = eng.run("nth", &ctx);
            let case = || mk_case(eng, "nth", &[("xs", xs_text()), ("n", nv.describe())]);
            let ok = match (want, &out) {
                (_, Out::Panic(_)) => false,
                (NthWant::At(p), Out::Ok(s)) | (NthWant::AtOrErr(p), Out::Ok(s)) => *s == at(*p),
                (NthWant::AtOrErr(_), Out::Err(..)) => true,
                (NthWant::At(_), Out::Err(..)) => false,
                (NthWant::Err, o) => o.is_err(),
                (NthWant::ErrOrNone, Out::Ok(s)) => s == "n;",
                (NthWant::ErrOrNone, Out::Err(..)) => true,
            };
            if !ok {
                let sig = if out.is_panic() { "panic:nth" } else { "nth-mismatch:argument-kind" };
                acc.violation(sig, format!("nth(n={}) gave {}", nv.describe(), out.show()), &case);
            }
            acc.case(true, &format!("nth-special:{}", out.class()));
        }
        ctx.remove("n");
        let out = eng.run("nth_noarg", &ctx);
        expect_err(acc, "nth_noarg", "nth-missing-argument-accepted", &out, &|| mk_case(eng, "nth_noarg", &[("xs", xs_text())]));
    }
    let out = eng.run("length", &ctx);
    expect_text(acc, "length", "length-mismatch", &out, &n.to_string(), n >= 1, &|| mk_case(eng, "length", &[("xs", xs_text())]));

    // reverse
    let out = eng.run("reverse", &ctx);
    expect_text(acc, "reverse", "reverse-mismatch", &out, &seq(&mut toks.iter().rev().copied()), n >= 2, &|| {
        mk_case(eng, "reverse", &[("xs", xs_text())])
    });
    let out = eng.run("rev2", &ctx);
    expect_text(acc, "rev2", "reverse-twice-not-identity", &out, &seq(&mut toks.iter().copied()), n >= 2, &|| {
        mk_case(eng, "rev2", &[("xs", xs_text())])
    });

    // join / split
    let out = eng.run("join_nosep", &ctx);
    expect_text(acc, "join_nosep", "join-mismatch:no-sep", &out, &plains.concat(), n >= 1, &|| mk_case(eng, "join_nosep", &[("xs", xs_text())]));
    for sep in SEPS {
        ctx.insert_value("s", tera::Value::from(sep));
        let joined = plains.join(sep);
        let b = || [("xs", xs_text()), ("s", format!("{sep:?}"))];
        let out = eng.run("join", &ctx);
        expect_text(acc, "join", "join-mismatch", &out, &joined, n >= 2, &|| mk_case(eng, "join", &b()));
        let out = eng.run("join_split_join", &ctx);
        expect_text(acc, "join_split_join", "join-split-join-not-identity", &out, &joined, n >= 2, &|| mk_case(eng, "join_split_join", &b()));
        if !sep.is_empty() {
            let out = eng.run("join_split", &ctx);
            let pieces = naive_split(&joined, sep);
            let want: String = pieces.iter().map(|p| format!("s{p};")).collect();
            let clean = plains.iter().all(|p| !p.contains(sep));
            if clean {
                acc.count("join-split-roundtrip-clean", 1);
                // metamorphic reading: the pieces are exactly the prints of the elements
                debug_assert!(n == 0 || pieces.len() == n);
            }
            if n == 0 && out.ok() == Some("") {
                // "" | split gives [] instead of [""]: not documented, accepted
                acc.case(false, "join_split:ok");
            } else {
                expect_text(acc, "join_split", "split-after-join-mismatch", &out, &want, n >= 1 && clean, &|| mk_case(eng, "join_split", &b()));
            }
        }
    }
}
