//! Independent reference semantics used by C16 (written against the documentation and the
//! property statement, never by calling the filter under test).

use mccore::numref::{cmp_exact, num_of};
use mccore::vals::{K, Kind, V};
use std::cmp::Ordering;

pub fn str_of(v: &V) -> &str {
    match v {
        V::Str(s) | V::Safe(s) => s,
        _ => unreachable!(),
    }
}

/// Reference for `==`: structural on containers, mathematical on numbers, ignores the safe mark.
pub fn ref_eq(a: &V, b: &V) -> bool {
    match (a.kind(), b.kind()) {
        (Kind::Undef, Kind::Undef) | (Kind::None, Kind::None) => true,
        (Kind::Bool, Kind::Bool) => a == b,
        (Kind::Int | Kind::Float, Kind::Int | Kind::Float) => {
            cmp_exact(&num_of(a).unwrap(), &num_of(b).unwrap()) == Ordering::Equal
        }
        (Kind::Str, Kind::Str) => str_of(a) == str_of(b),
        (Kind::Bytes, Kind::Bytes) => a == b,
        (Kind::Arr, Kind::Arr) => {
            let (V::Arr(x), V::Arr(y)) = (a, b) else { unreachable!() };
            x.len() == y.len() && x.iter().zip(y).all(|(p, q)| ref_eq(p, q))
        }
        (Kind::Map, Kind::Map) => {
            let (V::Map(x), V::Map(y)) = (a, b) else { unreachable!() };
            x.len() == y.len()
                && x.iter()
                    .all(|(k, v)| y.iter().any(|(k2, v2)| ref_key_eq(k, k2) && ref_eq(v, v2)))
        }
        _ => false,
    }
}

pub fn ref_key_eq(a: &K, b: &K) -> bool {
    match (a, b) {
        (K::Str(x), K::Str(y)) => x == y,
        (K::Bool(x), K::Bool(y)) => x == y,
        (K::Str(_), _) | (_, K::Str(_)) | (K::Bool(_), _) | (_, K::Bool(_)) => false,
        _ => ref_eq(&a.as_v(), &b.as_v()),
    }
}

/// Reference for "mutually comparable" and the order of comparable values (what `<`, `<=`
/// answer or refuse): numbers by value (NaN equal to NaN, after every number), strings and bytes
/// lexicographically by bytes, false < true, arrays lexicographically element by element (the
/// first pair that is not equal decides, and an incomparable pair there makes the arrays
/// incomparable), maps never (not even with themselves), different kinds never.
pub fn ref_pcmp(a: &V, b: &V) -> Option<Ordering> {
    match (a.kind(), b.kind()) {
        (Kind::Undef, Kind::Undef) | (Kind::None, Kind::None) => Some(Ordering::Equal),
        (Kind::Bool, Kind::Bool) => {
            let (V::Bool(x), V::Bool(y)) = (a, b) else { unreachable!() };
            Some(x.cmp(y))
        }
        (Kind::Int | Kind::Float, Kind::Int | Kind::Float) => {
            Some(cmp_exact(&num_of(a).unwrap(), &num_of(b).unwrap()))
        }
        (Kind::Str, Kind::Str) => Some(str_of(a).as_bytes().cmp(str_of(b).as_bytes())),
        (Kind::Bytes, Kind::Bytes) => {
            let (V::Bytes(x), V::Bytes(y)) = (a, b) else { unreachable!() };
            Some(x.cmp(y))
        }
        (Kind::Arr, Kind::Arr) => {
            let (V::Arr(x), V::Arr(y)) = (a, b) else { unreachable!() };
            for (p, q) in x.iter().zip(y) {
                match ref_pcmp(p, q) {
                    Some(Ordering::Equal) => {}
                    other => return other,
                }
            }
            Some(x.len().cmp(&y.len()))
        }
        _ => None,
    }
}

/// Attribute path lookup (documented forms: `a`, `a.b`, `a.1`): a numeric segment indexes an
/// array, any other segment is a map key; anything else is "missing".
pub fn attr<'a>(v: &'a V, path: &str) -> Option<&'a V> {
    let mut cur = v;
    for seg in path.split('.') {
        let numeric = !seg.is_empty() && seg.bytes().all(|b| b.is_ascii_digit());
        cur = match cur {
            V::Arr(xs) if numeric => xs.get(seg.parse::<usize>().ok()?)?,
            V::Map(kv) if !numeric => kv.iter().find(|(k, _)| matches!(k, K::Str(s) if s == seg)).map(|(_, v)| v)?,
            _ => return None,
        };
    }
    Some(cur)
}

/// Can the value be a map key (what `group_by` can key a group by)? Floats, containers, bytes
/// cannot: the documentation is silent about them, an error is accepted.
pub fn keyable(v: &V) -> bool {
    matches!(v.kind(), Kind::Bool | Kind::Int | Kind::Str)
}

/// Left-to-right, non-overlapping split with a non-empty pattern (a naive scanner).
pub fn naive_split(s: &str, p: &str) -> Vec<String> {
    assert!(!p.is_empty());
    let (sb, pb) = (s.as_bytes(), p.as_bytes());
    let mut out = vec![];
    let (mut i, mut start) = (0usize, 0usize);
    while i + pb.len() <= sb.len() {
        if &sb[i..i + pb.len()] == pb {
            out.push(s[start..i].to_string());
            i += pb.len();
            start = i;
        } else {
            // advance by one character
            i += 1;
            while i < sb.len() && (sb[i] & 0xC0) == 0x80 {
                i += 1;
            }
        }
    }
    out.push(s[start..].to_string());
    out
}

// ------------------------------------------------------------------------------------------
// sort

pub struct SortInput<'a> {
    /// key per input position; `None` = the attribute is missing on that element
    pub keys: Vec<Option<&'a V>>,
    /// key identity per position (same id ⇒ same key value); only used to avoid repeated work
    pub kid: Vec<usize>,
    /// element identity per position: what the projection prints for that element
    pub ident: Vec<usize>,
    /// the engine may legitimately refuse this input for an undocumented reason (attribute looked
    /// up on a `none` element): an `Err` is then never flagged
    pub may_refuse: bool,
}

pub struct SortFacts {
    pub missing: bool,
    pub incomparable: Option<(usize, usize)>,
}

pub fn sort_facts(inp: &SortInput) -> SortFacts {
    let missing = inp.keys.iter().any(|k| k.is_none());
    // distinct keys: (kid, first position, second position if any)
    let mut reps: Vec<(usize, usize, Option<usize>)> = vec![];
    for (p, k) in inp.keys.iter().enumerate() {
        let Some(k) = k else { continue };
        if **k == V::None {
            continue;
        }
        if let Some(r) = reps.iter_mut().find(|r| r.0 == inp.kid[p]) {
            if r.2.is_none() {
                r.2 = Some(p);
            }
        } else {
            reps.push((inp.kid[p], p, None));
        }
    }
    let mut incomparable = None;
    'outer: for (i, a) in reps.iter().enumerate() {
        let ka = inp.keys[a.1].unwrap();
        if let Some(p2) = a.2
            && ref_pcmp(ka, ka).is_none()
        {
            incomparable = Some((a.1, p2));
            break;
        }
        for b in &reps[i + 1..] {
            if ref_pcmp(ka, inp.keys[b.1].unwrap()).is_none() {
                incomparable = Some((a.1.min(b.1), a.1.max(b.1)));
                break 'outer;
            }
        }
    }
    SortFacts { missing, incomparable }
}

pub struct SortOk {
    /// the input has two positions with equal keys and distinguishable elements
    pub stability_observable: bool,
    pub reordered: bool,
}

/// Judges an `Ok` output (as element identities) of an input without missing / incomparable keys.
/// Err((what, message)) is a breach of the statement.
pub fn judge_sorted(inp: &SortInput, obs: &[usize]) -> Result<SortOk, (&'static str, String)> {
    let n = inp.keys.len();
    if obs.len() != n {
        return Err(("sort-permutation", format!("output has {} elements, input has {n}", obs.len())));
    }
    // map every output element to an input position (identical elements: earliest unused one)
    let maxid = inp.ident.iter().chain(obs).copied().max().unwrap_or(0);
    let mut next = vec![0usize; maxid + 1];
    let mut pos = Vec::with_capacity(n);
    for &o in obs {
        let mut p = next[o];
        while p < n && inp.ident[p] != o {
            p += 1;
        }
        if p == n {
            return Err(("sort-permutation", "output is not a permutation of the input (an element appears more often than in the input)".to_string()));
        }
        pos.push(p);
        next[o] = p + 1;
    }
    let key = |i: usize| inp.keys[pos[i]].unwrap();
    // non-decreasing on the keys that are not none (where none keys go is not documented)
    let nn: Vec<usize> = (0..n).filter(|&i| *key(i) != V::None).collect();
    let bad = |i: usize, j: usize| !matches!(ref_pcmp(key(i), key(j)), Some(Ordering::Less | Ordering::Equal));
    if n <= 8 {
        for (a, &i) in nn.iter().enumerate() {
            for &j in &nn[a + 1..] {
                if bad(i, j) {
                    return Err(("sort-order", format!("output positions {i} and {j} hold keys {} and {}: not non-decreasing", key(i).describe(), key(j).describe())));
                }
            }
        }
    } else {
        for w in nn.windows(2) {
            if bad(w[0], w[1]) {
                return Err(("sort-order", format!("output positions {} and {} hold keys {} and {}: not non-decreasing", w[0], w[1], key(w[0]).describe(), key(w[1]).describe())));
            }
        }
    }
    // stability: elements with equal keys keep their input order
    let mut classes: Vec<(&V, usize, usize)> = vec![]; // representative key, last input position, ident of first
    let mut observable = false;
    for i in 0..n {
        let k = key(i);
        if let Some(c) = classes.iter_mut().find(|c| ref_eq(c.0, k)) {
            if pos[i] < c.1 {
                return Err(("sort-unstable", format!("elements with equal keys ({}) left their input order: input position {} is placed after input position {}", k.describe(), pos[i], c.1)));
            }
            c.1 = pos[i];
            if inp.ident[pos[i]] != c.2 {
                observable = true;
            }
        } else {
            classes.push((k, pos[i], inp.ident[pos[i]]));
        }
    }
    Ok(SortOk { stability_observable: observable, reordered: pos.iter().enumerate().any(|(i, p)| i != *p) })
}

// ------------------------------------------------------------------------------------------
// unique

/// Positions of the first occurrence of every `==` class, in order.
pub fn unique_positions(xs: &[&V]) -> Vec<usize> {
    let mut reps: Vec<usize> = vec![];
    for (i, x) in xs.iter().enumerate() {
        if !reps.iter().any(|&r| ref_eq(xs[r], x)) {
            reps.push(i);
        }
    }
    reps
}

// ------------------------------------------------------------------------------------------
// group_by

pub struct GroupFacts {
    pub missing: bool,
    pub none_element: bool,
    pub unkeyable: bool,
    /// (positions of a representative key, member positions in input order)
    pub groups: Vec<(usize, Vec<usize>)>,
}

pub fn group_facts(keys: &[Option<&V>], none_element: bool) -> GroupFacts {
    let mut f = GroupFacts { missing: false, none_element, unkeyable: false, groups: vec![] };
    for (p, k) in keys.iter().enumerate() {
        match k {
            None => f.missing = true,
            Some(k) if **k == V::None => {}
            Some(k) => {
                if !keyable(k) {
                    f.unkeyable = true;
                }
                if let Some(g) = f.groups.iter_mut().find(|g| ref_eq(keys[g.0].unwrap(), k)) {
                    g.1.push(p);
                } else {
                    f.groups.push((p, vec![p]));
                }
            }
        }
    }
    f
}

/// Parses `KEY¦m;m;#KEY¦m;#` into (key token, member tokens).
pub fn parse_groups(s: &str) -> Option<Vec<(String, Vec<String>)>> {
    let mut out = vec![];
    let mut parts: Vec<&str> = s.split('#').collect();
    if parts.pop() != Some("") {
        return None;
    }
    for p in parts {
        let (k, ms) = p.split_once('¦')?;
        let k = k.strip_suffix(';')?;
        let mut m: Vec<&str> = ms.split(';').collect();
        if m.pop() != Some("") {
            return None;
        }
        out.push((k.to_string(), m.into_iter().map(String::from).collect()));
    }
    Some(out)
}

/// Judges an `Ok` group_by output. `member_tok(p)` is the token the projection prints for input
/// position p; `key_tok(p)` the token of the key at position p.
pub fn judge_groups(
    facts: &GroupFacts,
    obs: &[(String, Vec<String>)],
    member_tok: &dyn Fn(usize) -> String,
    key_tok: &dyn Fn(usize) -> String,
) -> Result<(), (&'static str, String)> {
    if obs.len() != facts.groups.len() {
        return Err(("group_by-partition", format!("{} groups, expected {}", obs.len(), facts.groups.len())));
    }
    let mut used = vec![false; obs.len()];
    for (rep, members) in &facts.groups {
        let want: Vec<String> = members.iter().map(|&p| member_tok(p)).collect();
        let labels: Vec<String> = members.iter().map(|&p| key_tok(p)).collect();
        let _ = rep;
        // the observed group with this key label
        let hit = (0..obs.len()).find(|&i| !used[i] && labels.contains(&obs[i].0));
        let Some(i) = hit else {
            return Err(("group_by-key", format!("no group labelled {:?}", labels[0])));
        };
        used[i] = true;
        if obs[i].1 != want {
            let mut a = obs[i].1.clone();
            let mut b = want.clone();
            a.sort();
            b.sort();
            let what = if a == b { "group_by-order" } else { "group_by-partition" };
            return Err((what, format!("group {:?} holds {:?}, expected {:?}", obs[i].0, obs[i].1, want)));
        }
    }
    Ok(())
}
