// Part of main.rs (include!): main.

fn main() {
    let mut run = Run::from_env("C16", "exploration");
    let thorough = run.tier.is_thorough();
    run.rule(
        "One case = one render of one filter program on one input; inputs are enumerated exhaustively per family \
         (all sequences up to the stated length over the stated alphabet, all subsets x lengths x patterns, all maps, \
         all strings x patterns) and are distinct by construction. Non-trivial: sort / unique / group_by / reverse on \
         >= 2 elements; first / last / nth / length / join on >= 1 element (nth: index in range); split / join round \
         trips when the pattern occurs or no element contains the separator; receivers / arguments when the \
         documentation pins the outcome.",
    );
    run.assume("tera built with default features (no `unicode`: string length / reverse by chars; no `preserve_order`: map iteration order unspecified, compared as multisets)");
    run.assume("reference order (refs.rs): numbers by exact value (mccore::numref), strings / bytes by bytes, false < true, arrays lexicographically, maps and different kinds never comparable; the documentation sentence 'arrays are sorted by their length' is NOT used (see run.extra documentation_notes)");
    run.assume("where none keys go in a sorted output, the attribute of a `none` element, group_by on float / container attribute values, negative or non-representable nth indices, split on the empty pattern and `\"\" | split` are not documented: both behaviours accepted");
    run.assume("elements are recognised in outputs by the engine's own print of the element standing alone (kind tag + `{{ x }}`), checked to be injective on every tagged alphabet");

    let eng = Eng::new(programs());
    if eng.label(&V::None).0 != "n" || eng.label(&V::s("q")).0 != "sq" {
        die("labelling templates do not behave as assumed".into());
    }
    let specials = nth_specials();
    let no_specials: Vec<(V, NthWant)> = vec![];

    // ------------------------------------------------------------------ arrays over E
    let e = Alpha::new(&eng, alphabet_e(), "E");
    let len_e = if thorough { 6 } else { 4 };
    run.extra("alphabet_E", e.describe());
    run.family(
        Family::new("arrays", seq_count(e.n(), len_e), &format!("all arrays of length <= {len_e} over E ({} elements) x every filter program (nth: n in -1..=len+1; wrong-kind n on arrays of length <= 2; join separators {SEPS:?})", e.n()))
            .describe(|item| json!({"xs": V::Arr(decode_seq(item, 12, 6).iter().map(|&i| alphabet_e()[i].clone()).collect()).describe()})),
        |item, acc: &mut Acc| {
            let idx = decode_seq(item, e.n(), len_e);
            check_array(&eng, &e, &idx, acc, if idx.len() <= 2 { &specials } else { &no_specials });
            if item == 1500 {
                acc.sample(|| json!({"xs": V::Arr(idx.iter().map(|&i| e.vs[i].clone()).collect()).describe(), "programs": ["sort", "sort_k", "unique", "group_k", "first", "last", "nth", "length", "reverse", "rev2", "join", "join_split", "join_split_join"], "sort": eng.src("sort")}));
            }
        },
    );

    // ------------------------------------------------------------------ arrays over E+
    let w = Alpha::new(&eng, alphabet_wide(), "E+");
    let len_w = if thorough { 4 } else { 3 };
    run.extra("alphabet_E_plus", w.describe());
    run.family(
        Family::new("arrays-wide", seq_count(w.n(), len_w), &format!("all arrays of length <= {len_w} over E+ ({} elements) x every filter program", w.n())),
        |item, acc: &mut Acc| {
            let idx = decode_seq(item, w.n(), len_w);
            check_array(&eng, &w, &idx, acc, if idx.len() <= 1 { &specials } else { &no_specials });
        },
    );

    // ------------------------------------------------------------------ keyed
    let ka = alphabet_keys();
    let ka_tok: Vec<Option<String>> = ka.iter().map(|k| k.as_ref().map(|k| eng.label(k).0)).collect();
    let len_k = if thorough { 6 } else { 4 };
    run.extra("alphabet_KA", json!(ka.iter().map(|k| k.as_ref().map(|k| k.describe()).unwrap_or("<attribute missing>".into())).collect::<Vec<_>>()));
    run.family(
        Family::new(
            "keyed",
            seq_count(ka.len() as u64, len_k),
            &format!("all arrays of length <= {len_k} of maps {{id: position, k, p.k, t.0}} with keys over KA ({} keys incl. missing): sort by k / p.k / t.0 / no attribute, unique, group_by k / p.k; paths {BAD_PATHS:?} on length <= 3", ka.len()),
        ),
        |item, acc: &mut Acc| {
            let idx = decode_seq(item, ka.len() as u64, len_k);
            check_keyed(&eng, &ka, &ka_tok, &idx, acc);
            if item == 700 {
                acc.sample(|| json!({"ws": V::Arr(idx.iter().enumerate().map(|(i, &k)| keyed_element(i, &ka[k])).collect()).describe(), "w_sort_k": eng.src("w_sort_k"), "w_group_k": eng.src("w_group_k")}));
            }
        },
    );

    // ------------------------------------------------------------------ long inputs
    let el = Alpha::new(&eng, alphabet_long(), "EL");
    let sizes: Vec<usize> = if thorough { vec![1, 2, 3, 4, 5] } else { vec![1, 2, 3] };
    let bases = subsets(el.vs.len(), &sizes);
    let dbs: Vec<Vec<usize>> = vec![vec![], de_bruijn(1, 1), de_bruijn(2, 6), de_bruijn(3, 4), de_bruijn(4, 3), de_bruijn(5, 3)];
    let per_base = (LONG_LENGTHS.len() * PATTERNS.len()) as u64;
    run.extra("alphabet_EL", el.describe());
    run.extra("long_lengths", json!(LONG_LENGTHS));
    run.extra("long_patterns", json!(PATTERNS));
    run.family(
        Family::new(
            "long",
            bases.len() as u64 * per_base,
            &format!(
                "every subset of size {sizes:?} of EL ({} elements; {} subsets) x lengths {LONG_LENGTHS:?} x 16 arrangement patterns: sort, sort(attribute) on {{k, id}} wrappers, unique, group_by, reverse twice — exhaustive over this pattern family, not over all arrays of these lengths",
                el.vs.len(),
                bases.len()
            ),
        )
        .describe(|item| {
            let base = &bases[(item / per_base) as usize];
            let r = (item % per_base) as usize;
            json!({"base": base.iter().map(|&i| el.vs[i].describe()).collect::<Vec<_>>(), "length": LONG_LENGTHS[r / PATTERNS.len()], "pattern": PATTERNS[r % PATTERNS.len()]})
        }),
        |item, acc: &mut Acc| {
            let base = &bases[(item / per_base) as usize];
            let r = (item % per_base) as usize;
            check_long(&eng, &el, base, LONG_LENGTHS[r / PATTERNS.len()], r % PATTERNS.len(), &dbs, acc);
            if item == 64 * 40 + 5 {
                acc.sample(|| json!({"base": base.iter().map(|&i| el.vs[i].describe()).collect::<Vec<_>>(), "length": LONG_LENGTHS[r / PATTERNS.len()], "pattern": PATTERNS[r % PATTERNS.len()], "array": long_array(base, LONG_LENGTHS[r / PATTERNS.len()], r % PATTERNS.len(), &dbs)}));
            }
        },
    );

    // ------------------------------------------------------------------ triples of V
    let vsrc: Vec<V> = if thorough { vals::alphabet_v() } else { vals::alphabet_small() };
    let lv = labeled(&eng, vsrc.into_iter().filter(|v| *v != V::Undef).collect());
    let nv = lv.vs.len() as u64;
    run.extra("value_alphabet_size", json!(nv));
    run.family(
        Family::new("triples-v", nv * nv * nv, &format!("every ordered triple of the {} alphabet ({nv} defined values): sort(attribute) on {{k, id}} wrappers, unique, group_by", if thorough { "common value" } else { "small value" })),
        |item, acc: &mut Acc| {
            let idx = [(item / (nv * nv)) as usize, ((item / nv) % nv) as usize, (item % nv) as usize];
            check_triple(&eng, &lv, &idx, acc);
        },
    );

    // ------------------------------------------------------------------ maps
    let ms = map_space(&eng, if thorough { 4 } else { 3 });
    run.extra("map_keys", json!(ms.keys.iter().map(|k| k.describe()).collect::<Vec<_>>()));
    run.extra("map_values", json!(ms.vals.iter().map(|v| v.describe()).collect::<Vec<_>>()));
    run.family(
        Family::new("maps", ms.total, &format!("all maps of <= {} entries (distinct keys out of {}, values out of {}): keys, values, pairs, length, keys | sort, pairs | sort(attribute=\"0\")", if thorough { 4 } else { 3 }, ms.keys.len(), ms.vals.len())),
        |item, acc: &mut Acc| {
            check_map(&eng, &ms, item, acc);
        },
    );

    // ------------------------------------------------------------------ strings
    let len_s = if thorough { 6 } else { 4 };
    run.extra("string_chars", json!(CHARS.iter().map(|c| c.to_string()).collect::<Vec<_>>()));
    run.extra("split_patterns", json!(PATS));
    run.family(
        Family::new("strings", seq_count(CHARS.len() as u64, len_s), &format!("all strings of <= {len_s} characters over {CHARS:?} x patterns {PATS:?}: split, split | join, reverse, reverse twice, length")),
        |item, acc: &mut Acc| {
            let idx = decode_seq(item, CHARS.len() as u64, len_s);
            check_string(&eng, &idx, acc);
        },
    );

    // ------------------------------------------------------------------ receivers / arguments
    let all_v = labeled(&eng, vals::alphabet_v());
    let all_plain: Vec<String> = all_v.vs.iter().map(|v| if *v == V::Undef { String::new() } else { eng.label(v).1 }).collect();
    let args: Vec<V> = vals::alphabet_small();
    let n_recv = all_v.vs.len() as u64;
    run.family(
        Family::new("receivers", n_recv + args.len() as u64, &format!("every value of V ({n_recv}, incl. undefined) as the receiver of {} filter programs; {} argument values x {} keyword arguments", RECEIVER_FILTERS.len(), args.len(), ARG_FILTERS.len())),
        |item, acc: &mut Acc| {
            if item < n_recv {
                check_receiver(&eng, &all_v, &all_plain, item as usize, acc);
            } else {
                check_argument(&eng, &args[(item - n_recv) as usize], acc);
            }
        },
    );

    // ---------------------------------------------------------------- through the host's own filters
    // The collection filters are also reached from user-written filters, through `State::call_filter`
    // - at top level and inside templates that are included, one, two and three levels deep: same
    // answer as the direct application. (Seeded change C16-14 looked the built-in filters up one
    // include level above the callback only.)
    {
        const VIA: [(&str, &str); 12] = [
            ("sort", ""), ("unique", ""), ("reverse", ""), ("first", ""), ("last", ""), ("length", ""),
            ("join", "sep=\"-\""), ("nth", "n=1"), ("sort", "attribute=\"k\""), ("group_by", "attribute=\"k\""), ("keys", ""), ("values", ""),
        ];
        fn via(val: tera::Value, kwargs: tera::Kwargs, state: &tera::State) -> tera::TeraResult<tera::Value> {
            let name = kwargs.must_get::<String>("f")?;
            state.call_filter(&name, &val, kwargs)
        }
        let receivers: Vec<(&str, V)> = vec![
            ("ints", V::Arr(vec![V::I64(3), V::I64(1), V::I64(2), V::I64(1)])),
            ("strings", V::Arr(vec![V::s("b"), V::s("a"), V::s("b")])),
            ("mixed", V::Arr(vec![V::I64(1), V::s("a")])),
            ("keyed", V::Arr(vec![V::map(&[("k", V::I64(2))]), V::map(&[("k", V::I64(1))]), V::map(&[("k", V::I64(2))])])),
            ("map", V::map(&[("b", V::I64(1)), ("a", V::I64(2))])),
            ("empty", V::Arr(vec![])),
        ];
        run.family(
            Family::new(
                "through-host-filters",
                (VIA.len() * 4) as u64,
                &format!("{} collection filter calls issued by a user-registered filter through State::call_filter x include depth 0..=3 x {} receivers: same result (text or refusal) as the direct application", VIA.len(), receivers.len()),
            ),
            |item, acc: &mut Acc| {
                let (name, args) = VIA[item as usize / 4];
                let depth = item as usize % 4;
                let direct = format!("{{{{ x | {name}({args}) }}}}");
                let through = format!("{{{{ x | via(f=\"{name}\"{}{args}) }}}}", if args.is_empty() { "" } else { ", " });
                let mut tpls: Vec<(String, String)> = vec![("d0".into(), direct.clone()), ("v0".into(), through.clone())];
                for k in 1..=depth {
                    tpls.push((format!("d{k}"), format!("{{% include \"d{}\" %}}", k - 1)));
                    tpls.push((format!("v{k}"), format!("{{% include \"v{}\" %}}", k - 1)));
                }
                let mut t = tera::Tera::default();
                t.register_filter("via", via);
                if let Err(e) = t.add_raw_templates(tpls.iter().map(|(n, s)| (n.as_str(), s.as_str()))) {
                    acc.violation("through-host-filters:refused", format!("registration failed: {e}"), || json!({"templates": tpls}));
                    return;
                }
                for (rname, x) in &receivers {
                    let ctx = vals::context(&[("x", x)]);
                    let a = engine::render(&t, &format!("d{depth}"), &ctx);
                    let b = engine::render(&t, &format!("v{depth}"), &ctx);
                    let same = match (&a, &b) {
                        (Out::Ok(p), Out::Ok(q)) => p == q,
                        (Out::Err(..), Out::Err(..)) => true,
                        _ => false,
                    };
                    if !same {
                        acc.violation(
                            format!("through-host-filters:{name}:depth-{depth}"),
                            format!("`{direct}` gives {}, `{through}` (a user filter calling State::call_filter) gives {} at include depth {depth}", a.show(), b.show()),
                            || json!({"templates": tpls, "render": [format!("d{depth}"), format!("v{depth}")], "x": x.describe(), "receiver": rname}),
                        );
                    }
                    acc.case(depth > 0, if a.is_ok() { "same:text" } else { "same:refusal" });
                }
            },
        );
    }

    if run.is_supervisor() {
        let (ok, err) = (run.outcome("arrays", "sort:ok"), run.outcome("arrays", "sort:err"));
        run.guard("sort-both-outcomes", ok > 0 && err > 0, format!("arrays: sort ok={ok} err={err}"));
        let (ok, err) = (run.outcome("keyed", "w_sort_k:ok"), run.outcome("keyed", "w_sort_k:err"));
        run.guard("sort-attribute-both-outcomes", ok > 0 && err > 0, format!("keyed: sort(attribute) ok={ok} err={err}"));
        let (ok, err) = (run.outcome("long", "sort:ok"), run.outcome("long", "sort:err"));
        run.guard("long-sort-both-outcomes", ok > 0 && err > 0, format!("long: sort ok={ok} err={err}"));
        let c = run.counter("sort-ok-stability-observable");
        run.guard("stability-observable", c > 0, format!("{c} accepted sorts had equal keys on distinguishable elements"));
        let c = run.counter("sort-ok-reordered");
        run.guard("sort-reorders", c > 0, format!("{c} accepted sorts changed the order"));
        let c = run.counter("unique-ok-merged-duplicates");
        run.guard("unique-merges", c > 0, format!("{c} unique outputs were shorter than the input"));
        let c = run.counter("group_by-ok-multi-member-group");
        let d = run.counter("group_by-ok-several-groups");
        run.guard("group_by-groups", c > 0 && d > 0, format!("{c} outputs with a group of >= 2 members, {d} with >= 2 groups"));
        let c = run.counter("join-split-roundtrip-clean");
        run.guard("join-split-clean-roundtrips", c > 0, format!("{c} join|split cases where no element contains the separator"));
        let (ok, err) = (run.outcome("maps", "pairs_sorted:ok"), run.outcome("maps", "pairs_sorted:err"));
        run.guard("pairs-sorted-both-outcomes", ok > 0 && err > 0, format!("maps: pairs | sort ok={ok} err={err}"));
    }
    run.extra(
        "documentation_notes",
        json!([
            "docs/content/_index.md (sort): 'arrays are sorted by their length' — the engine (and `<`) orders arrays lexicographically element by element and refuses arrays whose deciding elements are not comparable; the check follows the engine's comparison operators, not that sentence",
            "docs (group_by): 'keys are the values of the attribute stringified' — the engine keeps typed keys and refuses float / container attribute values; not pinned by the check",
            "docs (group_by) 'values with missing attribute ... will be discarded' vs MIGRATION.md 'group_by ... will error if the attribute ends up being undefined': both accepted",
        ]),
    );
    run.finish();
}
