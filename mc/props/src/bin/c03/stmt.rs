//! Statement-level template AST of the harness, its printer, and the exhaustive enumerators of
//! the C03 program families (F1 branch selection, F2 loop bookkeeping, F3 scoping event
//! sequences, F4 captures, F5 jump patching, include-of-extending-template).
//!
//! Self-contained: depends only on `mccore`, `serde_json` and std, so that other checks can
//! reuse it with `#[path = "c03/stmt.rs"] mod stmt;` from `bin/cNN.rs` (or
//! `#[path = "../c03/stmt.rs"]` from `bin/cNN/main.rs`) — C07: residue after every program,
//! C09: optimiser on/off over the same programs. `refinterp.rs` refers to this module as
//! `super::stmt`, so declare both at the crate root.
//!
//! Public API in one place:
//!   * AST: `Expr`, `LoopField`, `Filter`, `Stmt` (Text, Print, If, For, Break, Continue, Set,
//!     SetBlock, FilterSection, Include, Block, Super), `Template` (+ `Template::extending`),
//!     `Program` (templates + entry names), `Bindings` (context, global context, tag)
//!   * printing: `source(&[Stmt])`, `Template::source()`, `Program::sources()`, `Program::json()`
//!   * variants: `Program::with_variants()` adds `via_inc` (the program reached through an
//!     `include`) and `in_blk` (the entry body moved into a block body) next to `main`
//!   * families: `fam::f1_items / f1_decode`, `f2_*`, `f3_*`, `f4_*`, `f5_*`, `incext_*` — each
//!     `*_decode(item, thorough, &mut |group| ...)` calls back once per program with every
//!     context it has to be rendered under (`Group { program, bindings, tag, detail }`); every
//!     entry of `program.entries` is to be rendered under every binding. Item counts depend on
//!     the tier only; decoding is deterministic and allocation-light.
#![allow(dead_code)]

use mccore::vals::{K, V};
use mccore::{Json, json};

// ------------------------------------------------------------------------------------------ AST

#[derive(Clone, Copy, Debug, PartialEq, Eq)]
pub enum LoopField {
    Index,
    Index0,
    First,
    Last,
    Length,
}

impl LoopField {
    pub const ALL: [LoopField; 5] =
        [LoopField::Index, LoopField::Index0, LoopField::First, LoopField::Last, LoopField::Length];
    pub fn name(self) -> &'static str {
        match self {
            LoopField::Index => "index",
            LoopField::Index0 => "index0",
            LoopField::First => "first",
            LoopField::Last => "last",
            LoopField::Length => "length",
        }
    }
}

/// The small expression language the statement families need (conditions, iterables, prints).
#[derive(Clone, Debug, PartialEq)]
pub enum Expr {
    /// `name`
    Var(String),
    /// a literal (the value must have a template literal: `V::literal()`)
    Lit(V),
    /// `e.name`
    Attr(Box<Expr>, String),
    /// `loop.index` ... (only generated lexically inside a `for` body of the same template)
    Loop(LoopField),
    /// `a == b`
    Eq(Box<Expr>, Box<Expr>),
    /// `e | default(value="text")`
    Default(Box<Expr>, String),
}

impl Expr {
    pub fn var(n: &str) -> Expr {
        Expr::Var(n.to_string())
    }
    pub fn attr(e: Expr, n: &str) -> Expr {
        Expr::Attr(Box::new(e), n.to_string())
    }
    pub fn eq(a: Expr, b: Expr) -> Expr {
        Expr::Eq(Box::new(a), Box::new(b))
    }
    pub fn default(e: Expr, text: &str) -> Expr {
        Expr::Default(Box::new(e), text.to_string())
    }
    pub fn int(i: i64) -> Expr {
        Expr::Lit(V::I64(i))
    }
    pub fn str(s: &str) -> Expr {
        Expr::Lit(V::s(s))
    }

    pub fn source(&self) -> String {
        match self {
            Expr::Var(n) => n.clone(),
            Expr::Lit(v) => v.literal().unwrap_or_else(|| panic!("no literal for {}", v.describe())),
            Expr::Attr(e, n) => format!("{}.{n}", e.source()),
            Expr::Loop(f) => format!("loop.{}", f.name()),
            Expr::Eq(a, b) => format!("{} == {}", a.source(), b.source()),
            Expr::Default(e, t) => format!("{} | default(value=\"{t}\")", e.source()),
        }
    }
}

/// Filters usable on set-blocks and filter sections (each has a one-line documented meaning).
#[derive(Clone, Debug, PartialEq)]
pub enum Filter {
    Upper,
    Lower,
    Trim,
    /// `replace(from=.., to=..)`, `from` non-empty
    Replace(String, String),
}

impl Filter {
    pub fn source(&self) -> String {
        match self {
            Filter::Upper => "upper".into(),
            Filter::Lower => "lower".into(),
            Filter::Trim => "trim".into(),
            Filter::Replace(f, t) => format!("replace(from=\"{f}\", to=\"{t}\")"),
        }
    }
}

#[derive(Clone, Debug, PartialEq)]
pub enum Stmt {
    /// literal text (must not contain a delimiter)
    Text(String),
    /// `{{ e }}`
    Print(Expr),
    /// `{% if c0 %}..{% elif c1 %}..{% else %}..{% endif %}`; at least one arm
    If { arms: Vec<(Expr, Vec<Stmt>)>, else_body: Option<Vec<Stmt>> },
    /// `{% for [key,] var in iter %}..{% else %}..{% endfor %}`
    For { key: Option<String>, var: String, iter: Expr, body: Vec<Stmt>, else_body: Option<Vec<Stmt>> },
    Break,
    Continue,
    /// `{% set name = value %}` / `{% set_global name = value %}`
    Set { name: String, value: Expr, global: bool },
    /// `{% set name | f1 | f2 %}..{% endset %}`
    SetBlock { name: String, global: bool, filters: Vec<Filter>, body: Vec<Stmt> },
    /// `{% filter f %}..{% endfilter %}`
    FilterSection { filter: Filter, body: Vec<Stmt> },
    /// `{% include "name" %}`
    Include(String),
    /// `{% block name %}..{% endblock %}`
    Block { name: String, body: Vec<Stmt> },
    /// `{{ super() }}` (inside a block body of a template that extends)
    Super,
}

pub fn text(s: &str) -> Stmt {
    Stmt::Text(s.to_string())
}
pub fn print_var(n: &str) -> Stmt {
    Stmt::Print(Expr::var(n))
}

/// Template source of a statement list.
pub fn source(body: &[Stmt]) -> String {
    let mut s = String::new();
    write_body(body, &mut s);
    s
}

fn write_body(body: &[Stmt], s: &mut String) {
    for st in body {
        write_stmt(st, s);
    }
}

fn write_stmt(st: &Stmt, s: &mut String) {
    match st {
        Stmt::Text(t) => {
            // no character that could form a delimiter together with a neighbouring tag
            assert!(!t.contains(['{', '}', '%', '#']), "generator bug: text {t:?} may form a delimiter");
            s.push_str(t)
        }
        Stmt::Print(e) => {
            s.push_str("{{ ");
            s.push_str(&e.source());
            s.push_str(" }}");
        }
        Stmt::If { arms, else_body } => {
            for (i, (c, b)) in arms.iter().enumerate() {
                s.push_str(if i == 0 { "{% if " } else { "{% elif " });
                s.push_str(&c.source());
                s.push_str(" %}");
                write_body(b, s);
            }
            if let Some(b) = else_body {
                s.push_str("{% else %}");
                write_body(b, s);
            }
            s.push_str("{% endif %}");
        }
        Stmt::For { key, var, iter, body, else_body } => {
            s.push_str("{% for ");
            if let Some(k) = key {
                s.push_str(k);
                s.push_str(", ");
            }
            s.push_str(var);
            s.push_str(" in ");
            s.push_str(&iter.source());
            s.push_str(" %}");
            write_body(body, s);
            if let Some(b) = else_body {
                s.push_str("{% else %}");
                write_body(b, s);
            }
            s.push_str("{% endfor %}");
        }
        Stmt::Break => s.push_str("{% break %}"),
        Stmt::Continue => s.push_str("{% continue %}"),
        Stmt::Set { name, value, global } => {
            s.push_str(if *global { "{% set_global " } else { "{% set " });
            s.push_str(name);
            s.push_str(" = ");
            s.push_str(&value.source());
            s.push_str(" %}");
        }
        Stmt::SetBlock { name, global, filters, body } => {
            s.push_str(if *global { "{% set_global " } else { "{% set " });
            s.push_str(name);
            for f in filters {
                s.push_str(" | ");
                s.push_str(&f.source());
            }
            s.push_str(" %}");
            write_body(body, s);
            s.push_str("{% endset %}");
        }
        Stmt::FilterSection { filter, body } => {
            s.push_str("{% filter ");
            s.push_str(&filter.source());
            s.push_str(" %}");
            write_body(body, s);
            s.push_str("{% endfilter %}");
        }
        Stmt::Include(n) => {
            s.push_str("{% include \"");
            s.push_str(n);
            s.push_str("\" %}");
        }
        Stmt::Block { name, body } => {
            s.push_str("{% block ");
            s.push_str(name);
            s.push_str(" %}");
            write_body(body, s);
            s.push_str("{% endblock %}");
        }
        Stmt::Super => s.push_str("{{ super() }}"),
    }
}

#[derive(Clone, Debug, PartialEq)]
pub struct Template {
    pub name: String,
    pub extends: Option<String>,
    pub body: Vec<Stmt>,
}

impl Template {
    pub fn new(name: &str, body: Vec<Stmt>) -> Template {
        Template { name: name.to_string(), extends: None, body }
    }
    /// The pair (`name` extends `base_name`, base) that renders `pre` `inherited` BODY `post`:
    /// the base is `pre{% block blk %}inherited{% endblock %}post`, the child overrides the block
    /// with `{{ super() }}BODY`.
    pub fn extending(name: &str, base_name: &str, blk: &str, pre: &str, inherited: &str, post: &str, body: Vec<Stmt>) -> [Template; 2] {
        let mut child_body = vec![Stmt::Super];
        child_body.extend(body);
        let mut base = vec![];
        if !pre.is_empty() {
            base.push(text(pre));
        }
        base.push(Stmt::Block {
            name: blk.to_string(),
            body: if inherited.is_empty() { vec![] } else { vec![text(inherited)] },
        });
        if !post.is_empty() {
            base.push(text(post));
        }
        [
            Template {
                name: name.to_string(),
                extends: Some(base_name.to_string()),
                body: vec![Stmt::Block { name: blk.to_string(), body: child_body }],
            },
            Template::new(base_name, base),
        ]
    }
    pub fn source(&self) -> String {
        let mut s = String::new();
        if let Some(p) = &self.extends {
            s.push_str(&format!("{{% extends \"{p}\" %}}"));
        }
        write_body(&self.body, &mut s);
        s
    }
}

/// Template names used by every family. None ends in `.html`/`.htm`/`.xml`: autoescaping is off.
pub const MAIN: &str = "main";
pub const VIA_INC: &str = "via_inc";
pub const IN_BLK: &str = "in_blk";

/// A set of templates and the names to render. `entries[0]` is the program itself; further
/// entries are placements of the same program that must render to the same text.
#[derive(Clone, Debug, PartialEq)]
pub struct Program {
    pub templates: Vec<Template>,
    pub entries: Vec<String>,
}

impl Program {
    pub fn single(body: Vec<Stmt>) -> Program {
        Program { templates: vec![Template::new(MAIN, body)], entries: vec![MAIN.to_string()] }
    }
    pub fn get(&self, name: &str) -> Option<&Template> {
        self.templates.iter().find(|t| t.name == name)
    }
    pub fn main(&self) -> &Template {
        self.get(MAIN).expect("program has a main template")
    }
    /// Adds the two placements of DESIGN §4 C03: the program moved into an included template
    /// (`via_inc` = `{% include "main" %}`) and into a block body (`in_blk` =
    /// `{% block wrap %}<body of main>{% endblock %}`).
    pub fn with_variants(mut self) -> Program {
        let body = self.main().body.clone();
        self.templates.push(Template::new(VIA_INC, vec![Stmt::Include(MAIN.to_string())]));
        self.templates.push(Template::new(IN_BLK, vec![Stmt::Block { name: "wrap".into(), body }]));
        self.entries = vec![MAIN.to_string(), VIA_INC.to_string(), IN_BLK.to_string()];
        self
    }
    /// (name, source) pairs in a fixed order.
    pub fn sources(&self) -> Vec<(String, String)> {
        self.templates.iter().map(|t| (t.name.clone(), t.source())).collect()
    }
    pub fn json(&self) -> Json {
        let mut m = serde_json::Map::new();
        for (n, s) in self.sources() {
            m.insert(n, json!(s));
        }
        Json::Object(m)
    }
}

/// Context and global-context bindings of one render (`V::Undef` = leave unbound).
#[derive(Clone, Debug, PartialEq, Default)]
pub struct Bindings {
    pub ctx: Vec<(String, V)>,
    pub global: Vec<(String, V)>,
    /// coarse class of this binding, used in outcome / signature names
    pub tag: String,
}

impl Bindings {
    pub fn ctx_only(ctx: Vec<(String, V)>, tag: &str) -> Bindings {
        Bindings { ctx, global: vec![], tag: tag.to_string() }
    }
    pub fn json(&self) -> Json {
        let f = |xs: &Vec<(String, V)>| {
            let mut m = serde_json::Map::new();
            for (k, v) in xs {
                m.insert(k.clone(), json!(v.describe()));
            }
            Json::Object(m)
        };
        json!({"context": f(&self.ctx), "global_context": f(&self.global)})
    }
}

/// One unit handed to the callback of a family enumerator.
pub struct Group<'a> {
    pub program: &'a Program,
    pub bindings: &'a [Bindings],
    /// coarse class of the program, used in signature names (a few dozen values per family)
    pub tag: &'a str,
    /// the exact family parameters of the program, for messages
    pub detail: &'a str,
}

// ------------------------------------------------------------------------------------- families

pub mod fam {
    use super::*;

    pub type Emit<'e> = dyn FnMut(Group<'_>) + 'e;

    fn b(s: &str, v: V) -> (String, V) {
        (s.to_string(), v)
    }

    // ============================================================ F1: branch selection
    //
    // `P{% if c0 %}B0{% elif c1 %}B1 ... {% else %}E{% endif %}Q` with 0..=3 elif and optional
    // else. Two spellings of the conditions:
    //   var: the condition is a context variable `cI` bound to every value of COND_VALUES, or the
    //        erroring expression `e.f` (`e` is never bound: one level of undefinedness only);
    //   lit: the condition is written as a literal / name in the template.

    /// Values a condition variable is bound to: truthy and falsy representatives of every kind.
    pub fn cond_values() -> Vec<V> {
        vec![
            // falsy
            V::Undef,
            V::None,
            V::Bool(false),
            V::I64(0),
            V::U64(0),
            V::I128(0),
            V::F64(0.0),
            V::F64(-0.0),
            V::Str(String::new()),
            V::Safe(String::new()),
            V::Bytes(vec![]),
            V::Arr(vec![]),
            V::Map(vec![]),
            // truthy
            V::Bool(true),
            V::I64(1),
            V::I64(-1),
            V::U128(u128::MAX),
            V::F64(1.5),
            V::F64(f64::NAN),
            V::s("a"),
            V::s("0"),
            V::s("false"),
            V::Bytes(vec![0]),
            V::Arr(vec![V::I64(0)]),
            V::Arr(vec![V::Arr(vec![])]),
            V::map(&[("k", V::None)]),
        ]
    }

    /// Conditions written in the template: (source expression, expr). `u` and `e` are never bound.
    pub fn cond_literals() -> Vec<Expr> {
        let mut v: Vec<Expr> = [
            V::None,
            V::Bool(false),
            V::I64(0),
            V::F64(0.0),
            V::Str(String::new()),
            V::Arr(vec![]),
            V::Map(vec![]),
            V::Bool(true),
            V::I64(1),
            V::F64(1.5),
            V::s("a"),
            V::Arr(vec![V::I64(0)]),
            V::map(&[("k", V::I64(1))]),
        ]
        .into_iter()
        .map(Expr::Lit)
        .collect();
        v.push(Expr::var("u")); // undefined: falsy
        v.push(Expr::attr(Expr::var("e"), "f")); // attribute of an undefined variable: error
        v
    }

    fn f1_program(conds: &[Expr], with_else: bool) -> Program {
        let arms: Vec<(Expr, Vec<Stmt>)> =
            conds.iter().enumerate().map(|(i, c)| (c.clone(), vec![text(&format!("B{i}"))])).collect();
        Program::single(vec![
            text("P"),
            Stmt::If { arms, else_body: if with_else { Some(vec![text("E")]) } else { None } },
            text("Q"),
        ])
        .with_variants()
    }

    /// var spelling: an item fixes (#arms, else?, which arms are the erroring spelling, value of c0).
    /// lit spelling: an item fixes (#arms, else?, literal of arm 0).
    pub fn f1_items(_thorough: bool) -> u64 {
        let nv = cond_values().len() as u64;
        let nl = cond_literals().len() as u64;
        let mut n = 0;
        for arms in 1..=4u32 {
            n += 2 * (1u64 << arms) * nv; // var
            n += 2 * nl; // lit
        }
        n
    }

    pub fn f1_decode(item: u64, _thorough: bool, emit: &mut Emit<'_>) {
        let vals = cond_values();
        let lits = cond_literals();
        let (nv, nl) = (vals.len() as u64, lits.len() as u64);
        let mut rest = item;
        for arms in 1..=4usize {
            let n_var = 2 * (1u64 << arms) * nv;
            if rest < n_var {
                let with_else = rest % 2 == 1;
                let r = rest / 2;
                let err_mask = (r % (1u64 << arms)) as usize;
                let v0 = (r / (1u64 << arms)) as usize;
                if err_mask & 1 == 1 && v0 != 0 {
                    return; // arm 0 is the erroring spelling: it has no value dimension
                }
                let conds: Vec<Expr> = (0..arms)
                    .map(|i| {
                        if err_mask >> i & 1 == 1 {
                            Expr::attr(Expr::var("e"), "f")
                        } else {
                            Expr::var(&format!("c{i}"))
                        }
                    })
                    .collect();
                let program = f1_program(&conds, with_else);
                // every assignment of the remaining variable arms
                let var_arms: Vec<usize> = (0..arms).filter(|i| err_mask >> i & 1 == 0).collect();
                let free: Vec<usize> = var_arms.iter().copied().filter(|&i| i != 0).collect();
                let total = (nv as usize).pow(free.len() as u32);
                let mut bindings = Vec::with_capacity(total);
                for code in 0..total {
                    let mut ctx = vec![];
                    if err_mask & 1 == 0 {
                        ctx.push(b("c0", vals[v0].clone()));
                    }
                    let mut c = code;
                    for &i in &free {
                        ctx.push(b(&format!("c{i}"), vals[c % nv as usize].clone()));
                        c /= nv as usize;
                    }
                    bindings.push(Bindings::ctx_only(ctx, "var"));
                }
                emit(Group { program: &program, bindings: &bindings, tag: "var", detail: "" });
                return;
            }
            rest -= n_var;
            let n_lit = 2 * nl;
            if rest < n_lit {
                let with_else = rest % 2 == 1;
                let l0 = (rest / 2) as usize;
                let total = (nl as usize).pow(arms as u32 - 1);
                let one = [Bindings::ctx_only(vec![], "lit")];
                for code in 0..total {
                    let mut conds = vec![lits[l0].clone()];
                    let mut c = code;
                    for _ in 1..arms {
                        conds.push(lits[c % nl as usize].clone());
                        c /= nl as usize;
                    }
                    let program = f1_program(&conds, with_else);
                    emit(Group { program: &program, bindings: &one, tag: "lit", detail: "" });
                }
                return;
            }
            rest -= n_lit;
        }
        panic!("f1 item out of range");
    }

    // ============================================================ F2: loop bookkeeping

    /// When (and whether) the loop body jumps.
    #[derive(Clone, Copy, Debug, PartialEq, Eq)]
    pub enum JumpAt {
        First,
        Second,
        Last,
        Never,
    }
    #[derive(Clone, Copy, Debug, PartialEq, Eq)]
    pub struct LoopCfg {
        pub kv: bool,
        pub with_else: bool,
        /// (is_break, when, before the print?)
        pub jump: Option<(bool, JumpAt, bool)>,
    }

    pub fn loop_cfgs() -> Vec<LoopCfg> {
        let mut v = vec![];
        for kv in [false, true] {
            for with_else in [false, true] {
                v.push(LoopCfg { kv, with_else, jump: None });
                for is_break in [true, false] {
                    for at in [JumpAt::First, JumpAt::Second, JumpAt::Last, JumpAt::Never] {
                        for before in [true, false] {
                            v.push(LoopCfg { kv, with_else, jump: Some((is_break, at, before)) });
                        }
                    }
                }
            }
        }
        v
    }

    /// The iterables (bound to `it` / `it2` in the context), with a class name.
    pub fn iterables() -> Vec<(&'static str, V)> {
        vec![
            ("array", V::Arr(vec![])),
            ("array", V::Arr(vec![V::I64(1)])),
            ("array", V::Arr(vec![V::I64(1), V::I64(2), V::I64(3)])),
            ("array", V::Arr(vec![V::s("ab"), V::s(""), V::s("c")])),
            ("string", V::s("")),
            ("string", V::s("aé")),
            ("string", V::s("e\u{301}😀x")),
            ("map", V::Map(vec![])),
            ("map", V::map(&[("k1", V::s("v1"))])),
            ("map", V::Map(vec![(K::I64(7), V::s("v7"))])),
            ("map2", V::map(&[("k1", V::s("v1")), ("k2", V::s("v2"))])),
            ("bytes", V::Bytes(vec![])),
            ("bytes", V::Bytes(vec![0xff, b'a'])),
            ("non-iterable", V::I64(5)),
            ("non-iterable", V::None),
            ("non-iterable", V::Undef),
        ]
    }

    fn guard(at: JumpAt) -> Expr {
        match at {
            JumpAt::First => Expr::eq(Expr::Loop(LoopField::Index), Expr::int(1)),
            JumpAt::Second => Expr::eq(Expr::Loop(LoopField::Index), Expr::int(2)),
            JumpAt::Last => Expr::Loop(LoopField::Last),
            JumpAt::Never => Expr::eq(Expr::Loop(LoopField::Index), Expr::int(0)),
        }
    }

    /// `tag:{{loop.index}},{{loop.index0}},{{loop.first}},{{loop.last}},{{loop.length}}:{{k}}={{v}};`
    fn loop_print(tag: &str, key: Option<&str>, var: &str) -> Vec<Stmt> {
        let mut v = vec![text(tag)];
        for (i, f) in LoopField::ALL.iter().enumerate() {
            v.push(text(if i == 0 { ":" } else { "," }));
            v.push(Stmt::Print(Expr::Loop(*f)));
        }
        v.push(text(":"));
        if let Some(k) = key {
            v.push(print_var(k));
            v.push(text("="));
        }
        v.push(print_var(var));
        v.push(text(";"));
        v
    }

    /// One loop of the family. `middle` is placed between two prints of `loop.*` (nested loop).
    fn build_loop(cfg: LoopCfg, level: usize, iter: Expr, middle: Option<Vec<Stmt>>) -> Vec<Stmt> {
        build_loop_captured(cfg, level, iter, middle, None)
    }

    /// `capture`: the prints of `loop.*` (and the nested loop between them) sit inside a set block /
    /// filter section that is itself inside the loop body; the jumps stay outside it.
    fn build_loop_captured(cfg: LoopCfg, level: usize, iter: Expr, middle: Option<Vec<Stmt>>, capture: Option<Wrap>) -> Vec<Stmt> {
        let var = format!("x{level}");
        let key = format!("k{level}");
        let keyo = if cfg.kv { Some(key.as_str()) } else { None };
        let mut body = vec![];
        let jump = |is_break: bool, at: JumpAt| Stmt::If {
            arms: vec![(guard(at), vec![if is_break { Stmt::Break } else { Stmt::Continue }])],
            else_body: None,
        };
        if let Some((is_break, at, true)) = cfg.jump {
            body.push(jump(is_break, at));
        }
        let mut prints = loop_print(&format!("p{level}"), keyo, &var);
        if let Some(m) = middle {
            prints.extend(m);
            prints.extend(loop_print(&format!("r{level}"), keyo, &var));
        }
        match capture {
            Some(w) => body.extend(wrap(w, level, prints)),
            None => body.extend(prints),
        }
        if let Some((is_break, at, false)) = cfg.jump {
            body.push(jump(is_break, at));
        }
        let else_body = if cfg.with_else {
            Some(vec![text(&format!("E{level}<")), Stmt::Print(Expr::default(Expr::var(&var), "u")), text(">")])
        } else {
            None
        };
        vec![
            text(&format!("[{level}")),
            Stmt::For { key: if cfg.kv { Some(key.clone()) } else { None }, var: var.clone(), iter, body, else_body },
            // the loop variable is gone after the loop
            text(&format!("{level}<")),
            Stmt::Print(Expr::default(Expr::var(&var), "u")),
            text(">]"),
        ]
    }

    pub fn f2_single(cfg: LoopCfg) -> Vec<Stmt> {
        build_loop(cfg, 1, Expr::var("it"), None)
    }

    /// `inner_over_elem`: the inner loop iterates over the outer element instead of `it2`.
    pub fn f2_nested(outer: LoopCfg, inner: LoopCfg, inner_over_elem: bool) -> Vec<Stmt> {
        let inner_iter = if inner_over_elem { Expr::var("x1") } else { Expr::var("it2") };
        build_loop(outer, 1, Expr::var("it"), Some(build_loop(inner, 2, inner_iter, None)))
    }

    fn jump_tag(c: LoopCfg) -> &'static str {
        match c.jump {
            None => "plain",
            Some((true, ..)) => "break",
            Some((false, ..)) => "continue",
        }
    }

    /// The captures a loop body is put into (family F2, items past the nested pairs).
    pub const F2_CAPTURES: [Wrap; 2] = [Wrap::FilterUpper, Wrap::Set0];

    /// item < #cfgs: single loop; then (outer cfg, inner cfg) pairs; then (cfg, capture, with an
    /// inner loop inside the capture?) - `loop.*` read inside a capture inside the loop body.
    pub fn f2_items(_thorough: bool) -> u64 {
        let n = loop_cfgs().len() as u64;
        n + n * n + n * F2_CAPTURES.len() as u64 * 2 + n
    }

    /// Containers holding an undefined value (only / first / middle / last element): an element of
    /// a container can itself be undefined (`[m.nope]` in a template, `Value::undefined()` through
    /// the API) and is still something to iterate. Seeded change C03-10 derived "did the loop
    /// iterate" from the current element being defined.
    pub fn iterables_with_undefined() -> Vec<(&'static str, V)> {
        vec![
            ("array-undef", V::Arr(vec![V::Undef])),
            ("array-undef", V::Arr(vec![V::I64(1), V::Undef])),
            ("array-undef", V::Arr(vec![V::Undef, V::I64(1)])),
            ("array-undef", V::Arr(vec![V::I64(1), V::Undef, V::I64(3)])),
            ("array-undef", V::Arr(vec![V::Undef, V::I64(2), V::Undef])),
            ("map-undef", V::map(&[("k1", V::Undef)])),
            ("map-undef", V::map(&[("k1", V::s("v1")), ("k2", V::Undef)])),
            ("map-undef", V::map(&[("k1", V::Undef), ("k2", V::s("v2"))])),
        ]
    }

    /// Every bare print of `var` becomes `{{ var | default(value="u") }}`.
    fn soften(stmts: Vec<Stmt>, var: &str) -> Vec<Stmt> {
        stmts
            .into_iter()
            .map(|st| match st {
                Stmt::Print(Expr::Var(n)) if n == var => Stmt::Print(Expr::default(Expr::var(var), "u")),
                Stmt::If { arms, else_body } => Stmt::If {
                    arms: arms.into_iter().map(|(c, b)| (c, soften(b, var))).collect(),
                    else_body: else_body.map(|b| soften(b, var)),
                },
                Stmt::For { key, var: v, iter, body, else_body } => Stmt::For {
                    key,
                    var: v,
                    iter,
                    body: soften(body, var),
                    else_body: else_body.map(|b| soften(b, var)),
                },
                other => other,
            })
            .collect()
    }

    pub fn f2_decode(item: u64, _thorough: bool, emit: &mut Emit<'_>) {
        let cfgs = loop_cfgs();
        let n = cfgs.len() as u64;
        let its = iterables();
        if item < n {
            let cfg = cfgs[item as usize];
            let program = Program::single(f2_single(cfg)).with_variants();
            let bindings: Vec<Bindings> = its
                .iter()
                .map(|(class, v)| Bindings::ctx_only(vec![b("it", v.clone())], class))
                .collect();
            let tag = format!("{}{}", jump_tag(cfg), if cfg.kv { "/kv" } else { "" });
            emit(Group { program: &program, bindings: &bindings, tag: &tag, detail: &format!("{cfg:?}") });
            return;
        }
        if item >= n + n * n + n * F2_CAPTURES.len() as u64 * 2 {
            let cfg = cfgs[(item - (n + n * n + n * F2_CAPTURES.len() as u64 * 2)) as usize];
            let program = Program::single(soften(f2_single(cfg), "x1")).with_variants();
            let bindings: Vec<Bindings> = iterables_with_undefined()
                .iter()
                .map(|(class, v)| Bindings::ctx_only(vec![b("it", v.clone())], class))
                .collect();
            let tag = format!("undefined-elements/{}{}", jump_tag(cfg), if cfg.kv { "/kv" } else { "" });
            emit(Group { program: &program, bindings: &bindings, tag: &tag, detail: &format!("{cfg:?} element printed through default") });
            return;
        }
        if item >= n + n * n {
            let r = item - n - n * n;
            let cfg = cfgs[(r % n) as usize];
            let w = F2_CAPTURES[((r / n) % F2_CAPTURES.len() as u64) as usize];
            let with_inner = r / n / F2_CAPTURES.len() as u64 == 1;
            let plain = LoopCfg { kv: false, with_else: false, jump: None };
            let middle = with_inner.then(|| build_loop(plain, 2, Expr::var("x1"), None));
            let program = Program::single(build_loop_captured(cfg, 1, Expr::var("it"), middle, Some(w))).with_variants();
            let bindings: Vec<Bindings> = its
                .iter()
                .map(|(class, v)| Bindings::ctx_only(vec![b("it", v.clone())], class))
                .collect();
            let tag = format!("in-capture/{}{}{}", jump_tag(cfg), if cfg.kv { "/kv" } else { "" }, if with_inner { "/inner-loop" } else { "" });
            emit(Group { program: &program, bindings: &bindings, tag: &tag, detail: &format!("{cfg:?} prints inside {}", w.name()) });
            return;
        }
        let r = item - n;
        let (outer, inner) = (cfgs[(r / n) as usize], cfgs[(r % n) as usize]);
        let tag = format!("nested/{}-in-{}", jump_tag(inner), jump_tag(outer));
        let detail = format!("outer {outer:?} inner {inner:?}");
        // inner loop over `it2`
        let program = Program::single(f2_nested(outer, inner, false)).with_variants();
        let mut bindings = vec![];
        for (c1, v1) in &its {
            for (c2, v2) in &its {
                bindings.push(Bindings::ctx_only(
                    vec![b("it", v1.clone()), b("it2", v2.clone())],
                    &format!("{c1}/{c2}"),
                ));
            }
        }
        emit(Group { program: &program, bindings: &bindings, tag: &tag, detail: &detail });
        // inner loop over the outer element
        let program = Program::single(f2_nested(outer, inner, true)).with_variants();
        let bindings: Vec<Bindings> = its
            .iter()
            .map(|(class, v)| Bindings::ctx_only(vec![b("it", v.clone())], &format!("{class}/elem")))
            .collect();
        emit(Group { program: &program, bindings: &bindings, tag: &tag, detail: &detail });
    }

    // ============================================================ F3: scoping event sequences

    #[derive(Clone, Copy, Debug, PartialEq, Eq)]
    pub enum Ev {
        Set,
        SetGlobal,
        ForA,
        ForZ,
        IncPrint,
        IncSet,
        IncSetGlobal,
        SetBlock,
        Filter,
        Close,
    }
    pub const EVENTS: [Ev; 10] = [
        Ev::Set,
        Ev::SetGlobal,
        Ev::ForA,
        Ev::ForZ,
        Ev::IncPrint,
        Ev::IncSet,
        Ev::IncSetGlobal,
        Ev::SetBlock,
        Ev::Filter,
        Ev::Close,
    ];
    impl Ev {
        pub fn name(self) -> &'static str {
            match self {
                Ev::Set => "set",
                Ev::SetGlobal => "set_global",
                Ev::ForA => "for-a",
                Ev::ForZ => "for-z",
                Ev::IncPrint => "include-print",
                Ev::IncSet => "include-set",
                Ev::IncSetGlobal => "include-set_global",
                Ev::SetBlock => "set-block",
                Ev::Filter => "filter-section",
                Ev::Close => "close",
            }
        }
        fn opens(self) -> bool {
            matches!(self, Ev::ForA | Ev::ForZ | Ev::SetBlock | Ev::Filter)
        }
    }

    /// Bare `{{ a }}` (errors when undefined) or the documented idiom
    /// `{% if a %}{{ a }}{% else %}u{% endif %}` (every assigned value is a non-empty string).
    #[derive(Clone, Copy, Debug, PartialEq, Eq)]
    pub enum PrintMode {
        Bare,
        IfDefined,
    }

    fn print_a(mode: PrintMode) -> Stmt {
        match mode {
            PrintMode::Bare => print_var("a"),
            PrintMode::IfDefined => Stmt::If {
                arms: vec![(Expr::var("a"), vec![print_var("a")])],
                else_body: Some(vec![text("u")]),
            },
        }
    }

    /// The three fixed children of the family (per print mode): print a / print, `set a`, print /
    /// print, `set_global a`, print. In the if-defined spelling they are plain templates; in the
    /// bare spelling each of them *extends* the base `cb` = `({% block k %}{% endblock %})` and
    /// does its work inside the overridden block (same text).
    pub fn f3_children(mode: PrintMode) -> Vec<Template> {
        let bodies = |mode: PrintMode| {
            [
                ("cp", vec![print_a(mode)]),
                (
                    "cs",
                    vec![
                        print_a(mode),
                        Stmt::Set { name: "a".into(), value: Expr::str("is"), global: false },
                        text("/"),
                        print_var("a"),
                    ],
                ),
                (
                    "cg",
                    vec![
                        print_a(mode),
                        Stmt::Set { name: "a".into(), value: Expr::str("ig"), global: true },
                        text("/"),
                        print_var("a"),
                    ],
                ),
            ]
        };
        let mut out = vec![];
        match mode {
            PrintMode::IfDefined => {
                for (n, body) in bodies(mode) {
                    let mut v = vec![text("(")];
                    v.extend(body);
                    v.push(text(")"));
                    out.push(Template::new(&format!("{n}d"), v));
                }
            }
            PrintMode::Bare => {
                for (n, body) in bodies(mode) {
                    let [child, base] = Template::extending(&format!("{n}b"), "cb", "k", "(", "", ")", body);
                    out.push(child);
                    if n == "cp" {
                        out.push(base);
                    }
                }
            }
        }
        out
    }

    /// Is the sequence well nested (a `close` only when something is open)?
    pub fn f3_valid(seq: &[Ev]) -> bool {
        let mut depth = 0usize;
        for e in seq {
            if e.opens() {
                depth += 1;
            } else if *e == Ev::Close {
                if depth == 0 {
                    return false;
                }
                depth -= 1;
            }
        }
        true
    }

    /// The main template body of a sequence: every event is followed by `<i>:PRINT a;`.
    /// Every assigned value is distinct and lower case: `s<i>` (set), `g<i>` (set_global),
    /// `l<i>a`/`l<i>b` (loop elements), `is`/`ig` (children), context `c`, global context `g`,
    /// `u` = undefined. Constructs still open at the end are closed without a print.
    pub fn f3_body(seq: &[Ev], mode: PrintMode) -> Vec<Stmt> {
        enum Open {
            For(String, usize),
            SetBlock(usize),
            Filter,
        }
        let sfx = if mode == PrintMode::Bare { "b" } else { "d" };
        let mut stack: Vec<(Open, Vec<Stmt>)> = vec![];
        let mut top: Vec<Stmt> = vec![];
        fn close(o: Open, body: Vec<Stmt>, into: &mut Vec<Stmt>) {
            match o {
                Open::For(var, i) => into.push(Stmt::For {
                    key: None,
                    var,
                    iter: Expr::Lit(V::Arr(vec![V::s(&format!("l{i}a")), V::s(&format!("l{i}b"))])),
                    body,
                    else_body: None,
                }),
                Open::SetBlock(i) => {
                    let name = format!("b{i}");
                    into.push(Stmt::SetBlock { name: name.clone(), global: false, filters: vec![], body });
                    into.push(text("<"));
                    into.push(print_var(&name));
                    into.push(text(">"));
                    // the block form also assigns like `set` / `set_global` do: by position, a tiny
                    // block (constant body, so that nothing grows) assigns `a` globally or locally
                    // right where the section closes (seeded change C03-3: `{% set_global a %}…
                    // {% endset %}` inside a loop compiled as a local set)
                    match i % 3 {
                        1 => into.push(Stmt::SetBlock { name: "a".into(), global: true, filters: vec![], body: vec![text(&format!("gb{i}"))] }),
                        2 => into.push(Stmt::SetBlock { name: "a".into(), global: false, filters: vec![], body: vec![text(&format!("sb{i}"))] }),
                        _ => {}
                    }
                }
                Open::Filter => into.push(Stmt::FilterSection { filter: Filter::Upper, body }),
            }
        }
        for (i, ev) in seq.iter().enumerate() {
            {
                let cur = stack.last_mut().map(|s| &mut s.1).unwrap_or(&mut top);
                match ev {
                    Ev::Set => cur.push(Stmt::Set { name: "a".into(), value: Expr::str(&format!("s{i}")), global: false }),
                    Ev::SetGlobal => {
                        cur.push(Stmt::Set { name: "a".into(), value: Expr::str(&format!("g{i}")), global: true })
                    }
                    Ev::IncPrint => cur.push(Stmt::Include(format!("cp{sfx}"))),
                    Ev::IncSet => cur.push(Stmt::Include(format!("cs{sfx}"))),
                    Ev::IncSetGlobal => cur.push(Stmt::Include(format!("cg{sfx}"))),
                    _ => {}
                }
            }
            match ev {
                Ev::ForA => stack.push((Open::For("a".into(), i), vec![])),
                Ev::ForZ => stack.push((Open::For("z".into(), i), vec![])),
                Ev::SetBlock => stack.push((Open::SetBlock(i), vec![])),
                Ev::Filter => stack.push((Open::Filter, vec![])),
                Ev::Close => {
                    let (o, body) = stack.pop().expect("well nested");
                    let cur = stack.last_mut().map(|s| &mut s.1).unwrap_or(&mut top);
                    close(o, body, cur);
                }
                _ => {}
            }
            let cur = stack.last_mut().map(|s| &mut s.1).unwrap_or(&mut top);
            cur.push(text(&format!("{i}:")));
            cur.push(print_a(mode));
            cur.push(text(";"));
        }
        while let Some((o, body)) = stack.pop() {
            let cur = stack.last_mut().map(|s| &mut s.1).unwrap_or(&mut top);
            close(o, body, cur);
        }
        top
    }

    /// `placements`: also `via_inc` and `in_blk`.
    pub fn f3_program(seq: &[Ev], mode: PrintMode, placements: bool) -> Program {
        let mut p = Program::single(f3_body(seq, mode));
        if placements {
            p = p.with_variants();
        }
        p.templates.extend(f3_children(mode));
        p
    }

    /// The four (context, global context) configurations.
    pub fn f3_bindings() -> Vec<Bindings> {
        let mut v = vec![];
        for (c, g) in [(false, false), (true, false), (false, true), (true, true)] {
            v.push(Bindings {
                ctx: if c { vec![b("a", V::s("c"))] } else { vec![] },
                global: if g { vec![b("a", V::s("g"))] } else { vec![] },
                tag: format!("ctx={}/global={}", c as u8, g as u8),
            });
        }
        v
    }

    pub fn f3_max_len(thorough: bool) -> usize {
        if thorough { 7 } else { 6 }
    }
    fn f3_prefix_len(thorough: bool) -> usize {
        if thorough { 4 } else { 3 }
    }

    /// Items are all digit strings of length 0..=P over the 10 events (ill-nested ones are empty
    /// items). An item of length < P is that sequence alone; an item of length P stands for the
    /// sequence and all its well-nested extensions up to the maximum length.
    pub fn f3_items(thorough: bool) -> u64 {
        let p = f3_prefix_len(thorough);
        (0..=p as u32).map(|k| 10u64.pow(k)).sum()
    }

    pub fn f3_prefix(item: u64, thorough: bool) -> Vec<Ev> {
        let p = f3_prefix_len(thorough);
        let mut rest = item;
        for k in 0..=p as u32 {
            let n = 10u64.pow(k);
            if rest < n {
                let mut seq = vec![];
                let mut r = rest;
                for _ in 0..k {
                    seq.push(EVENTS[(r % 10) as usize]);
                    r /= 10;
                }
                seq.reverse();
                return seq;
            }
            rest -= n;
        }
        panic!("f3 item out of range");
    }

    /// Calls `f` with every sequence of the item (both print modes are the caller's business).
    pub fn f3_sequences(item: u64, thorough: bool, f: &mut dyn FnMut(&[Ev])) {
        let prefix = f3_prefix(item, thorough);
        if !f3_valid(&prefix) {
            return;
        }
        let max = f3_max_len(thorough);
        if prefix.len() < f3_prefix_len(thorough) {
            f(&prefix);
            return;
        }
        fn rec(seq: &mut Vec<Ev>, depth: usize, max: usize, f: &mut dyn FnMut(&[Ev])) {
            f(seq);
            if seq.len() == max {
                return;
            }
            for e in EVENTS {
                let d = if e.opens() {
                    depth + 1
                } else if e == Ev::Close {
                    if depth == 0 {
                        continue;
                    }
                    depth - 1
                } else {
                    depth
                };
                seq.push(e);
                rec(seq, d, max, f);
                seq.pop();
            }
        }
        let depth = prefix.iter().fold(0usize, |d, e| {
            if e.opens() {
                d + 1
            } else if *e == Ev::Close {
                d - 1
            } else {
                d
            }
        });
        let mut seq = prefix;
        rec(&mut seq, depth, max, f);
    }

    /// Both print spellings of every sequence; the placements (`via_inc`, `in_blk`) for every
    /// sequence shorter than the maximum length of the tier.
    pub fn f3_decode(item: u64, thorough: bool, emit: &mut Emit<'_>) {
        let bindings = f3_bindings();
        let max = f3_max_len(thorough);
        f3_sequences(item, thorough, &mut |seq| {
            for mode in [PrintMode::IfDefined, PrintMode::Bare] {
                let program = f3_program(seq, mode, seq.len() < max);
                let tag = if mode == PrintMode::Bare { "bare" } else { "if-defined" };
                let detail = seq.iter().map(|e| e.name()).collect::<Vec<_>>().join(", ");
                emit(Group { program: &program, bindings: &bindings, tag, detail: &detail });
            }
        });
    }

    // ============================================================ F4: captures

    /// The capture wrappers. `level` names the capture variable.
    #[derive(Clone, Copy, Debug, PartialEq, Eq)]
    pub enum Wrap {
        Set0,
        SetUpper,
        SetTrimReplace,
        FilterUpper,
        FilterReplace,
    }
    pub const WRAPS: [Wrap; 5] =
        [Wrap::Set0, Wrap::SetUpper, Wrap::SetTrimReplace, Wrap::FilterUpper, Wrap::FilterReplace];
    impl Wrap {
        pub fn name(self) -> &'static str {
            match self {
                Wrap::Set0 => "set",
                Wrap::SetUpper => "set|upper",
                Wrap::SetTrimReplace => "set|trim|replace",
                Wrap::FilterUpper => "filter-upper",
                Wrap::FilterReplace => "filter-replace",
            }
        }
    }

    /// ` w<level>( BODY )w<level> ` captured / filtered, then (for set-blocks) printed.
    pub fn wrap(w: Wrap, level: usize, body: Vec<Stmt>) -> Vec<Stmt> {
        let mut inner = vec![text(&format!(" w{level}("))];
        inner.extend(body);
        inner.push(text(&format!(")w{level} ")));
        let name = format!("v{level}");
        let set = |filters: Vec<Filter>, inner: Vec<Stmt>| {
            vec![
                Stmt::SetBlock { name: name.clone(), global: false, filters, body: inner },
                text("<"),
                print_var(&name),
                text(">"),
            ]
        };
        match w {
            Wrap::Set0 => set(vec![], inner),
            Wrap::SetUpper => set(vec![Filter::Upper], inner),
            Wrap::SetTrimReplace => set(vec![Filter::Trim, Filter::Replace("1".into(), "one".into())], inner),
            Wrap::FilterUpper => vec![Stmt::FilterSection { filter: Filter::Upper, body: inner }],
            Wrap::FilterReplace => {
                vec![Stmt::FilterSection { filter: Filter::Replace(",".into(), "~".into()), body: inner }]
            }
        }
    }

    pub fn f4_max_depth(thorough: bool) -> usize {
        if thorough { 4 } else { 3 }
    }

    /// All wrapper stacks of depth 1..=max (outermost first).
    pub fn wrap_stacks(max: usize) -> Vec<Vec<Wrap>> {
        let mut all = vec![];
        let mut cur: Vec<Vec<Wrap>> = vec![vec![]];
        for _ in 0..max {
            let mut next = vec![];
            for s in &cur {
                for w in WRAPS {
                    let mut t = s.clone();
                    t.push(w);
                    next.push(t);
                }
            }
            all.extend(next.iter().cloned());
            cur = next;
        }
        all
    }

    /// The bodies that get captured: (statements, contexts, tag).
    pub fn f4_bodies() -> Vec<(Vec<Stmt>, Vec<Bindings>, String)> {
        let mut out = vec![];
        // F1, variable spelling, conditions from {true, false, unbound} and the erroring spelling
        let small = [V::Bool(true), V::Bool(false), V::Undef];
        for arms in 1..=3usize {
            for with_else in [false, true] {
                for err_mask in 0..(1usize << arms) {
                    let conds: Vec<Expr> = (0..arms)
                        .map(|i| {
                            if err_mask >> i & 1 == 1 {
                                Expr::attr(Expr::var("e"), "f")
                            } else {
                                Expr::var(&format!("c{i}"))
                            }
                        })
                        .collect();
                    let body = f1_program(&conds, with_else).main().body.clone();
                    let free: Vec<usize> = (0..arms).filter(|i| err_mask >> i & 1 == 0).collect();
                    let total = small.len().pow(free.len() as u32);
                    let mut bindings = vec![];
                    for code in 0..total {
                        let mut c = code;
                        let mut ctx = vec![];
                        for &i in &free {
                            ctx.push(b(&format!("c{i}"), small[c % small.len()].clone()));
                            c /= small.len();
                        }
                        bindings.push(Bindings::ctx_only(ctx, "if"));
                    }
                    out.push((body, bindings, "if".to_string()));
                }
            }
        }
        // F2, every single-loop configuration over every iterable
        let its = iterables();
        for cfg in loop_cfgs() {
            let bindings: Vec<Bindings> =
                its.iter().map(|(class, v)| Bindings::ctx_only(vec![b("it", v.clone())], class)).collect();
            out.push((f2_single(cfg), bindings, format!("for/{}", jump_tag(cfg))));
        }
        // F2 nested, a cross of three jump configurations
        let picks = [
            LoopCfg { kv: false, with_else: true, jump: None },
            LoopCfg { kv: false, with_else: true, jump: Some((true, JumpAt::Second, false)) },
            LoopCfg { kv: false, with_else: true, jump: Some((false, JumpAt::First, true)) },
        ];
        let outer_its = [0usize, 2, 3, 5];
        let inner_its = [0usize, 2, 5, 10];
        for o in picks {
            for i in picks {
                let mut bindings = vec![];
                for &a in &outer_its {
                    for &c in &inner_its {
                        bindings.push(Bindings::ctx_only(
                            vec![b("it", its[a].1.clone()), b("it2", its[c].1.clone())],
                            &format!("{}/{}", its[a].0, its[c].0),
                        ));
                    }
                }
                out.push((f2_nested(o, i, false), bindings, format!("nested/{}-in-{}", jump_tag(i), jump_tag(o))));
                let bindings: Vec<Bindings> = outer_its
                    .iter()
                    .map(|&a| Bindings::ctx_only(vec![b("it", its[a].1.clone())], &format!("{}/elem", its[a].0)))
                    .collect();
                out.push((f2_nested(o, i, true), bindings, format!("nested/{}-in-{}", jump_tag(i), jump_tag(o))));
            }
        }
        out
    }

    /// Items: (wrapper stack, inside a loop?, body inline / through an include / through an
    /// include of a template that extends and holds the body in an overridden block).
    pub fn f4_items(thorough: bool) -> u64 {
        wrap_stacks(f4_max_depth(thorough)).len() as u64 * 6
    }

    pub fn f4_decode(item: u64, thorough: bool, emit: &mut Emit<'_>) {
        let stacks = wrap_stacks(f4_max_depth(thorough));
        let stack = &stacks[(item / 6) as usize];
        let in_loop = item % 2 == 1;
        let placement = item / 2 % 3;
        for (body, bindings, btag) in f4_bodies() {
            let mut templates = vec![];
            let mut cur = match placement {
                0 => body,
                1 => {
                    templates.push(Template::new("body", body));
                    vec![Stmt::Include("body".into())]
                }
                _ => {
                    templates.extend(Template::extending("body", "bodyb", "k", "e(", "i", ")e", body));
                    vec![Stmt::Include("body".into())]
                }
            };
            for (d, w) in stack.iter().enumerate().rev() {
                cur = wrap(*w, d + 1, cur);
            }
            if in_loop {
                cur = vec![
                    text("L["),
                    Stmt::For {
                        key: None,
                        var: "q".into(),
                        iter: Expr::Lit(V::Arr(vec![V::I64(1), V::I64(2)])),
                        body: {
                            let mut v = vec![print_var("q"), text("|")];
                            v.extend(cur);
                            v
                        },
                        else_body: None,
                    },
                    text("]"),
                ];
            }
            let mut program = Program::single(cur).with_variants();
            program.templates.extend(templates);
            let place = ["inline", "include", "include-extending"][placement as usize];
            let tag = format!("{}@{place}", stack[0].name());
            let detail = format!(
                "wrappers {} / body {btag} {place}{}",
                stack.iter().map(|w| w.name()).collect::<Vec<_>>().join(" > "),
                if in_loop { " / inside a loop" } else { "" }
            );
            emit(Group { program: &program, bindings: &bindings, tag: &tag, detail: &detail });
        }
    }

    // ============================================================ F5: jump patching

    /// A construct with the position its single child goes to.
    #[derive(Clone, Copy, Debug, PartialEq, Eq)]
    pub enum Con {
        If,
        IfElseThen,
        IfElseElse,
        IfElifElse0,
        IfElifElse1,
        IfElifElse2,
        For,
        ForElseBody,
        ForElseElse,
        SetBlock,
        Filter,
        Include,
        /// include of a template that extends a base and holds the child in an overridden block
        IncludeExt,
    }
    pub const CONS: [Con; 13] = [
        Con::If,
        Con::IfElseThen,
        Con::IfElseElse,
        Con::IfElifElse0,
        Con::IfElifElse1,
        Con::IfElifElse2,
        Con::For,
        Con::ForElseBody,
        Con::ForElseElse,
        Con::SetBlock,
        Con::Filter,
        Con::Include,
        Con::IncludeExt,
    ];
    impl Con {
        pub fn name(self) -> &'static str {
            match self {
                Con::If => "if",
                Con::IfElseThen => "if-else/then",
                Con::IfElseElse => "if-else/else",
                Con::IfElifElse0 => "if-elif-else/if",
                Con::IfElifElse1 => "if-elif-else/elif",
                Con::IfElifElse2 => "if-elif-else/else",
                Con::For => "for",
                Con::ForElseBody => "for-else/body",
                Con::ForElseElse => "for-else/else",
                Con::SetBlock => "set-block",
                Con::Filter => "filter-section",
                Con::Include => "include",
                Con::IncludeExt => "include-extending",
            }
        }
        /// The context variables of the construct at `level` and their alternatives.
        fn params(self, level: usize) -> Vec<(String, Vec<V>)> {
            let tf = vec![V::Bool(true), V::Bool(false)];
            let lists = vec![V::Arr(vec![]), V::Arr(vec![V::I64(1)]), V::Arr(vec![V::I64(1), V::I64(2)])];
            match self {
                Con::If | Con::IfElseThen | Con::IfElseElse => vec![(format!("c{level}"), tf)],
                Con::IfElifElse0 | Con::IfElifElse1 | Con::IfElifElse2 => {
                    vec![(format!("c{level}"), tf.clone()), (format!("d{level}"), tf)]
                }
                Con::For | Con::ForElseBody | Con::ForElseElse => vec![(format!("l{level}"), lists)],
                Con::SetBlock | Con::Filter | Con::Include | Con::IncludeExt => vec![],
            }
        }
    }

    #[derive(Clone, Copy, Debug, PartialEq, Eq)]
    pub enum Leaf {
        None,
        Break,
        Continue,
    }
    pub const LEAVES: [Leaf; 3] = [Leaf::None, Leaf::Break, Leaf::Continue];

    pub fn f5_max_depth(thorough: bool) -> usize {
        if thorough { 4 } else { 3 }
    }

    pub fn f5_chains(max: usize) -> Vec<Vec<Con>> {
        let mut all = vec![];
        let mut cur: Vec<Vec<Con>> = vec![vec![]];
        for _ in 0..max {
            let mut next = vec![];
            for s in &cur {
                for c in CONS {
                    let mut t = s.clone();
                    t.push(c);
                    next.push(t);
                }
            }
            all.extend(next.iter().cloned());
            cur = next;
        }
        all
    }

    /// Builds the templates of a chain: markers `b<d>` before, `f<d><j>` first in body j,
    /// `l<d><j>` last in body j, `a<d>` after; loop bodies also print the element.
    pub fn f5_program(chain: &[Con], leaf: Leaf) -> Program {
        fn build(chain: &[Con], level: usize, leaf: Leaf, extra: &mut Vec<Template>) -> Vec<Stmt> {
            let Some((&c, rest)) = chain.split_first() else {
                return match leaf {
                    Leaf::None => vec![text("*")],
                    Leaf::Break | Leaf::Continue => vec![
                        text("*"),
                        Stmt::If {
                            arms: vec![(
                                Expr::eq(Expr::Loop(LoopField::Index), Expr::var("gj")),
                                vec![if leaf == Leaf::Break { Stmt::Break } else { Stmt::Continue }],
                            )],
                            else_body: None,
                        },
                        text("+"),
                    ],
                };
            };
            let d = level;
            let child = build(rest, level + 1, leaf, extra);
            let body = |j: usize, with_child: bool, elem: Option<&str>, child: &Vec<Stmt>| {
                let mut v = vec![text(&format!("f{d}{j}"))];
                if let Some(x) = elem {
                    v.push(text("["));
                    v.push(print_var(x));
                    v.push(text("]"));
                }
                if with_child {
                    v.extend(child.iter().cloned());
                }
                v.push(text(&format!("l{d}{j}")));
                v
            };
            let cvar = Expr::var(&format!("c{d}"));
            let dvar = Expr::var(&format!("d{d}"));
            let x = format!("x{d}");
            let mut out = vec![text(&format!("b{d}"))];
            match c {
                Con::If => out.push(Stmt::If { arms: vec![(cvar, body(0, true, None, &child))], else_body: None }),
                Con::IfElseThen | Con::IfElseElse => out.push(Stmt::If {
                    arms: vec![(cvar, body(0, c == Con::IfElseThen, None, &child))],
                    else_body: Some(body(1, c == Con::IfElseElse, None, &child)),
                }),
                Con::IfElifElse0 | Con::IfElifElse1 | Con::IfElifElse2 => out.push(Stmt::If {
                    arms: vec![
                        (cvar, body(0, c == Con::IfElifElse0, None, &child)),
                        (dvar, body(1, c == Con::IfElifElse1, None, &child)),
                    ],
                    else_body: Some(body(2, c == Con::IfElifElse2, None, &child)),
                }),
                Con::For => out.push(Stmt::For {
                    key: None,
                    var: x.clone(),
                    iter: Expr::var(&format!("l{d}")),
                    body: body(0, true, Some(&x), &child),
                    else_body: None,
                }),
                Con::ForElseBody | Con::ForElseElse => out.push(Stmt::For {
                    key: None,
                    var: x.clone(),
                    iter: Expr::var(&format!("l{d}")),
                    body: body(0, c == Con::ForElseBody, Some(&x), &child),
                    else_body: Some(body(1, c == Con::ForElseElse, None, &child)),
                }),
                Con::SetBlock => {
                    let name = format!("v{d}");
                    out.push(Stmt::SetBlock {
                        name: name.clone(),
                        global: false,
                        filters: vec![],
                        body: body(0, true, None, &child),
                    });
                    out.push(text("<"));
                    out.push(print_var(&name));
                    out.push(text(">"));
                }
                Con::Filter => {
                    out.push(Stmt::FilterSection { filter: Filter::Upper, body: body(0, true, None, &child) })
                }
                Con::Include => {
                    let name = format!("t{d}");
                    extra.push(Template::new(&name, body(0, true, None, &child)));
                    out.push(Stmt::Include(name));
                }
                Con::IncludeExt => {
                    let name = format!("t{d}");
                    extra.extend(Template::extending(
                        &name,
                        &format!("tb{d}"),
                        &format!("k{d}"),
                        &format!("y{d}"),
                        &format!("i{d}"),
                        &format!("z{d}"),
                        body(0, true, None, &child),
                    ));
                    out.push(Stmt::Include(name));
                }
            }
            out.push(text(&format!("a{d}")));
            out
        }
        let mut extra = vec![];
        let main = build(chain, 1, leaf, &mut extra);
        let mut p = Program::single(main).with_variants();
        p.templates.extend(extra);
        p
    }

    /// Every assignment of the chain's condition / list variables (and `gj` for a jump leaf).
    pub fn f5_bindings(chain: &[Con], leaf: Leaf) -> Vec<Bindings> {
        let mut params: Vec<(String, Vec<V>)> = vec![];
        for (i, c) in chain.iter().enumerate() {
            params.extend(c.params(i + 1));
        }
        if leaf != Leaf::None {
            params.push(("gj".into(), vec![V::I64(0), V::I64(1), V::I64(2)]));
        }
        let total: usize = params.iter().map(|p| p.1.len()).product();
        let mut out = Vec::with_capacity(total);
        for code in 0..total {
            let mut c = code;
            let mut ctx = vec![];
            for (name, alts) in &params {
                ctx.push((name.clone(), alts[c % alts.len()].clone()));
                c /= alts.len();
            }
            out.push(Bindings::ctx_only(ctx, ""));
        }
        out
    }

    pub fn f5_items(thorough: bool) -> u64 {
        let max = f5_max_depth(thorough) as u32;
        (1..=max).map(|k| (CONS.len() as u64).pow(k)).sum()
    }

    pub fn f5_chain(item: u64, thorough: bool) -> Vec<Con> {
        let max = f5_max_depth(thorough) as u32;
        let mut rest = item;
        let nc = CONS.len() as u64;
        for k in 1..=max {
            let n = nc.pow(k);
            if rest < n {
                let mut chain = vec![];
                let mut r = rest;
                for _ in 0..k {
                    chain.push(CONS[(r % nc) as usize]);
                    r /= nc;
                }
                chain.reverse();
                return chain;
            }
            rest -= n;
        }
        panic!("f5 item out of range");
    }

    pub fn f5_decode(item: u64, thorough: bool, emit: &mut Emit<'_>) {
        let chain = f5_chain(item, thorough);
        let names = chain.iter().map(|c| c.name()).collect::<Vec<_>>().join(">");
        for leaf in LEAVES {
            let program = f5_program(&chain, leaf);
            let bindings = f5_bindings(&chain, leaf);
            let leaf_name = match leaf {
                Leaf::None => "no-jump",
                Leaf::Break => "break",
                Leaf::Continue => "continue",
            };
            let tag = format!("{}>{leaf_name}", chain.last().unwrap().name());
            let detail = format!("{names} > {leaf_name}");
            emit(Group { program: &program, bindings: &bindings, tag: &tag, detail: &detail });
        }
    }

    // ============================================================ include of an extending template
    //
    // `{% include "c" %}` where `c` has a parent: include renders the template, i.e. what
    // rendering `c` directly gives, against the includer's current variables, leaking nothing.
    // (Before the repair b2aa72a the engine rendered only the child's own top-level nodes; the
    // check keeps the signature `include-of-extending-template-renders-only-own-nodes` for that.)

    const INCEXT_MAINS: u64 = 5;
    const INCEXT_CHILDREN: u64 = 7;
    const INCEXT_BASES: u64 = 2;

    pub fn incext_items(_thorough: bool) -> u64 {
        INCEXT_MAINS * INCEXT_CHILDREN * INCEXT_BASES
    }

    pub fn incext_decode(item: u64, _thorough: bool, emit: &mut Emit<'_>) {
        let m = item % INCEXT_MAINS;
        let c = item / INCEXT_MAINS % INCEXT_CHILDREN;
        let bs = item / (INCEXT_MAINS * INCEXT_CHILDREN);
        let pa = || Stmt::Print(Expr::default(Expr::var("a"), "u"));
        let blk = |n: &str, body: Vec<Stmt>| Stmt::Block { name: n.into(), body };
        let base = match bs {
            0 => vec![text("["), blk("x", vec![text("base")]), text("]")],
            _ => vec![text("["), blk("x", vec![text("base")]), text("|"), blk("y", vec![text("y:"), pa()]), text("]")],
        };
        let set = |v: &str, global: bool| Stmt::Set { name: "a".into(), value: Expr::str(v), global };
        let mut templates = vec![];
        let child = |body: Vec<Stmt>, parent: &str| Template { name: "c".into(), extends: Some(parent.into()), body };
        match c {
            0 => templates.push(child(vec![blk("x", vec![text("child")])], "b")),
            1 => templates.push(child(vec![], "b")),
            2 => templates.push(child(vec![blk("x", vec![text("child:"), pa()])], "b")),
            3 => templates.push(child(vec![blk("x", vec![text("<"), Stmt::Super, text(">child")])], "b")),
            4 => templates.push(child(vec![blk("x", vec![pa(), set("cs", false), text("/"), pa()])], "b")),
            5 => templates.push(child(vec![blk("x", vec![pa(), set("cg", true), text("/"), pa()])], "b")),
            _ => {
                // three levels: c extends m extends b, both overriding x around super()
                templates.push(child(vec![blk("x", vec![text("top("), Stmt::Super, text(")"), pa()])], "m"));
                templates.push(Template {
                    name: "m".into(),
                    extends: Some("b".into()),
                    body: vec![blk("x", vec![text("mid("), Stmt::Super, text(")")])],
                });
            }
        }
        templates.push(Template::new("b", base));
        let inc = Stmt::Include("c".into());
        let main = match m {
            0 => vec![text("A"), set("s", false), inc, text("B:"), pa()],
            1 => vec![
                Stmt::For {
                    key: None,
                    var: "a".into(),
                    iter: Expr::Lit(V::Arr(vec![V::s("l1"), V::s("l2")])),
                    body: vec![inc, text(";"), pa(), text(";")],
                    else_body: None,
                },
                pa(),
            ],
            2 => vec![
                Stmt::SetBlock { name: "v".into(), global: false, filters: vec![], body: vec![text("("), inc, text(")")] },
                text("<"),
                print_var("v"),
                text(">"),
                pa(),
            ],
            3 => vec![Stmt::FilterSection { filter: Filter::Upper, body: vec![text("("), inc, text(")")] }, pa()],
            _ => vec![text("A"), inc, text("B:"), pa()],
        };
        let mut program = Program::single(main).with_variants();
        program.templates.extend(templates);
        // rendering `c` directly is the control: it must give the inherited text too
        program.entries.push("c".to_string());
        let bindings = f3_bindings();
        let detail = format!("includer {m} / child {c} / base {bs}");
        emit(Group { program: &program, bindings: &bindings, tag: "include-extends", detail: &detail });
    }
}
