//! C03 — control flow, variable scoping, captures and includes behave as documented.
//!
//! Five focused program families, each enumerated completely (generators in `stmt.rs`), every
//! program rendered by the real engine (`Tera::add_raw_templates` + `Tera::render`) and compared
//! with the reference interpreter of `refinterp.rs`, which implements the property statement and
//! the documentation only:
//!   F1 branch   if / 0..3 elif / optional else, every condition from 26 values + the erroring
//!               spelling (variable spelling) and from 15 literal spellings
//!   F2 loop     68 loop configurations (k,v / else / guarded break|continue at 1, 2, last, never,
//!               before|after the print) over 16 iterables, alone and nested once (inner loop over
//!               a second iterable or over the outer element)
//!   F3 scope    all well-nested sequences of <= 6 (thorough 7) scoping events, each followed by
//!               PRINT a, under the four (context, global context) configurations, two print
//!               spellings
//!   F4 capture  F1/F2 programs inside every stack of <= 3 (thorough 4) capture wrappers, inside a
//!               loop or not, written inline or reached through an include (of a plain or of an
//!               extending template) inside the capture
//!   F5 jump     every chain of <= 3 (thorough 4) constructs with markers around every body, with
//!               and without a guarded break / continue leaf, every condition / list assignment
//!   incext      include of a template that extends = what rendering that template gives, in the
//!               includer's scope (the pre-b2aa72a behaviour keeps its own signature); such templates
//!               are also the children of F3's bare spelling, an F4 body placement and an F5 construct
//! Every program is also rendered moved into an included template and into a block body (F3: every
//! sequence shorter than the tier's maximum), and every render of a program's own entry template is
//! executed twice on the same instance.

mod refinterp;
mod stmt;

use mccore::engine::{self, Out};
use mccore::{Acc, Family, Run, json};
use refinterp::{Outcome, Stats};
use stmt::{Bindings, Group, IN_BLK, MAIN, Program, VIA_INC, fam};
use std::collections::HashMap;

/// An engine instance that is reused inside one work item: only templates whose source changed
/// are added again (F3: the children and `via_inc` stay, `main` / `in_blk` are replaced).
struct Instance {
    tera: tera::Tera,
    have: HashMap<String, String>,
    globals: Vec<String>,
}

impl Instance {
    fn new() -> Self {
        Instance { tera: tera::Tera::default(), have: HashMap::new(), globals: vec![] }
    }
    /// Adds what is new; returns the engine's answer and how many templates were sent.
    fn load(&mut self, p: &Program) -> (Out, usize) {
        let new: Vec<(String, String)> =
            p.sources().into_iter().filter(|(n, s)| self.have.get(n) != Some(s)).collect();
        if new.is_empty() {
            return (Out::Ok(String::new()), 0);
        }
        let out = engine::add_templates(&mut self.tera, &new);
        let n = new.len();
        if out.is_ok() {
            for (name, src) in new {
                self.have.insert(name, src);
            }
        }
        (out, n)
    }
    /// Switches every template of the instance to autoescaping (the empty suffix ends every name)
    /// with an escape function that copies its input: the text a render produces is unchanged, but
    /// every print goes through the engine's escaping branch (scratch buffer, escape call, the
    /// safe mark on captured text) instead of the direct write.
    fn escaping_branch(&mut self, on: bool) {
        fn copy(input: &str, out: &mut dyn std::io::Write) -> std::io::Result<()> {
            out.write_all(input.as_bytes())
        }
        if on {
            self.tera.set_escape_fn(copy);
            self.tera.autoescape_on(vec![""]);
        } else {
            self.tera.autoescape_on(vec![".html", ".htm", ".xml"]);
            self.tera.reset_escape_fn();
        }
    }
    fn set_globals(&mut self, b: &Bindings) {
        for k in self.globals.drain(..) {
            self.tera.global_context().remove(&k);
        }
        for (k, v) in &b.global {
            if *v != mccore::vals::V::Undef {
                self.tera.global_context().insert_value(k.clone(), v.to_tera());
                self.globals.push(k.clone());
            }
        }
    }
}

fn context_of(b: &Bindings) -> tera::Context {
    let refs: Vec<(&str, &mccore::vals::V)> = b.ctx.iter().map(|(k, v)| (k.as_str(), v)).collect();
    mccore::vals::context(&refs)
}

/// None = the engine's answer is one of the admissible outcomes; Some(kind) otherwise.
fn judge(out: &Out, admissible: &[Outcome]) -> Option<&'static str> {
    match out {
        Out::Panic(_) => Some("panic"),
        Out::Ok(s) => {
            if admissible.iter().any(|a| matches!(a, Outcome::Ok(t) if t == s)) {
                None
            } else if admissible.iter().all(|a| !a.is_ok()) {
                Some("missing-error")
            } else {
                Some("wrong-output")
            }
        }
        Out::Err(..) => {
            if admissible.iter().any(|a| matches!(a, Outcome::RenderErr(_))) {
                None
            } else {
                Some("unexpected-error")
            }
        }
    }
}

struct Spec {
    name: &'static str,
    /// the honest rule of the family: did the case reach the behaviour under test?
    nontrivial: fn(&Outcome, &Stats) -> bool,
    class: fn(&Outcome, &Stats) -> String,
    /// signature of a mismatch: (group tag, binding tag, kind)
    signature: fn(&str, &str, &str) -> String,
    /// a specific, named defect the mismatch may be an instance of
    recognize: Option<fn(&Program, &str, &Bindings, &Out) -> Option<String>>,
}

fn plain_class(o: &Outcome, _: &Stats) -> String {
    match o {
        Outcome::Ok(_) => "ok".into(),
        Outcome::RenderErr(_) => "err".into(),
        Outcome::SyntaxErr(_) => "refused".into(),
    }
}

fn case_json(p: &Program, entry: &str, b: &Bindings, admissible: &[Outcome]) -> mccore::Json {
    let mut j = b.json();
    let o = j.as_object_mut().unwrap();
    o.insert("templates".into(), p.json());
    o.insert("render".into(), json!(entry));
    o.insert("expected_one_of".into(), json!(admissible.iter().map(|a| a.show()).collect::<Vec<_>>()));
    j
}

/// Runs one group (one program, many bindings) on the engine and judges every render.
fn run_group(acc: &mut Acc, spec: &Spec, inst: &mut Instance, g: &Group<'_>, selfcheck: bool) {
    let p = g.program;
    let static_ok = refinterp::check(p);
    let (added, n_sent) = inst.load(p);
    acc.count("templates_added", n_sent as u64);
    match (&static_ok, &added) {
        (Err(why), Out::Err(..)) => {
            // refused as documented: one case, nothing to render
            acc.case(true, "refused");
            acc.count("refused_programs", 1);
            let _ = why;
            return;
        }
        (Err(why), Out::Ok(_)) => {
            acc.case(true, "refused");
            acc.violation(
                format!("accepted-invalid:{}:{}", spec.name, g.tag),
                format!("the template set breaks a static rule ({why}) but was accepted"),
                || json!({"templates": p.json()}),
            );
            return;
        }
        (Ok(()), Out::Ok(_)) => {}
        (Ok(()), other) => {
            acc.case(true, "rejected");
            acc.violation(
                format!("rejected-valid:{}:{}", spec.name, g.tag),
                format!("a valid template set was not accepted: {}", other.show()),
                || json!({"templates": p.json()}),
            );
            return;
        }
        (Err(_), Out::Panic(m)) => {
            acc.case(true, "panic");
            acc.violation(format!("panic:add:{}", spec.name), format!("add_raw_templates panicked: {m}"), || {
                json!({"templates": p.json()})
            });
            return;
        }
    }
    let mut tot = Stats::default();
    let (mut renders, mut order_dep) = (0u64, 0u64);
    for b in g.bindings {
        let ctx = context_of(b);
        inst.set_globals(b);
        let mut main_adm: Option<(Vec<Outcome>, Stats)> = None;
        let mut main_failed = false;
        for entry in &p.entries {
            let placed = entry == VIA_INC || entry == IN_BLK;
            let (adm, stats) = if placed && !selfcheck {
                main_adm.clone().expect("main is rendered first")
            } else {
                let r = refinterp::admissible_checked(p, entry, b);
                if placed {
                    // the placements must not change what the reference expects
                    assert_eq!(r.0, main_adm.as_ref().unwrap().0, "reference disagrees with itself on a placement");
                }
                r
            };
            if entry == MAIN {
                main_adm = Some((adm.clone(), stats.clone()));
            }
            let out = engine::render(&inst.tera, entry, &ctx);
            renders += 1;
            let first = &adm[0];
            acc.case((spec.nontrivial)(first, &stats), &(spec.class)(first, &stats));
            if adm.len() > 1 {
                order_dep += 1;
            }
            tot.shadowed_lookups += stats.shadowed_lookups;
            tot.dropped_bindings += stats.dropped_bindings;
            tot.breaks += stats.breaks;
            tot.continues += stats.continues;
            tot.else_runs += stats.else_runs;
            tot.captures += stats.captures;
            tot.includes += stats.includes;
            if let Some(kind) = judge(&out, &adm) {
                let sig = if let Some(s) = spec.recognize.and_then(|f| f(p, entry, b, &out)) {
                    s
                } else if placed && !main_failed {
                    format!("moved-into-{}:{}:{kind}", if entry == VIA_INC { "include" } else { "block" }, spec.name)
                } else {
                    (spec.signature)(g.tag, &b.tag, kind)
                };
                if entry == MAIN {
                    main_failed = true;
                }
                // the observed text of an order-dependent case differs from process to process:
                // keep it out of the message so that replay can compare executions
                let what = format!("[{} / {} / render {entry}]", g.detail, b.tag);
                let msg = if adm.len() > 1 {
                    format!("{what} {kind}: the engine's answer matches none of the {} admissible outcomes", adm.len())
                } else {
                    format!("{what} {kind}: engine gave {}, expected {}", out.show(), adm[0].show())
                };
                acc.violation(sig, msg, || case_json(p, entry, b, &adm));
            } else if entry == MAIN {
                // nothing survives a render: the same instance must answer the same again - this
                // time with every print going through the escaping branch (identity escaper), so
                // that scoping / capture / include behaviour is also observed on that path
                inst.escaping_branch(true);
                let again = engine::render(&inst.tera, entry, &ctx);
                inst.escaping_branch(false);
                renders += 1;
                let same = if adm.len() > 1 { judge(&again, &adm).is_none() } else { again == out };
                if !same {
                    acc.violation(
                        format!("rerender-differs:{}", spec.name),
                        format!("second render of the same instance (autoescaping on for every template, escape function = copy) gave {}, first {}", again.show(), out.show()),
                        || case_json(p, entry, b, &adm),
                    );
                }
            }
            if acc.wants_sample() && entry == MAIN {
                acc.sample(|| {
                    let mut j = case_json(p, entry, b, &adm);
                    j.as_object_mut().unwrap().insert("engine".into(), json!(out.show()));
                    j
                });
            }
        }
    }
    acc.count("renders", renders);
    acc.count("order_dependent_cases", order_dep);
    acc.count("shadowed_lookups", tot.shadowed_lookups as u64);
    acc.count("dropped_bindings", tot.dropped_bindings as u64);
    acc.count("breaks", tot.breaks as u64);
    acc.count("continues", tot.continues as u64);
    acc.count("else_runs", tot.else_runs as u64);
    acc.count("captures", tot.captures as u64);
    acc.count("includes", tot.includes as u64);
}

fn main() {
    let mut run = Run::from_env("C03", "exploration");
    let thorough = run.tier.is_thorough();
    run.rule(
        "One case = one render of one entry template of one program under one (context, global context) \
         binding, compared with the reference interpreter (a refused template set is one case). Cases are distinct by \
         construction (mixed-radix enumeration of the family parameters; the three placements main / via include / in a \
         block body are distinct entry templates). Non-trivial: F1 always (every case evaluates a chain and takes an arm, the else, nothing, or errors); F2 the loop body, a jump or the else body ran (not a refusal of a non-iterable); F3 some lookup of `a` \
         found it bound in >= 2 scopes or a binding was dropped at a scope exit; F4 a capture completed; F5 the program \
         rendered (marker trace produced) or was refused for a misplaced break/continue; incext always.",
    );
    run.assume("reference interpreter (refinterp.rs) encodes the property statement and docs/content/_index.md (If, For, Assignments, Include, Filters) and MIGRATION.md (one level of undefinedness); it is trusted");
    run.assume("default feature set: strings iterate by char (no `unicode` feature); template names without .html so autoescaping is off (C01 covers escaping); the repeated render of every main program runs with autoescaping switched on for every template and an escape function that copies its input, and must give the same text");
    run.assume("pinned, not asserted as right: a byte string iterates as integers; `for v in map` may bind the value or the key (both accepted); a non-iterable / `k, v` over a non-map must be a rendering error");
    run.assume("map iteration order is unspecified: for 2-entry maps the engine must match the reference under one of the orders (the same order at every iteration of the same map value)");
    run.assume("outside: nestings deeper than the stated bounds, more than 2 templates in an include chain besides the placements, parser nesting limit (C06), expression semantics beyond conditions/prints used here (C02)");
    run.extra(
        "alphabets",
        json!({
            "f1_condition_values": fam::cond_values().iter().map(|v| v.describe()).collect::<Vec<_>>(),
            "f1_condition_literals": fam::cond_literals().iter().map(|e| e.source()).collect::<Vec<_>>(),
            "f2_iterables": fam::iterables().iter().map(|(c, v)| format!("{c}: {}", v.describe())).collect::<Vec<_>>(),
            "f2_loop_configurations": fam::loop_cfgs().len(),
            "f3_events": fam::EVENTS.iter().map(|e| e.name()).collect::<Vec<_>>(),
            "f3_max_events": fam::f3_max_len(thorough),
            "f4_wrappers": fam::WRAPS.iter().map(|w| w.name()).collect::<Vec<_>>(),
            "f4_max_depth": fam::f4_max_depth(thorough),
            "f5_constructs": fam::CONS.iter().map(|c| c.name()).collect::<Vec<_>>(),
            "f5_max_depth": fam::f5_max_depth(thorough),
        }),
    );

    // ------------------------------------------------------------------ include of an extending template
    let incext = Spec {
        name: "include-extends",
        nontrivial: |_, _| true,
        class: plain_class,
        signature: |_g, b, k| format!("include-of-extending-template:{b}:{k}"),
        // the behaviour before the repair b2aa72a keeps its own signature
        recognize: Some(|p, entry, b, out| match (out, refinterp::render_with_old_include_of_extending(p, entry, b)) {
            (Out::Ok(s), Outcome::Ok(t)) if *s == t && entry != "c" => {
                Some("include-of-extending-template-renders-only-own-nodes".to_string())
            }
            _ => None,
        }),
    };
    run.family(
        Family::new(
            "include-extends",
            fam::incext_items(thorough),
            "5 includers (after a set, in a loop over a, in a set-block, in a filter section, plain) x 7 children (override, no override, override reading a, super(), set / set_global inside the block, 3-level chain with two super()) x 2 bases x 4 (context, global) configurations x 3 placements, plus the child rendered directly",
        ),
        |item, acc: &mut Acc| {
            fam::incext_decode(item, thorough, &mut |g| {
                let mut inst = Instance::new();
                run_group(acc, &incext, &mut inst, &g, true);
            });
        },
    );

    // ------------------------------------------------------------------ partials shared between includers
    // "`include` renders the named template against the includer's current variables" - for every
    // include tag, also when one partial is reached from the same root along several paths (a shared
    // partial, a diamond, the same include twice, in a loop). Such sets are acyclic and must
    // register. (Seeded change C03-13 forgot to pop the walked template off the path of the
    // include-cycle search, so a partial met a second time looked like a cycle.)
    {
        // (name, templates, entry, expected text with v = "V")
        let sets: Vec<(&str, Vec<(&str, &str)>, &str, &str)> = vec![
            ("diamond", vec![("root", "{% include \"a\" %}+{% include \"b\" %}"), ("a", "a({% include \"b\" %})"), ("b", "b{{ v }}")], "root", "a(bV)+bV"),
            ("same-include-twice", vec![("root", "{% include \"b\" %}{% include \"b\" %}"), ("b", "b{{ v }}")], "root", "bVbV"),
            ("shared-two-levels-down", vec![("root", "{% include \"a\" %}|{% include \"c\" %}"), ("a", "a[{% include \"c\" %}]"), ("c", "c<{% include \"b\" %}>"), ("b", "b{{ v }}")], "root", "a[c<bV>]|c<bV>"),
            ("shared-in-loop-and-set", vec![("root", "{% for v in [1, 2] %}{% include \"b\" %}{% endfor %}{% set v = 3 %}{% include \"a\" %}"), ("a", "a({% include \"b\" %})"), ("b", "b{{ v }}")], "root", "b1b2a(b3)"),
            ("shared-by-parent-and-child", vec![("base", "{% block m %}{% include \"b\" %}{% endblock %}/{% include \"b\" %}"), ("root", "{% extends \"base\" %}{% block m %}[{{ super() }}{% include \"b\" %}]{% endblock %}"), ("b", "b{{ v }}")], "root", "[bVbV]/bV"),
        ];
        let n_items = sets.len() as u64 * 2;
        run.family(
            Family::new(
                "include-shared-partials",
                n_items,
                "5 acyclic template sets in which one partial is reached from the same root along two include paths (diamond, the same include twice, shared two levels down, in a loop and after a set, by a parent block and its override) x registration in one batch (as listed and reversed): accepted, and rendered against hand-written texts",
            ),
            |item, acc: &mut Acc| {
                let (name, tpls, entry, want) = &sets[(item / 2) as usize];
                let mut list: Vec<(String, String)> = tpls.iter().map(|(n, s)| (n.to_string(), s.to_string())).collect();
                if item % 2 == 1 {
                    list.reverse();
                }
                let case = || json!({"set": name, "templates": list.iter().map(|(n, s)| json!({"name": n, "source": s})).collect::<Vec<_>>(), "render": entry, "context": {"v": "V"}});
                let mut t = tera::Tera::default();
                let added = engine::add_templates(&mut t, &list);
                if !added.is_ok() {
                    acc.violation(format!("include-shared-partials:refused:{name}"), format!("an acyclic set was refused: {}", added.show()), case);
                    acc.case(true, "refused");
                    return;
                }
                let mut ctx = tera::Context::new();
                ctx.insert("v", "V");
                let out = engine::render(&t, entry, &ctx);
                if out.ok() != Some(*want) {
                    acc.violation(format!("include-shared-partials:wrong-output:{name}"), format!("rendered {}, expected {want:?}", out.show()), case);
                }
                acc.case(true, out.class());
            },
        );
    }

    // ------------------------------------------------------------------ what the host's callbacks see
    // Name resolution is one rule for the template AND for the functions / filters / tests the host
    // registers: `State::get(name)` inside a callback answers what `{{ name }}` prints at the same
    // spot - also in an included template, whose names resolve through the includer's loops and
    // assignments before the render context and the global context. Every program prints
    // `[peek(x)=x]` pairs; the two sides of every pair must be equal. (Seeded change C03-14 gave
    // `State::get` a fast path that skipped the includer's scopes.)
    {
        fn peek(kwargs: tera::Kwargs, state: &tera::State) -> tera::TeraResult<tera::Value> {
            let name = kwargs.must_get::<String>("name")?;
            match state.get::<tera::Value>(&name)? {
                Some(v) => Ok(v),
                None => Err(tera::Error::message(format!("`{name}` is not defined for the callback"))),
            }
        }
        // (name, what the includer does around the include tag; INC = the include)
        let binders: [(&str, &str); 8] = [
            ("context-only", "INC"),
            ("includer-set", "{% set x = \"s\" %}INC"),
            ("includer-loop-variable", "{% for x in [1, 2] %}INC{% endfor %}"),
            ("includer-set-in-loop", "{% for i in [1, 2] %}{% set x = i %}INC{% endfor %}"),
            ("includer-set_global-in-loop", "{% for i in [1, 2] %}{% set_global x = i %}{% endfor %}INC"),
            ("includer-set-block", "{% set x %}b{% endset %}INC"),
            ("includer-key-value-loop", "{% for x, v in {\"k\": 1} %}INC{% endfor %}"),
            ("includer-loop-then-restored", "{% for x in [1] %}{% endfor %}INC"),
        ];
        let leaves: [(&str, &str); 4] = [
            ("plain", "[{{ peek(name=\"x\") }}={{ x }}]"),
            ("after-own-set", "{% set y = 1 %}[{{ peek(name=\"x\") }}={{ x }}]"),
            ("inside-own-loop", "{% for q in [1] %}[{{ peek(name=\"x\") }}={{ x }}]{% endfor %}"),
            ("own-set-of-x", "[{{ peek(name=\"x\") }}={{ x }}]{% set x = \"own\" %}[{{ peek(name=\"x\") }}={{ x }}]"),
        ];
        let placements: [(&str, bool, bool); 3] = [("context", true, false), ("global-context", false, true), ("both", true, true)];
        let n_items = (binders.len() * leaves.len() * 3) as u64;
        run.family(
            Family::new(
                "host-callback-lookups",
                n_items,
                "8 ways the includer binds x (not at all, set, loop variable, set in a loop, set_global in a loop, set block, key of a key-value loop, a loop that ended) x 4 included bodies x include depth 0..=2 x 3 placements of x (render context, global context, both): every `[peek(x)=x]` pair printed by the leaf has equal sides, peek being a host function that returns State::get(x)",
            ),
            |item, acc: &mut Acc| {
                let i = item as usize;
                let (bname, binder) = binders[i % binders.len()];
                let (lname, leaf) = leaves[(i / binders.len()) % leaves.len()];
                let depth = i / binders.len() / leaves.len();
                let mut tpls: Vec<(String, String)> = vec![("t0".into(), leaf.to_string())];
                for k in 1..=depth {
                    tpls.push((format!("t{k}"), format!("<{{% include \"t{}\" %}}>", k - 1)));
                }
                // depth 0: the binder wraps the leaf's own text
                let inc = if depth == 0 { leaf.to_string() } else { format!("{{% include \"t{}\" %}}", depth) };
                let root = binder.replace("INC", &inc);
                if depth == 0 {
                    tpls.clear();
                }
                tpls.push(("root".into(), root));
                for (pname, in_ctx, in_global) in placements {
                    let mut t = tera::Tera::default();
                    t.register_function("peek", peek);
                    if in_global {
                        t.global_context().insert("x", "g");
                    }
                    let case = || json!({"templates": tpls.iter().map(|(n, s)| json!({"name": n, "source": s})).collect::<Vec<_>>(), "render": "root", "x_in": pname, "function": "peek(name) = State::get(name)"});
                    let added = engine::add_templates(&mut t, &tpls);
                    if !added.is_ok() {
                        acc.violation("host-callback-lookups:refused".to_string(), format!("registration failed: {}", added.show()), case);
                        continue;
                    }
                    let mut ctx = tera::Context::new();
                    if in_ctx {
                        ctx.insert("x", "c");
                    }
                    let out = engine::render(&t, "root", &ctx);
                    let pairs_equal = |s: &str| {
                        let mut n = 0;
                        for part in s.split('[').skip(1) {
                            let Some((pair, _)) = part.split_once(']') else { return None };
                            let Some((l, r)) = pair.split_once('=') else { return None };
                            if l != r {
                                return None;
                            }
                            n += 1;
                        }
                        (n > 0).then_some(n)
                    };
                    match &out {
                        Out::Ok(s) if pairs_equal(s).is_some() => {}
                        _ => acc.violation(
                            format!("host-callback-lookups:{bname}:{lname}"),
                            format!("include depth {depth}, x in the {pname}: rendered {}; the sides of a pair differ (or the render failed)", out.show()),
                            case,
                        ),
                    }
                    acc.case(depth > 0, out.class());
                }
            },
        );
    }

    // ------------------------------------------------------------------ loop.* read inside a comprehension
    // The documentation says `loop.*` cannot be used in a list comprehension and leaves open what
    // happens when the comprehension stands in a `for` body (the engine answers with the enclosing
    // loop). Whatever the rule, the five fields are answered by ONE loop: `last` is `index ==
    // length`, `first` is `index0 == 0`, `index` is `index0 + 1` - read at the same spot (seeded
    // change C03-8: only `loop.last` was answered by the comprehension's hidden loop).
    {
        let probe = "[loop.last == (loop.index == loop.length), loop.first == (loop.index0 == 0), loop.index == loop.index0 + 1]";
        let outers: [(&str, &str); 5] = [
            ("array-3", "{% for y in [1, 2, 3] %}"),
            ("array-1", "{% for y in [7] %}"),
            ("string", "{% for y in \"aé\" %}"),
            ("key-value", "{% for k, y in {\"a\": 1, \"b\": 2} %}"),
            ("nested-inner", "{% for z in [1, 2] %}{% for y in [1, 2, 3] %}"),
        ];
        let comps: [(&str, String, &str); 4] = [
            ("element", format!("{{{{ [{probe} for q in [0, 1]] }}}}"), "[[true, true, true], [true, true, true]]"),
            ("element-one", format!("{{{{ [{probe} for q in [0]] }}}}"), "[[true, true, true]]"),
            ("condition", "{{ [q for q in [5, 6] if loop.last == (loop.index == loop.length)] }}".to_string(), "[5, 6]"),
            ("nested-comprehension", "{{ [[loop.last == (loop.index == loop.length) for r in [0]] for q in [0, 1]] }}".to_string(), "[[true], [true]]"),
        ];
        let n_items = (outers.len() * comps.len()) as u64;
        run.family(
            Family::new(
                "loop-fields-in-comprehension",
                n_items,
                "5 enclosing loops (3 / 1 elements, a string, key-value, the inner of two) x 4 comprehension positions (element, single element, condition, nested comprehension): last == (index == length), first == (index0 == 0), index == index0 + 1 read inside the comprehension must all hold at every iteration, or the program must be refused",
            ),
            |item, acc: &mut Acc| {
                let (oname, open) = outers[item as usize / comps.len()];
                let (cname, comp, want) = &comps[item as usize % comps.len()];
                let closes = if oname == "nested-inner" { "{% endfor %}{% endfor %}" } else { "{% endfor %}" };
                let src = format!("{open}{comp};{closes}");
                let t = tera::Tera::default();
                let out = engine::render_str(&t, &src, &tera::Context::new(), false);
                let class = match &out {
                    Out::Ok(text) => {
                        let pieces: Vec<&str> = text.split(';').filter(|p| !p.is_empty()).collect();
                        if !pieces.is_empty() && pieces.iter().all(|p| p == want) {
                            "consistent"
                        } else {
                            acc.violation(
                                format!("loop-fields-inconsistent-in-comprehension:{cname}"),
                                format!("`{src}` renders {text:?}: at some iteration the loop fields read inside the comprehension contradict one another (every piece should be {want})"),
                                || json!({"template": src, "enclosing_loop": oname}),
                            );
                            "INCONSISTENT"
                        }
                    }
                    // "cannot use the loop.* variables in list comprehension": a refusal is allowed
                    Out::Err(..) => "refused",
                    Out::Panic(p) => {
                        acc.violation("panic:loop-fields-in-comprehension", format!("`{src}` panicked: {p}"), || json!({"template": src}));
                        "panic"
                    }
                };
                acc.case(true, class);
            },
        );
    }

    // ------------------------------------------------------------------ F1
    let f1 = Spec {
        name: "f1-branch",
        nontrivial: |o, s| !o.is_ok() || s.last_branch.is_some(),
        class: |o, s| match (o, s.last_branch) {
            (Outcome::Ok(_), Some(i)) => format!("took-{i}"),
            (Outcome::Ok(_), None) => "ok".into(),
            (Outcome::RenderErr(_), _) => "err".into(),
            (Outcome::SyntaxErr(_), _) => "refused".into(),
        },
        signature: |g, _b, k| format!("branch:{g}:{k}"),
        recognize: None,
    };
    run.family(
        Family::new(
            "f1-branch",
            fam::f1_items(thorough),
            "if with 0..=3 elif, with/without else; every arm either a context variable over 26 values (13 falsy, 13 truthy) or the erroring spelling e.f; plus every chain of 15 literal conditions; x 3 placements",
        ),
        |item, acc: &mut Acc| {
            let mut n = 0u64;
            fam::f1_decode(item, thorough, &mut |g| {
                let mut inst = Instance::new();
                run_group(acc, &f1, &mut inst, &g, n == 0 && item % 16 == 0);
                n += 1;
            });
        },
    );

    // ------------------------------------------------------------------ F2
    let f2 = Spec {
        name: "f2-loop",
        nontrivial: |o, s| o.is_ok() && (s.iterations > 0 || s.else_runs > 0),
        class: plain_class,
        signature: |g, _b, k| format!("loop:{g}:{k}"),
        recognize: None,
    };
    run.family(
        Family::new(
            "f2-loop",
            fam::f2_items(thorough),
            "68 loop configurations x 16 iterables; nested once: 68 x 68 configurations x (16 x 16 iterables + inner loop over the outer element x 16); 68 configurations x 8 containers holding an undefined element (only / first / middle / last), the element printed through `default`; x 3 placements",
        ),
        |item, acc: &mut Acc| {
            let mut n = 0u64;
            fam::f2_decode(item, thorough, &mut |g| {
                let mut inst = Instance::new();
                run_group(acc, &f2, &mut inst, &g, n == 0 && item % 64 == 0);
                n += 1;
            });
        },
    );

    // ------------------------------------------------------------------ F3
    let f3 = Spec {
        name: "f3-scope",
        nontrivial: |_, s| s.shadowed_lookups > 0 || s.dropped_bindings > 0,
        class: plain_class,
        signature: |g, b, k| format!("scope:{g}:{b}:{k}"),
        recognize: None,
    };
    run.family(
        Family::new(
            "f3-scope",
            fam::f3_items(thorough),
            &format!(
                "all well-nested sequences of <= {} events over {{set, set_global, for a, for z, include print/set/set_global, set-block, filter section, close}}, PRINT a after each; x 2 print spellings (bare, if-defined idiom) x 4 (context, global) configurations; the 3 placements for every sequence shorter than the maximum",
                fam::f3_max_len(thorough)
            ),
        )
        .describe(|i| json!({"prefix": fam::f3_prefix(i, thorough).iter().map(|e| e.name()).collect::<Vec<_>>()})),
        |item, acc: &mut Acc| {
            let mut inst = Instance::new();
            let mut n = 0u64;
            fam::f3_decode(item, thorough, &mut |g| {
                run_group(acc, &f3, &mut inst, &g, n % 1024 == 0);
                n += 1;
            });
            acc.count("sequences_x_spellings", n);
        },
    );

    // ------------------------------------------------------------------ F4
    let f4 = Spec {
        name: "f4-capture",
        nontrivial: |o, s| o.is_ok() && s.captures > 0,
        class: plain_class,
        signature: |g, _b, k| format!("capture:{g}:{k}"),
        recognize: None,
    };
    run.family(
        Family::new(
            "f4-capture",
            fam::f4_items(thorough),
            &format!(
                "every stack of 1..={} wrappers from {{set, set|upper, set|trim|replace, filter upper, filter replace}} x inside a loop or not x body inline / through an include / through an include of an extending template (body in an overridden block after super()), around 28 if-programs, 68 single loops x 16 iterables and 18 nested loops; x 3 placements",
                fam::f4_max_depth(thorough)
            ),
        ),
        |item, acc: &mut Acc| {
            let mut n = 0u64;
            fam::f4_decode(item, thorough, &mut |g| {
                let mut inst = Instance::new();
                run_group(acc, &f4, &mut inst, &g, n == 0 && item % 32 == 0);
                n += 1;
            });
        },
    );

    // ------------------------------------------------------------------ F5
    let f5 = Spec {
        name: "f5-jump",
        nontrivial: |o, _| !matches!(o, Outcome::RenderErr(_)),
        class: plain_class,
        signature: |g, _b, k| format!("jump:{g}:{k}"),
        recognize: None,
    };
    run.family(
        Family::new(
            "f5-jump",
            fam::f5_items(thorough),
            &format!(
                "every chain of 1..={} constructs from 13 (construct, child position) pairs (if, if-else x2, if-elif-else x3, for, for-else x2, set-block, filter section, include, include of an extending template) x leaf in {{none, guarded break, guarded continue}} x every condition in {{T,F}} / list in {{[],[1],[1,2]}} / jump index in {{never,1,2}}; x 3 placements",
                fam::f5_max_depth(thorough)
            ),
        )
        .describe(|i| json!({"chain": fam::f5_chain(i, thorough).iter().map(|c| c.name()).collect::<Vec<_>>()})),
        |item, acc: &mut Acc| {
            let mut n = 0u64;
            fam::f5_decode(item, thorough, &mut |g| {
                let mut inst = Instance::new();
                run_group(acc, &f5, &mut inst, &g, n == 0 && item % 32 == 0);
                n += 1;
            });
        },
    );

    if run.is_supervisor() {
        for k in ["took-0", "took-1", "took-2", "took-3", "took-4", "took-5", "err"] {
            let n = run.outcome("f1-branch", k);
            run.guard(&format!("f1-outcome-{k}"), n > 0, format!("{n} cases"));
        }
        for fam_name in ["f2-loop", "f4-capture"] {
            let (ok, err) = (run.outcome(fam_name, "ok"), run.outcome(fam_name, "err"));
            run.guard(&format!("{fam_name}-both-outcomes"), ok > 0 && err > 0, format!("ok={ok} err={err}"));
        }
        let (ok, refused) = (run.outcome("f5-jump", "ok"), run.outcome("f5-jump", "refused"));
        run.guard("f5-renders-and-refusals", ok > 0 && refused > 0, format!("ok={ok} refused={refused}"));
        let (ok, err) = (run.outcome("f3-scope", "ok"), run.outcome("f3-scope", "err"));
        run.guard("f3-both-outcomes", ok > 0 && err > 0, format!("ok={ok} err={err} (err = bare print of an undefined a)"));
        for c in ["shadowed_lookups", "dropped_bindings", "breaks", "continues", "else_runs", "captures", "includes", "order_dependent_cases"] {
            let n = run.counter(c);
            run.guard(&format!("reference-exercised-{c}"), n > 0, format!("{n}"));
        }
        let n = run.evaluations("include-extends");
        run.guard("include-extends-ran", n == 70 * 4 * 4, format!("{n} renders"));
    }
    run.finish();
}
