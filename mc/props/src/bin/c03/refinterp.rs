//! Reference interpreter for the statement AST of `stmt.rs`: implements exactly the rules of
//! property C03 and of the documentation (docs/content/_index.md: If, For, Assignments, Include,
//! filter sections; MIGRATION.md: one level of undefinedness), nothing from the engine.
//!
//!   * `if/elif/else`: conditions are evaluated in order, the first truthy one selects its body
//!     (Python truthiness; undefined is falsy), later conditions are not evaluated;
//!   * `for`: elements of an array in order, characters of a string, bytes of a byte string, the
//!     entries of a map (in the order the `V::Map` lists them — the caller tries the
//!     permutations); `loop.index/index0/first/last/length`; `else` iff there was nothing to
//!     iterate; `break` / `continue` act on the innermost enclosing loop;
//!   * lookup: loops of the current template innermost first (iteration-local assignments, then
//!     the loop variables), then the template's assignments, then the includer's scopes
//!     (recursively), then the context, then the global context;
//!   * `set` inside a loop body lives until the end of the current iteration; `set_global` and
//!     `set` outside loops live until the end of the render of that template;
//!   * `include` renders the named template against the includer's current scopes and nothing
//!     the included template assigns is visible afterwards;
//!   * a set-block / filter section captures exactly the text its body writes, applies the
//!     filters and assigns / writes the result;
//!   * a template with a parent renders its root ancestor with every block replaced by the most
//!     derived definition; `super()` renders the next definition up the chain. This holds for a
//!     top-level render and for an `include` alike (flat blocks only; C04 owns inheritance).
//!
//! Static rules (`check`): `break` / `continue` need an enclosing loop body in the same
//! template and may not cross a set-block / filter section boundary; blocks may not be written
//! inside `if` / `for`.
//!
//! Public API: `Outcome`, `Stats`, `Opts`, `check(&Program)`, `render(&Program, entry,
//! &Bindings, &Opts)`, `admissible(&Program, entry, &Bindings)` (all outcomes over the
//! unspecified choices: map iteration order, key-or-value for a single loop variable over a
//! map), their `*_checked` forms for a program that already passed `check`,
//! `render_with_old_include_of_extending`, `truthy(&V)`, `display(&V)`.
#![allow(dead_code)]

use super::stmt::{Bindings, Expr, Filter, LoopField, Program, Stmt, Template};
use mccore::vals::V;
use std::collections::BTreeMap;

#[derive(Clone, Debug, PartialEq, Eq)]
pub enum Outcome {
    Ok(String),
    /// The template set must be refused when it is added (static rule broken).
    SyntaxErr(String),
    /// The render must fail.
    RenderErr(String),
}

impl Outcome {
    pub fn show(&self) -> String {
        match self {
            Outcome::Ok(s) => format!("Ok({s:?})"),
            Outcome::SyntaxErr(m) => format!("refused when added ({m})"),
            Outcome::RenderErr(m) => format!("rendering error ({m})"),
        }
    }
    pub fn is_ok(&self) -> bool {
        matches!(self, Outcome::Ok(_))
    }
}

/// What the reference run went through (for honest non-triviality rules and vacuity guards).
#[derive(Clone, Debug, Default, PartialEq, Eq)]
pub struct Stats {
    /// lookups that found the name bound in at least two scopes (shadowing decided the answer)
    pub shadowed_lookups: u32,
    /// bindings dropped at the end of an iteration / loop / include while the render went on
    pub dropped_bindings: u32,
    pub iterations: u32,
    pub breaks: u32,
    pub continues: u32,
    pub else_runs: u32,
    pub captures: u32,
    pub includes: u32,
    /// index of the `if` arm chosen last (arms.len() = else, arms.len()+1 = nothing)
    pub last_branch: Option<usize>,
}

#[derive(Clone, Copy, Debug, PartialEq, Eq)]
pub struct Opts {
    /// `{% for v in map %}` binds the key instead of the value (the documentation only shows
    /// the `key, value` form for maps; both readings are tried by `admissible`).
    pub single_var_over_map_is_key: bool,
    /// NOT a documented reading: an included template that extends starts from its own body
    /// instead of its root ancestor's (the engine's behaviour before the repair b2aa72a). Only
    /// used to *recognise* that defect under its own signature, never as an expectation.
    pub include_starts_from_own_body: bool,
}

impl Default for Opts {
    fn default() -> Self {
        Opts { single_var_over_map_is_key: false, include_starts_from_own_body: false }
    }
}

pub fn truthy(v: &V) -> bool {
    match v {
        V::Undef | V::None => false,
        V::Bool(b) => *b,
        V::I64(i) => *i != 0,
        V::U64(i) => *i != 0,
        V::I128(i) => *i != 0,
        V::U128(i) => *i != 0,
        V::F64(f) => *f != 0.0,
        V::Str(s) | V::Safe(s) => !s.is_empty(),
        V::Bytes(b) => !b.is_empty(),
        V::Arr(a) => !a.is_empty(),
        V::Map(m) => !m.is_empty(),
    }
}

/// Text of a printed value, for the kinds whose printed form is unambiguous.
pub fn display(v: &V) -> Option<String> {
    Some(match v {
        V::Str(s) | V::Safe(s) => s.clone(),
        V::Bool(b) => format!("{b}"),
        V::I64(i) => format!("{i}"),
        V::U64(i) => format!("{i}"),
        V::I128(i) => format!("{i}"),
        V::U128(i) => format!("{i}"),
        _ => return None,
    })
}

fn apply_filter(f: &Filter, s: String) -> String {
    match f {
        Filter::Upper => s.to_uppercase(),
        Filter::Lower => s.to_lowercase(),
        Filter::Trim => s.trim().to_string(),
        Filter::Replace(from, to) => s.replace(from.as_str(), to.as_str()),
    }
}

// ------------------------------------------------------------------------------- static rules

#[derive(Clone, Copy, PartialEq)]
enum Lex {
    Loop,
    If,
    Capture,
    Block,
}

/// The rules a template set must satisfy to be accepted.
pub fn check(p: &Program) -> Result<(), String> {
    for t in &p.templates {
        let mut blocks = vec![];
        check_body(&t.body, &mut vec![], &mut blocks).map_err(|e| format!("{}: {e}", t.name))?;
        if let Some(parent) = &t.extends
            && p.get(parent).is_none()
        {
            return Err(format!("{}: parent {parent} is missing", t.name));
        }
    }
    Ok(())
}

fn check_body(body: &[Stmt], lex: &mut Vec<Lex>, blocks: &mut Vec<String>) -> Result<(), String> {
    for st in body {
        match st {
            Stmt::Text(_) | Stmt::Print(_) | Stmt::Set { .. } | Stmt::Include(_) | Stmt::Super => {}
            Stmt::Break | Stmt::Continue => {
                let mut ok = false;
                for l in lex.iter().rev() {
                    match l {
                        Lex::Loop => {
                            ok = true;
                            break;
                        }
                        Lex::Capture => {
                            return Err("break/continue inside a set-block or filter section of the loop".into());
                        }
                        _ => {}
                    }
                }
                if !ok {
                    return Err("break/continue outside a loop".into());
                }
            }
            Stmt::If { arms, else_body } => {
                lex.push(Lex::If);
                for (_, b) in arms {
                    check_body(b, lex, blocks)?;
                }
                if let Some(b) = else_body {
                    check_body(b, lex, blocks)?;
                }
                lex.pop();
            }
            Stmt::For { body, else_body, .. } => {
                lex.push(Lex::Loop);
                check_body(body, lex, blocks)?;
                lex.pop();
                if let Some(b) = else_body {
                    // the else body is outside the loop
                    check_body(b, lex, blocks)?;
                }
            }
            Stmt::SetBlock { body, .. } | Stmt::FilterSection { body, .. } => {
                lex.push(Lex::Capture);
                check_body(body, lex, blocks)?;
                lex.pop();
            }
            Stmt::Block { name, body } => {
                if lex.iter().any(|l| matches!(l, Lex::Loop | Lex::If)) {
                    return Err("block inside if/for".into());
                }
                if blocks.contains(name) {
                    return Err(format!("duplicate block {name}"));
                }
                blocks.push(name.clone());
                lex.push(Lex::Block);
                check_body(body, lex, blocks)?;
                lex.pop();
            }
        }
    }
    Ok(())
}

// --------------------------------------------------------------------------------- evaluation

struct LoopFrame {
    var: String,
    key: Option<String>,
    cur_val: V,
    cur_key: V,
    /// assignments made during the current iteration
    locals: BTreeMap<String, V>,
    index0: usize,
    len: usize,
}

/// One template activation: the top-level render or one `include`.
struct Frame<'p> {
    loops: Vec<LoopFrame>,
    assigns: BTreeMap<String, V>,
    /// most-derived-first chain of the template being rendered (for blocks)
    chain: Vec<&'p Template>,
    /// blocks being rendered: (definitions most derived first, index of the one executing)
    blocks: Vec<(Vec<&'p [Stmt]>, usize)>,
}

enum Flow {
    Normal,
    Break,
    Continue,
}

struct Interp<'p> {
    program: &'p Program,
    ctx: &'p [(String, V)],
    global: &'p [(String, V)],
    opts: Opts,
    stats: Stats,
    /// innermost capture last; index 0 is the output
    sinks: Vec<String>,
    /// the include chain: the top-level render first, the template being executed last
    frames: Vec<Frame<'p>>,
}

type R<T> = Result<T, String>;

impl<'p> Interp<'p> {
    fn write(&mut self, s: &str) {
        self.sinks.last_mut().unwrap().push_str(s);
    }

    fn cur(&mut self) -> &mut Frame<'p> {
        self.frames.last_mut().unwrap()
    }

    /// Lookup order: for the executing template and then each includer outwards — its loops
    /// innermost first (iteration-local assignments, then the loop variables), then its
    /// assignments; then the context; then the global context.
    fn lookup(&mut self, name: &str) -> V {
        let mut hits = 0u32;
        let mut found: Option<V> = None;
        {
            let mut hit = |v: &V| {
                hits += 1;
                if found.is_none() {
                    found = Some(v.clone());
                }
            };
            for frame in self.frames.iter().rev() {
                for l in frame.loops.iter().rev() {
                    if let Some(v) = l.locals.get(name) {
                        hit(v);
                    }
                    if l.var == name {
                        hit(&l.cur_val);
                    } else if l.key.as_deref() == Some(name) {
                        hit(&l.cur_key);
                    }
                }
                if let Some(v) = frame.assigns.get(name) {
                    hit(v);
                }
            }
            if let Some((_, v)) = self.ctx.iter().find(|(k, v)| k == name && *v != V::Undef) {
                hit(v);
            }
            if let Some((_, v)) = self.global.iter().find(|(k, v)| k == name && *v != V::Undef) {
                hit(v);
            }
        }
        if hits >= 2 {
            self.stats.shadowed_lookups += 1;
        }
        found.unwrap_or(V::Undef)
    }

    fn eval(&mut self, e: &Expr) -> R<V> {
        Ok(match e {
            Expr::Var(n) => self.lookup(n),
            Expr::Lit(v) => v.clone(),
            Expr::Attr(inner, name) => {
                let v = self.eval(inner)?;
                match v {
                    // only one level of undefinedness is allowed
                    V::Undef => return Err(format!("attribute `{name}` of an undefined value")),
                    V::Map(kv) => kv
                        .iter()
                        .find(|(k, _)| matches!(k, mccore::vals::K::Str(s) if s == name))
                        .map(|(_, v)| v.clone())
                        .unwrap_or(V::Undef),
                    _ => V::Undef,
                }
            }
            Expr::Loop(f) => {
                let l = self
                    .cur()
                    .loops
                    .last()
                    .expect("generator bug: loop.* outside a loop of the same template");
                match f {
                    LoopField::Index => V::U64(l.index0 as u64 + 1),
                    LoopField::Index0 => V::U64(l.index0 as u64),
                    LoopField::First => V::Bool(l.index0 == 0),
                    LoopField::Last => V::Bool(l.index0 + 1 == l.len),
                    LoopField::Length => V::U64(l.len as u64),
                }
            }
            Expr::Eq(a, b) => {
                let (x, y) = (self.eval(a)?, self.eval(b)?);
                let r = match (x.as_i128(), y.as_i128()) {
                    (Some(p), Some(q)) => p == q,
                    _ => match (&x, &y) {
                        (V::Str(p) | V::Safe(p), V::Str(q) | V::Safe(q)) => p == q,
                        (V::Bool(p), V::Bool(q)) => p == q,
                        _ => panic!("reference `==` only compares integers, strings and booleans"),
                    },
                };
                V::Bool(r)
            }
            Expr::Default(inner, text) => {
                // `default` replaces an undefined value (one level of undefinedness)
                let v = self.eval(inner)?;
                if v == V::Undef { V::Str(text.clone()) } else { v }
            }
        })
    }

    /// `set` inside a loop body belongs to the current iteration of the innermost loop of the
    /// executing template; everything else is an assignment of the executing template.
    fn assign(&mut self, name: &str, value: V, global: bool) {
        let frame = self.cur();
        if !global && let Some(l) = frame.loops.last_mut() {
            l.locals.insert(name.to_string(), value);
        } else {
            frame.assigns.insert(name.to_string(), value);
        }
    }

    fn exec_body(&mut self, body: &'p [Stmt]) -> R<Flow> {
        for st in body {
            match self.exec(st)? {
                Flow::Normal => {}
                other => return Ok(other),
            }
        }
        Ok(Flow::Normal)
    }

    fn exec(&mut self, st: &'p Stmt) -> R<Flow> {
        match st {
            Stmt::Text(t) => self.write(t),
            Stmt::Print(e) => {
                let v = self.eval(e)?;
                if v == V::Undef {
                    return Err(format!("printing an undefined value: {}", e.source()));
                }
                let s = display(&v).unwrap_or_else(|| panic!("reference cannot print {}", v.describe()));
                self.write(&s);
            }
            Stmt::If { arms, else_body } => {
                for (i, (c, b)) in arms.iter().enumerate() {
                    let v = self.eval(c)?;
                    if truthy(&v) {
                        self.stats.last_branch = Some(i);
                        return self.exec_body(b);
                    }
                }
                if let Some(b) = else_body {
                    self.stats.last_branch = Some(arms.len());
                    return self.exec_body(b);
                }
                self.stats.last_branch = Some(arms.len() + 1);
            }
            Stmt::For { key, var, iter, body, else_body } => {
                let container = self.eval(iter)?;
                let items: Vec<(V, V)> = match &container {
                    V::Arr(xs) => xs.iter().map(|x| (V::None, x.clone())).collect(),
                    V::Str(s) | V::Safe(s) => s.chars().map(|c| (V::None, V::Str(c.to_string()))).collect(),
                    V::Bytes(bs) => bs.iter().map(|b| (V::None, V::U64(*b as u64))).collect(),
                    V::Map(kv) => kv
                        .iter()
                        .map(|(k, v)| {
                            if key.is_none() && self.opts.single_var_over_map_is_key {
                                (k.as_v(), k.as_v())
                            } else {
                                (k.as_v(), v.clone())
                            }
                        })
                        .collect(),
                    other => return Err(format!("cannot iterate on {}", other.describe())),
                };
                if key.is_some() && !matches!(container, V::Map(_)) {
                    return Err("key, value iteration on something that is not a map".into());
                }
                let len = items.len();
                self.cur().loops.push(LoopFrame {
                    var: var.clone(),
                    key: key.clone(),
                    cur_val: V::Undef,
                    cur_key: V::Undef,
                    locals: BTreeMap::new(),
                    index0: 0,
                    len,
                });
                for (i, (k, v)) in items.into_iter().enumerate() {
                    let dropped = {
                        let l = self.cur().loops.last_mut().unwrap();
                        let n = l.locals.len() as u32;
                        // an assignment made inside the body dies with its iteration
                        l.locals.clear();
                        l.index0 = i;
                        l.cur_key = k;
                        l.cur_val = v;
                        n
                    };
                    self.stats.dropped_bindings += dropped;
                    self.stats.iterations += 1;
                    match self.exec_body(body)? {
                        Flow::Normal => {}
                        Flow::Continue => self.stats.continues += 1,
                        Flow::Break => {
                            self.stats.breaks += 1;
                            break;
                        }
                    }
                }
                let l = self.cur().loops.pop().unwrap();
                self.stats.dropped_bindings += l.locals.len() as u32 + if len > 0 { 1 } else { 0 };
                // the else body runs only when there was nothing to iterate, outside the loop
                if len == 0 && let Some(b) = else_body {
                    self.stats.else_runs += 1;
                    return self.exec_body(b);
                }
            }
            Stmt::Break => return Ok(Flow::Break),
            Stmt::Continue => return Ok(Flow::Continue),
            Stmt::Set { name, value, global } => {
                let v = self.eval(value)?;
                if v == V::Undef {
                    // never generated; the documentation does not say what assigning undefined does
                    panic!("reference: assignment of an undefined value");
                }
                self.assign(name, v, *global);
            }
            Stmt::SetBlock { name, global, filters, body } => {
                self.sinks.push(String::new());
                let r = self.exec_body(body);
                let mut captured = self.sinks.pop().unwrap();
                r?;
                self.stats.captures += 1;
                for f in filters {
                    captured = apply_filter(f, captured);
                }
                self.assign(name, V::Safe(captured), *global);
            }
            Stmt::FilterSection { filter, body } => {
                self.sinks.push(String::new());
                let r = self.exec_body(body);
                let captured = self.sinks.pop().unwrap();
                r?;
                self.stats.captures += 1;
                let out = apply_filter(filter, captured);
                self.write(&out);
            }
            Stmt::Include(name) => {
                self.stats.includes += 1;
                let program = self.program;
                let tpl = program.get(name).unwrap_or_else(|| panic!("generator bug: include of missing {name}"));
                // a fresh activation that reads through the includer's scopes and writes into
                // the includer's current sink; nothing it assigns survives
                self.frames.push(Frame { loops: vec![], assigns: BTreeMap::new(), chain: chain_of(program, tpl), blocks: vec![] });
                let r = if self.opts.include_starts_from_own_body {
                    self.exec_body(&tpl.body).map(|_| ())
                } else {
                    self.render_frame()
                };
                let child = self.frames.pop().unwrap();
                r?;
                self.stats.dropped_bindings += child.assigns.len() as u32;
            }
            Stmt::Block { name, body } => {
                // every definition of the block in the chain of the template being rendered,
                // most derived first; the first one is rendered, `super()` walks up
                let mut lineage: Vec<&'p [Stmt]> =
                    self.cur().chain.iter().filter_map(|t| find_block(&t.body, name)).collect();
                if lineage.is_empty() {
                    lineage.push(body);
                }
                let first = lineage[0];
                self.cur().blocks.push((lineage, 0));
                let r = self.exec_body(first);
                self.cur().blocks.pop();
                return r;
            }
            Stmt::Super => {
                let Some((lineage, level)) = self.cur().blocks.last().cloned() else {
                    return Err("super() outside of a block".into());
                };
                if level + 1 >= lineage.len() {
                    return Err("super() in the top-level definition of the block".into());
                }
                self.cur().blocks.last_mut().unwrap().1 = level + 1;
                let r = self.exec_body(lineage[level + 1]);
                self.cur().blocks.last_mut().unwrap().1 = level;
                return r;
            }
        }
        Ok(Flow::Normal)
    }

    fn render_frame(&mut self) -> R<()> {
        let root: &'p Template = self.cur().chain.last().copied().expect("chain is not empty");
        self.exec_body(&root.body)?;
        Ok(())
    }
}

fn find_block<'p>(body: &'p [Stmt], name: &str) -> Option<&'p [Stmt]> {
    for st in body {
        match st {
            Stmt::Block { name: n, body: b } => {
                if n == name {
                    return Some(b);
                }
                if let Some(x) = find_block(b, name) {
                    return Some(x);
                }
            }
            Stmt::SetBlock { body: b, .. } | Stmt::FilterSection { body: b, .. } => {
                if let Some(x) = find_block(b, name) {
                    return Some(x);
                }
            }
            _ => {}
        }
    }
    None
}

/// The template and its ancestors, most derived first.
fn chain_of<'p>(p: &'p Program, t: &'p Template) -> Vec<&'p Template> {
    let mut chain = vec![t];
    let mut cur = t;
    while let Some(parent) = &cur.extends {
        let pt = p.get(parent).expect("checked: parent exists");
        assert!(chain.len() < 16, "generator bug: extends cycle");
        chain.push(pt);
        cur = pt;
    }
    chain
}

/// Renders `entry` of the program under the bindings (static rules first).
pub fn render(p: &Program, entry: &str, b: &Bindings, opts: &Opts) -> (Outcome, Stats) {
    if let Err(e) = check(p) {
        return (Outcome::SyntaxErr(e), Stats::default());
    }
    render_checked(p, entry, b, opts)
}

/// `render` for a program that already passed `check`.
pub fn render_checked(p: &Program, entry: &str, b: &Bindings, opts: &Opts) -> (Outcome, Stats) {
    let tpl = p.get(entry).expect("entry exists");
    let mut it = Interp {
        program: p,
        ctx: &b.ctx,
        global: &b.global,
        opts: *opts,
        stats: Stats::default(),
        sinks: vec![String::new()],
        frames: vec![Frame { loops: vec![], assigns: BTreeMap::new(), chain: chain_of(p, tpl), blocks: vec![] }],
    };
    let r = it.render_frame();
    let out = match r {
        Ok(()) => Outcome::Ok(it.sinks.pop().unwrap()),
        Err(e) => Outcome::RenderErr(e),
    };
    (out, it.stats)
}

/// What the engine gave before the repair b2aa72a (an included template that extends renders
/// only its own top-level nodes) — used to recognise that defect under its own signature, never
/// as an expectation.
pub fn render_with_old_include_of_extending(p: &Program, entry: &str, b: &Bindings) -> Outcome {
    render(p, entry, b, &Opts { include_starts_from_own_body: true, ..Opts::default() }).0
}

fn has_single_var_loop(p: &Program) -> bool {
    fn body(b: &[Stmt]) -> bool {
        b.iter().any(|s| match s {
            Stmt::For { key, body: bd, else_body, .. } => {
                key.is_none() || body(bd) || else_body.as_deref().is_some_and(body)
            }
            Stmt::If { arms, else_body } => {
                arms.iter().any(|(_, b)| body(b)) || else_body.as_deref().is_some_and(body)
            }
            Stmt::SetBlock { body: bd, .. } | Stmt::FilterSection { body: bd, .. } | Stmt::Block { body: bd, .. } => {
                body(bd)
            }
            _ => false,
        })
    }
    p.templates.iter().any(|t| body(&t.body))
}

/// Every outcome the documentation admits: one per iteration order of each context map with at
/// least two entries, and (when a map is iterated with a single variable) per reading of that
/// variable. The first element is the default reading (listed order, value). `Stats` are those
/// of the first.
pub fn admissible(p: &Program, entry: &str, b: &Bindings) -> (Vec<Outcome>, Stats) {
    if let Err(e) = check(p) {
        return (vec![Outcome::SyntaxErr(e)], Stats::default());
    }
    admissible_checked(p, entry, b)
}

/// `admissible` for a program that already passed `check`.
pub fn admissible_checked(p: &Program, entry: &str, b: &Bindings) -> (Vec<Outcome>, Stats) {
    if !b.ctx.iter().any(|(_, v)| matches!(v, V::Map(kv) if !kv.is_empty())) {
        // nothing unspecified is involved
        let (o, s) = render_checked(p, entry, b, &Opts::default());
        return (vec![o], s);
    }
    // permutations of multi-entry maps bound at the top level of the context
    let mut variants: Vec<Bindings> = vec![b.clone()];
    let mut any_map = false;
    for (i, (_, v)) in b.ctx.iter().enumerate() {
        if let V::Map(kv) = v {
            any_map = any_map || !kv.is_empty();
            if kv.len() >= 2 {
                assert!(kv.len() == 2, "reference permutes maps of two entries only");
                let mut more = vec![];
                for base in &variants {
                    let mut alt = base.clone();
                    if let V::Map(kv2) = &mut alt.ctx[i].1 {
                        kv2.reverse();
                    }
                    more.push(alt);
                }
                variants.extend(more);
            }
        }
    }
    let readings: &[bool] = if any_map && has_single_var_loop(p) { &[false, true] } else { &[false] };
    let mut outs = vec![];
    let mut stats = None;
    for reading in readings {
        for v in &variants {
            let (o, s) = render_checked(p, entry, v, &Opts { single_var_over_map_is_key: *reading, ..Opts::default() });
            if stats.is_none() {
                stats = Some(s);
            }
            if !outs.contains(&o) {
                outs.push(o);
            }
        }
    }
    (outs, stats.unwrap())
}
