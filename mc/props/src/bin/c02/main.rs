//! C02 — expressions follow the documented operators, precedence / associativity, short-circuit
//! and one-level-undefined rules.
//!
//! Families (all executed on the real engine through `Tera::render` / `Tera::render_str`):
//!   P2 / P3   precedence & associativity: every multiset of 2 (quick, thorough) / 3 (thorough)
//!             operator slots, every tree over it, every leaf assignment of a pool, minimal vs
//!             full parentheses, 4 whitespace spellings, literal vs variable leaves, alternative
//!             groupings (discrimination), reference evaluator.
//!   S         short-circuit: erroring operand behind and / or / ternary guards, nested.
//!   U         one level of undefined: access chains x bases x consumers.
//!   T         every operator / filter / test x every (ordered pair of) operand value(s).
//!   L         array / map literals with spreads, comprehensions.
//!   D         `.i` indexing (known finding F-doti).
//!   DOC       the documentation's own examples.

mod expr;
mod refeval;

use expr::families::{self as fam, Case, Slot};
use expr::{Expr, Parens, Prog, Ws};
use mccore::engine::{self, Out};
use mccore::vals::V;
use mccore::{Acc, Family, Run, json};
use refeval::Outcome;
use std::collections::BTreeMap;

fn observed(o: &Out) -> Result<&str, ()> {
    match o {
        Out::Ok(s) => Ok(s.as_str()),
        _ => Err(()),
    }
}

/// Same observation up to the error message: both Ok with the same text, or both errors of the
/// same kind, or both panics.
fn same(a: &Out, b: &Out) -> bool {
    match (a, b) {
        (Out::Ok(x), Out::Ok(y)) => x == y,
        (Out::Err(k1, _), Out::Err(k2, _)) => k1 == k2,
        (Out::Panic(_), Out::Panic(_)) => true,
        _ => false,
    }
}

fn is_syntax_error(o: &Out) -> bool {
    matches!(o, Out::Err(k, _) if k == "SyntaxError")
}

/// Compares the engine with the reference; returns the mismatch class if any.
fn mismatch(want: &Outcome, got: &Out) -> Option<&'static str> {
    if want.accepts(observed(got)) {
        return None;
    }
    Some(match (want, got) {
        (Outcome::Err, Out::Ok(_)) => "ok-for-err",
        (Outcome::Text(_) | Outcome::OneOf(_), Out::Ok(_)) => "wrong-value",
        (_, Out::Panic(_)) => "panic",
        _ => "err-for-ok",
    })
}

/// A set of templates compiled once; sources the engine refuses keep their error.
struct Compiled {
    tera: tera::Tera,
    /// templates that cannot share an instance (each defines the component `c`)
    separate: BTreeMap<String, tera::Tera>,
    failed: BTreeMap<String, Out>,
}

fn compile(srcs: &[(String, String)]) -> Compiled {
    let mut tera = tera::Tera::default();
    if engine::add_templates(&mut tera, srcs).is_ok() {
        return Compiled { tera, separate: BTreeMap::new(), failed: BTreeMap::new() };
    }
    let mut failed = BTreeMap::new();
    let mut separate = BTreeMap::new();
    for (n, s) in srcs {
        let mut t = tera::Tera::default();
        match engine::add_templates(&mut t, &[(n.clone(), s.clone())]) {
            Out::Ok(_) => {
                separate.insert(n.clone(), t);
            }
            o => {
                failed.insert(n.clone(), o);
            }
        }
    }
    Compiled { tera: tera::Tera::default(), separate, failed }
}

impl Compiled {
    fn run(&self, name: &str, ctx: &tera::Context) -> Out {
        if self.failed.is_empty() && self.separate.is_empty() {
            return engine::render(&self.tera, name, ctx);
        }
        if let Some(o) = self.failed.get(name) {
            return o.clone();
        }
        match self.separate.get(name) {
            Some(t) => engine::render(t, name, ctx),
            None => engine::render(&self.tera, name, ctx),
        }
    }
}

// ---------------------------------------------------------------------------------------------
// family P
// ---------------------------------------------------------------------------------------------

/// Token sequences whose alternative groupings are semantically indistinguishable by any leaf
/// assignment (associative operators, or both groupings always fail): allowed to stay
/// undiscriminated. Everything else must be discriminated by at least one leaf assignment.
fn undiscriminable(erased: &str) -> Option<&'static str> {
    const ASSOC: [(&str, &str); 3] = [
        ("a and b and c", "`and` is associative (value and evaluation order are the same)"),
        ("a or b or c", "`or` is associative"),
        ("a ~ b ~ c", "string concatenation is associative"),
    ];
    if let Some((_, why)) = ASSOC.iter().find(|(k, _)| *k == erased) {
        return Some(why);
    }
    // `a in b + c`: `(a in b) + c` adds to a bool, `a in (b + c)` looks into a number — both
    // groupings are errors whatever the leaves are, so the grouping is unobservable.
    for inop in ["in", "not in"] {
        for ar in ["+", "-", "*", "/", "//", "%", "**"] {
            if erased == format!("a {inop} b {ar} c") {
                return Some("both groupings always fail (a container is not a number, a bool is not a number)");
            }
        }
    }
    None
}

/// Does the tree hold a `~` whose right operand is a (parenthesised) unary expression, a
/// `not in` or an `is not` (the shapes of the fixed defect F-tilde)?
fn tilde_before_unary(e: &Expr) -> bool {
    match e {
        Expr::Binary(op, l, r) => {
            (*op == expr::BinOp::Concat
                && matches!(**r, Expr::Unary(..) | Expr::Binary(expr::BinOp::NotIn, ..) | Expr::Test { negated: true, .. }))
                || tilde_before_unary(l)
                || tilde_before_unary(r)
        }
        Expr::Unary(_, x) => tilde_before_unary(x),
        Expr::Test { expr, .. } | Expr::Filter { expr, .. } => tilde_before_unary(expr),
        Expr::Ternary { cond, then, other } => tilde_before_unary(cond) || tilde_before_unary(then) || tilde_before_unary(other),
        Expr::Index { base, .. } => tilde_before_unary(base),
        _ => false,
    }
}

/// Result of one slot multiset: for every pair of alternative groupings (identified up to the
/// choice of filter / test name) whether some leaf assignment made the engine render them
/// differently.
type Discrimination = BTreeMap<(String, String, String), bool>;

fn p_item(slots: &[Slot], thorough: bool, acc: &mut Acc, disc_out: &mut Discrimination) {
    let slot_names: Vec<String> = slots.iter().map(|s| s.name()).collect();
    let combo = slot_names.join(" + ");
    let trees = fam::p_trees(slots);
    let n_leaves = trees[0].1;
    let pool = fam::p_pool(n_leaves, thorough);
    let n_assign = fam::p_assignments(&pool, n_leaves);

    // spellings
    let mut srcs: Vec<(String, String)> = vec![];
    let mut erased: Vec<String> = vec![];
    for (i, (t, _)) in trees.iter().enumerate() {
        let p = Prog::Print(t.clone());
        for (w, ws) in Ws::ALL.iter().enumerate() {
            srcs.push((format!("t{i}m{w}"), p.source(Parens::Minimal, *ws)));
        }
        srcs.push((format!("t{i}f"), p.source(Parens::Full, Ws::One)));
        srcs.push((format!("t{i}ft"), p.source(Parens::Full, Ws::Tight)));
        erased.push(t.print(Parens::Erased, Ws::One));
    }
    let src_of = |name: &str| srcs.iter().find(|(n, _)| n == name).map(|(_, s)| s.clone()).unwrap_or_default();
    let compiled = compile(&srcs);

    // alternative groupings: trees with the same parenthesis-free token sequence
    let mut alts: Vec<Vec<usize>> = vec![vec![]; trees.len()];
    for i in 0..trees.len() {
        for j in 0..trees.len() {
            if i != j && erased[i] == erased[j] {
                alts[i].push(j);
            }
        }
    }
    let mut discriminated: BTreeMap<(usize, usize), bool> = BTreeMap::new();
    for i in 0..trees.len() {
        for &j in &alts[i] {
            if i < j {
                discriminated.insert((i, j), false);
            }
        }
    }
    // the engine's reading of the parenthesis-free text must be the tree whose minimal spelling
    // needs no parentheses: checked through min == full on that tree (its minimal text is the
    // erased text).
    let names: Vec<[String; 6]> = (0..trees.len())
        .map(|i| {
            [
                format!("t{i}m0"),
                format!("t{i}m1"),
                format!("t{i}m2"),
                format!("t{i}m3"),
                format!("t{i}f"),
                format!("t{i}ft"),
            ]
        })
        .collect();

    let progs: Vec<Prog> = trees.iter().map(|(t, _)| Prog::Print(t.clone())).collect();
    let mut fulls: Vec<Out> = Vec::with_capacity(trees.len());
    for a in 0..n_assign {
        let bindings = fam::p_assignment(&pool, n_leaves, a);
        let ctx = fam::context_of(&bindings);
        fulls.clear();
        for (i, (t, _)) in trees.iter().enumerate() {
            let full = compiled.run(&names[i][4], &ctx);
            let case = |which: &str, src: String| {
                json!({
                    "slots": slot_names, "tree_fully_parenthesised": src_of(&names[i][4]),
                    "template": src, "spelling": which, "bindings": fam::describe_bindings(&bindings),
                })
            };
            // metamorphic: every spelling of the tree renders like the fully parenthesised one
            for (k, which) in ["minimal/tight", "minimal/one-space", "minimal/two-spaces", "minimal/newline-tab", "", "full/tight"].iter().enumerate() {
                if k == 4 {
                    continue;
                }
                let o = compiled.run(&names[i][k], &ctx);
                if !same(&o, &full) {
                    let what = if k == 5 || (k != 1 && same(&compiled.run(&names[i][1], &ctx), &full)) { "whitespace" } else { "grouping" };
                    acc.violation(
                        format!("{what}:{combo}"),
                        format!(
                            "`{}` renders {} but the fully parenthesised `{}` renders {}",
                            src_of(&names[i][k]),
                            o.show(),
                            src_of(&names[i][4]),
                            full.show()
                        ),
                        || case(which, src_of(&names[i][k])),
                    );
                }
            }
            if full.is_panic() {
                acc.violation(format!("panic:P:{combo}"), format!("engine panicked: {}", full.show()), || case("full", src_of(&names[i][4])));
            } else if is_syntax_error(&full) {
                acc.violation(
                    if tilde_before_unary(t) { "tilde-rejects-parenthesised-unary".to_string() } else { format!("syntax-error:P:{combo}") },
                    format!("generated in-language program rejected: {}", full.show()),
                    || case("full", src_of(&names[i][4])),
                );
            } else {
                // reference
                let want = refeval::outcome(&progs[i], &bindings);
                if let Some(m) = mismatch(&want, &full) {
                    acc.violation(
                        format!("value:P:{m}:{combo}"),
                        format!("`{}` renders {}, documentation says {}", src_of(&names[i][4]), full.show(), want.show()),
                        || case("full", src_of(&names[i][4])),
                    );
                }
                acc.count(
                    match want {
                        Outcome::Err => "P-reference-err",
                        Outcome::Any => "P-reference-pinned",
                        _ => "P-reference-ok",
                    },
                    1,
                );
            }
            // literal leaves instead of variables (when every leaf value has a literal; for
            // operator triples only over the first three pool values)
            let lit_bound = slots.len() <= 2 || bindings.iter().all(|(_, v)| pool[..3].contains(v));
            if !lit_bound {
            } else if let Some(lits) = bindings.iter().map(|(n, v)| Expr::lit_of(v).map(|e| (n.clone(), e))).collect::<Option<Vec<_>>>() {
                let lt = t.subst(&|n| lits.iter().find(|(k, _)| k == n).map(|(_, e)| e.clone()));
                let p = Prog::Print(lt);
                let empty = tera::Context::new();
                for (par, ws, which) in [(Parens::Minimal, Ws::One, "literal/minimal"), (Parens::Full, Ws::Tight, "literal/full/tight")] {
                    let src = p.source(par, ws);
                    let o = engine::render_str(&compiled.tera, &src, &empty, false);
                    if !same(&o, &full) {
                        acc.violation(
                            format!("literal-leaves:{combo}"),
                            format!("`{src}` renders {} but `{}` with the same values bound renders {}", o.show(), src_of(&names[i][4]), full.show()),
                            || case(which, src.clone()),
                        );
                    }
                    acc.count("P-literal-renders", 1);
                }
            }
            fulls.push(full);
        }
        // discrimination of alternative groupings + case accounting
        for i in 0..trees.len() {
            let mut differs = false;
            for &j in &alts[i] {
                if !same(&fulls[i], &fulls[j]) {
                    differs = true;
                    if i < j {
                        discriminated.insert((i, j), true);
                    }
                }
            }
            acc.case(differs, fulls[i].class());
            if differs && a == 1 && i == 0 {
                acc.sample(|| {
                    json!({
                        "slots": slot_names, "minimal": src_of(&names[i][1]), "full": src_of(&names[i][4]),
                        "other_grouping": src_of(&names[alts[i][0]][4]), "bindings": fam::describe_bindings(&bindings),
                        "renders": fulls[i].show(), "other_renders": fulls[alts[i][0]].show(),
                    })
                });
            }
        }
    }
    for ((i, j), d) in &discriminated {
        let key = (
            fam::p_class_form(&trees[*i].0).print(Parens::Erased, Ws::One),
            fam::p_class_form(&trees[*i].0).print(Parens::Full, Ws::One),
            fam::p_class_form(&trees[*j].0).print(Parens::Full, Ws::One),
        );
        let e = disc_out.entry(key).or_insert(false);
        *e = *e || *d;
    }
    // the minimal printer really is minimal and unambiguous: among the alternative groupings of a
    // token sequence exactly one tree is printed without any parentheses (and never two)
    let mut seen: Vec<&String> = vec![];
    for i in 0..trees.len() {
        if seen.contains(&&erased[i]) {
            continue;
        }
        seen.push(&erased[i]);
        let group: Vec<usize> = (0..trees.len()).filter(|j| erased[*j] == erased[i]).collect();
        let free = group.iter().filter(|j| trees[**j].0.tokens(Parens::Minimal) == trees[**j].0.tokens(Parens::Erased)).count();
        acc.count("P-token-sequences", 1);
        if group.len() == 1 {
            acc.count(if free == 1 { "P-single-tree-sequences-parenthesis-free" } else { "P-single-tree-sequences-parenthesised-by-table-or-engine-limit" }, 1);
        } else if free == 1 {
            acc.count("P-ambiguous-sequences-with-exactly-one-parenthesis-free-tree", 1);
        } else {
            acc.count("P-ambiguous-sequences-OTHER", 1);
            acc.count(&format!("ambiguous token sequence with {free} parenthesis-free trees: {}", erased[i]), 1);
        }
    }
    acc.count("P-trees", trees.len() as u64);
    acc.count("P-trees-with-alternative-grouping", alts.iter().filter(|a| !a.is_empty()).count() as u64);
}

// ---------------------------------------------------------------------------------------------
// generic judge for S / U / T / L
// ---------------------------------------------------------------------------------------------

/// The four alternative spellings of a program, compiled once (the main spelling — minimal
/// parentheses, single spaces — goes through `render_str` for every case).
struct Spellings {
    compiled: Compiled,
    srcs: Vec<(String, String)>,
}

const SPELLINGS: [(Parens, Ws, &str); 4] =
    [(Parens::Full, Ws::One, "full"), (Parens::Minimal, Ws::Tight, "tight"), (Parens::Full, Ws::NlTab, "full-newline-tab"), (Parens::Minimal, Ws::Two, "two-spaces")];

impl Spellings {
    fn new(prog: &Prog) -> Spellings {
        let srcs: Vec<(String, String)> = SPELLINGS.iter().map(|(p, w, n)| (n.to_string(), prog.source(*p, *w))).collect();
        Spellings { compiled: compile(&srcs), srcs }
    }
}

/// Runs one case in five spellings, checks that they agree, then checks the reference.
/// Returns (engine result, reference outcome).
fn judge(tera: &tera::Tera, sp: &Spellings, family: &str, which: &str, case: &Case, nontrivial: Option<bool>, acc: &mut Acc) -> (Out, Outcome) {
    let ctx = case.context();
    let src = case.source();
    let out = engine::render_str(tera, &src, &ctx, false);
    let cj = |src: &str| json!({"id": case.id, "template": src, "bindings": case.describe_bindings()});
    for (name, s2) in &sp.srcs {
        let o2 = sp.compiled.run(name, &ctx);
        if !same(&o2, &out) {
            acc.violation(
                format!("spelling:{family}:{name}:{which}"),
                format!("`{s2}` renders {} but `{src}` renders {}", o2.show(), out.show()),
                || cj(s2),
            );
        }
    }
    let want = refeval::outcome(&case.prog, &case.bindings);
    if out.is_panic() {
        acc.violation(format!("panic:{family}:{which}"), format!("engine panicked: {}", out.show()), || cj(&src));
    } else if is_syntax_error(&out) {
        acc.violation(
            format!("syntax-error:{family}:{which}"),
            format!("generated in-language program rejected: {}", out.show()),
            || cj(&src),
        );
    } else if let Some(m) = mismatch(&want, &out) {
        acc.violation(
            format!("{family}:{m}:{which}"),
            format!("`{src}` renders {}, documentation says {}", out.show(), want.show()),
            || cj(&src),
        );
    }
    let decisive = want != Outcome::Any;
    acc.case(nontrivial.unwrap_or(decisive), out.class());
    acc.count(&format!("{family}-reference-{}", want.class()), 1);
    (out, want)
}

fn kind_name(v: &V) -> String {
    match v {
        V::Safe(_) => "SafeStr".into(),
        other => format!("{:?}", other.kind()),
    }
}

fn main() {
    let mut run = Run::from_env("C02", "exploration");
    let thorough = run.tier.is_thorough();
    run.rule(
        "P: one case per (expression tree over a multiset of operator slots, leaf assignment); each case is rendered in 6 spellings \
         (minimal parentheses x 4 whitespace spellings, fully parenthesised x 2) plus 2 literal-leaf spellings when the values have literals; \
         non-trivial = the tree has another grouping of the same token sequence and this leaf assignment makes the engine render the two \
         groupings differently. S/U/T/L: one case per (program, bindings), rendered in 5 spellings; non-trivial = the reference evaluator is \
         decisive (not a pinned behaviour) — for S additionally the erroring operand is present in the program, for U the access chain meets \
         undefined / none or errors. Cases are distinct by construction of the enumerations.",
    );
    run.assume("reference evaluator written from docs/content/_index.md and MIGRATION.md; behaviours the documentation leaves open are pinned, not asserted (listed in refeval.rs header and in coverage.pinned)");
    run.assume("value formatting (floats as Rust {:?}, arrays `[a, b]`, maps sorted by key, none as empty string) is taken as observed: C02 decides which value an expression has");
    run.assume("associativity is Python's (left; `**` and the ternary right); the ternary is below `or` (not listed in the documented table)");
    run.assume("leaf values are small (integer boundaries belong to C13); nesting up to 3 operators (the depth-40 limit is C06's)");
    run.extra(
        "pinned",
        json!([
            "`~` with operands other than strings/numbers", "`==`/`!=` with undefined or NaN", "left operands of `in` outside {int,string,bool}; int/bool needle in a string",
            "`.`/`[]` on a base that is not a map/array/string", "out-of-range index", "bool used as index key", "truthiness of bytes and NaN",
            "ordering of none/arrays/maps/bytes/undefined-vs-undefined", "`/` of two integers with an integral quotient (doc prints 5, engine 5.0; reported once in DOC)",
            "`//` and `%` with a negative divisor; `**` with a negative integer exponent; division by float zero", "kind tests / `str` on undefined",
            "spreading string/map into an array, array/string into a map", "one-variable iteration over a map; key/value iteration over a non-map; iteration over bytes",
            "`loop.*` inside a comprehension inside a `for`", "undefined passed to a component or stored by `set`", "printed form of none/undefined inside containers, bytes, maps with keys of mixed kinds"
        ]),
    );

    let tera = tera::Tera::default();
    let slots = fam::p_slots();
    let classes = fam::p_classes();
    run.extra("P_operator_slots", json!(slots.iter().map(|s| s.name()).collect::<Vec<_>>()));
    run.extra("P_operator_classes", json!(classes.iter().map(|(n, s)| format!("{n}: {}", s.iter().map(|x| x.name()).collect::<Vec<_>>().join(", "))).collect::<Vec<_>>()));
    // one P work item = one multiset of operator classes: every slot multiset instantiating it
    let p_class_item = |ms: &[usize], acc: &mut Acc| {
        let mut disc = Discrimination::new();
        for sl in fam::p_expand(&classes, ms) {
            p_item(&sl, thorough, acc, &mut disc);
        }
        if !disc.is_empty() {
            acc.count("P-class-multisets-with-alternative-groupings", 1);
            if disc.values().any(|d| *d) {
                acc.count("P-class-multisets-with-a-discriminated-grouping", 1);
            } else {
                acc.count(&format!("no grouping discriminated: {}", ms.iter().map(|c| classes[*c].0.clone()).collect::<Vec<_>>().join(" + ")), 1);
            }
        }
        for ((erased, f1, f2), d) in &disc {
            acc.count("P-grouping-pairs", 1);
            if *d {
                acc.count("P-grouping-pairs-discriminated", 1);
            } else if undiscriminable(erased).is_some() {
                acc.count("P-grouping-pairs-unobservable", 1);
            } else {
                acc.count("P-grouping-pairs-undiscriminated", 1);
                if ms.len() == 2 {
                    acc.count(&format!("undiscriminated: {f1}  ==  {f2}"), 1);
                }
            }
        }
    };
    run.extra(
        "P_leaf_pools",
        json!({
            "up_to_3_leaves": fam::p_pool(3, thorough).iter().map(|v| v.describe()).collect::<Vec<_>>(),
            "4_leaves": fam::p_pool(4, thorough).iter().map(|v| v.describe()).collect::<Vec<_>>(),
            "5_leaves": fam::p_pool(5, thorough).iter().map(|v| v.describe()).collect::<Vec<_>>(),
            "6_or_7_leaves": fam::p_pool(6, thorough).iter().map(|v| v.describe()).collect::<Vec<_>>(),
        }),
    );
    run.extra("whitespace_spellings", json!(["tight (space only where tokens would merge)", "one space", "two spaces", "newline/tab alternating"]));

    // ------------------------------------------------------------------------------------- P2
    let pairs = fam::p_multisets(2);
    run.family(
        Family::new(
            "P2",
            pairs.len() as u64,
            &format!("every multiset of 2 of the {} operator classes ({} slots), every tree (both nestings, every operand position), every leaf assignment of the pool (9^3 for two binary operators)", classes.len(), slots.len()),
        )
        .describe(|i| json!({"operator_classes": pairs[i as usize].iter().map(|c| classes[*c].0.clone()).collect::<Vec<_>>()})),
        |item, acc: &mut Acc| p_class_item(&pairs[item as usize], acc),
    );
    if run.is_supervisor() {
        let total = run.counter("P-grouping-pairs");
        let disc = run.counter("P-grouping-pairs-discriminated");
        let assoc = run.counter("P-grouping-pairs-unobservable");
        let undisc = run.counter("P-grouping-pairs-undiscriminated");
        let (seqs, single_free, single_par, multi_one, multi_other) = (
            run.counter("P-token-sequences"),
            run.counter("P-single-tree-sequences-parenthesis-free"),
            run.counter("P-single-tree-sequences-parenthesised-by-table-or-engine-limit"),
            run.counter("P-ambiguous-sequences-with-exactly-one-parenthesis-free-tree"),
            run.counter("P-ambiguous-sequences-OTHER"),
        );
        run.guard(
            "P2-minimal-printer-is-minimal",
            multi_other == 0 && multi_one > 200 && single_free + single_par + multi_one == seqs,
            format!(
                "{seqs} token sequences: {multi_one} admit several groupings and exactly one of them is printed without parentheses (the documented reading), {multi_other} admit several but not exactly one parenthesis-free tree; \
                 {single_free} admit one tree printed without parentheses, {single_par} admit one tree that the table (`a == (not b)`, `(a is odd) + b`, `(a | f)[0]`) or a stated engine limit (`not (not a)`, `a ~ (-b)`) parenthesises"
            ),
        );
        run.guard(
            "P2-every-grouping-pair-discriminated",
            total > 300 && undisc == 0 && disc + assoc == total,
            format!("{total} pairs of alternative groupings of one token sequence (up to the filter/test name): {disc} discriminated by a leaf assignment, {assoc} unobservable by construction (and/or/~ with itself are associative; `a in b <arith> c` fails in both groupings), {undisc} undiscriminated (listed as `undiscriminated:` counters of family P2)"),
        );
    }

    // ------------------------------------------------------------------------------------- P3 (quick part)
    // The operators that compile to jumps (`and`, `or`, the ternary) are the ones whose code
    // depends on what surrounds them: every operator triple that holds at least two of them runs
    // in the quick tier too (seeded change C02-6: a same-operator `and` / `or` run shared one exit,
    // also across a `not`, a comparison, a `~` or a literal in between - `t and not (f and t)`).
    if !thorough {
        let jumpy: Vec<usize> = classes.iter().enumerate().filter(|(_, (n, _))| matches!(n.as_str(), "or" | "and" | "if-else")).map(|(i, _)| i).collect();
        assert_eq!(jumpy.len(), 3, "operator classes or / and / if-else exist");
        let triples: Vec<Vec<usize>> = fam::p_multisets(3).into_iter().filter(|ms| ms.iter().filter(|c| jumpy.contains(c)).count() >= 2).collect();
        run.family(
            Family::new(
                "P3-jump-operators",
                triples.len() as u64,
                &format!("every multiset of 3 operator classes that holds at least two of or / and / if-else ({} multisets), every tree, every leaf assignment of the pool (the thorough tier runs all triples as P3)", triples.len()),
            )
            .describe(|i| json!({"operator_classes": triples[i as usize].iter().map(|c| classes[*c].0.clone()).collect::<Vec<_>>()}))
            .timeout(180.0),
            |item, acc: &mut Acc| p_class_item(&triples[item as usize], acc),
        );
    }

    // ------------------------------------------------------------------------------------- P3
    if thorough {
        let triples = fam::p_multisets(3);
        let before = (
            run.counter("P-grouping-pairs"),
            run.counter("P-grouping-pairs-discriminated"),
            run.counter("P-grouping-pairs-unobservable"),
            run.counter("P-class-multisets-with-alternative-groupings"),
            run.counter("P-class-multisets-with-a-discriminated-grouping"),
        );
        run.family(
            Family::new(
                "P3",
                triples.len() as u64,
                &format!("every multiset of 3 of the {} operator classes ({} slots), every tree (all nestings: 5 shapes x 6 orders for three binary operators), every leaf assignment of the pool", classes.len(), slots.len()),
            )
            .describe(|i| json!({"operator_classes": triples[i as usize].iter().map(|c| classes[*c].0.clone()).collect::<Vec<_>>()}))
            .timeout(180.0),
            |item, acc: &mut Acc| p_class_item(&triples[item as usize], acc),
        );
        if run.is_supervisor() {
            let total = run.counter("P-grouping-pairs") - before.0;
            let disc = run.counter("P-grouping-pairs-discriminated") - before.1;
            let assoc = run.counter("P-grouping-pairs-unobservable") - before.2;
            let _ = assoc;
            let with_alt = run.counter("P-class-multisets-with-alternative-groupings") - before.3;
            let with_disc = run.counter("P-class-multisets-with-a-discriminated-grouping") - before.4;
            run.guard(
                "P3-groupings-discriminated",
                total > 10_000 && disc * 100 >= total * 60 && with_disc * 100 >= with_alt * 97,
                format!(
                    "{total} pairs of alternative groupings among operator triples, {disc} told apart by a leaf assignment (the rest regroup an associative or always-failing combination); \
                     {with_alt} operator-class triples admit alternative groupings, {with_disc} of them have a discriminated pair (the others are listed as `no grouping discriminated:` counters of family P3)"
                ),
            );
        }
    }

    // ------------------------------------------------------------------------------------- S
    let s_items = fam::s_items(thorough);
    run.extra(
        "S_alphabet",
        json!({
            "shapes": fam::S_SHAPES, "wrappers": fam::S_WRAPPERS,
            "erroring_operands": fam::s_errors().iter().map(|(n, e)| format!("{n}: {}", e.print(Parens::Minimal, Ws::One))).collect::<Vec<_>>(),
            "guard_values_depth1": fam::s_guard_values(1, thorough).len(), "guard_values_depth2": fam::s_guard_values(2, thorough).len(),
            "guard_values_depth3": if thorough { fam::s_guard_values(3, thorough).len() } else { 0 },
        }),
    );
    run.family(
        Family::new(
            "S",
            s_items.len() as u64,
            &format!(
                "7 guard shapes nested to depth {} x 7 erroring operands x 5 wrappers x every guard value (depth 1: common alphabet V; depth 2: {}; depth 3: 6 truthiness representatives)",
                if thorough { 3 } else { 2 },
                if thorough { "V x V" } else { "22 x 22 kind representatives" }
            ),
        ),
        |item, acc: &mut Acc| {
            let it = &s_items[item as usize];
            let which = format!("{}:{}", it.1.iter().map(|s| fam::S_SHAPES[*s]).collect::<Vec<_>>().join("."), fam::S_WRAPPERS[it.3]);
            let mut n = 0u64;
            let mut sp: Option<Spellings> = None;
            fam::s_cases(it, thorough, &mut |case| {
                let sp = sp.get_or_insert_with(|| Spellings::new(&case.prog));
                let (out, want) = judge(&tera, sp, "S", &which, &case, None, acc);
                match want {
                    Outcome::Text(_) | Outcome::OneOf(_) => acc.count("S-operand-skipped", 1),
                    Outcome::Err => acc.count("S-error-reached", 1),
                    Outcome::Any => {}
                }
                if n == 3 && item % 97 == 0 {
                    acc.sample(|| json!({"id": case.id, "template": case.source(), "bindings": case.describe_bindings(), "renders": out.show()}));
                }
                n += 1;
            });
        },
    );
    // each erroring operand alone must be an error (otherwise S proves nothing)
    if run.is_supervisor() {
        let mut bad = vec![];
        for (name, e) in fam::s_errors() {
            let c = Case::new(format!("S/alone/{name}"), Prog::Print(e), vec![("arr".into(), V::Arr(vec![V::I64(1), V::I64(2)]))]);
            let o = engine::render_str(&tera, &c.source(), &c.context(), false);
            if !o.is_err() || is_syntax_error(&o) || refeval::outcome(&c.prog, &c.bindings) != Outcome::Err {
                bad.push(format!("{name}: {}", o.show()));
            }
        }
        run.guard("S-erroring-operands-error", bad.is_empty(), format!("every erroring operand rendered alone is a rendering error; exceptions: {bad:?}"));
        let (sk, re) = (run.counter("S-operand-skipped"), run.counter("S-error-reached"));
        run.guard("S-both-skipped-and-reached", sk > 1000 && re > 1000, format!("erroring operand skipped in {sk} cases, reached in {re}"));
    }

    // ------------------------------------------------------------------------------------- U
    let chains = fam::u_chains();
    run.extra(
        "U_alphabet",
        json!({
            "steps": fam::Step::ALL.iter().map(|s| s.name()).collect::<Vec<_>>(), "chain_lengths": "1..=3", "consumers": fam::U_CONSUMERS,
            "bases_of_a_length_3_chain": fam::u_bases(&chains[chains.len() - 1]).iter().map(|(n, v)| format!("{n}: {}", v.describe())).collect::<Vec<_>>(),
        }),
    );
    run.family(
        Family::new("U", chains.len() as u64, "every access chain of length 1..=3 over 6 step kinds x fitting / cut-at-every-level / unbound bases x 30 consumers"),
        |item, acc: &mut Acc| {
            let chain = &chains[item as usize];
            let ce = fam::u_chain_expr(chain);
            let steps: String = chain.iter().map(|s| s.name()).collect();
            let mut n = 0u64;
            let mut cases: Vec<Case> = vec![];
            fam::u_cases(chain, &mut |case| cases.push(case));
            let mut sps: BTreeMap<String, Spellings> = BTreeMap::new();
            for case in &cases {
                let v = refeval::value(&ce, &case.bindings);
                let meets_undefined = matches!(v, Ok(V::Undef) | Ok(V::None) | Err(refeval::Stop::Err));
                let consumer = case.id.rsplit('/').next().unwrap_or("").to_string();
                let sp = sps.entry(consumer.clone()).or_insert_with(|| Spellings::new(&case.prog));
                let (out, want) = judge(&tera, sp, "U", &format!("{consumer}:{steps}"), case, Some(meets_undefined && refeval::outcome(&case.prog, &case.bindings) != Outcome::Any), acc);
                if meets_undefined {
                    acc.count(
                        match want {
                            Outcome::Err => "U-undefined-is-error",
                            Outcome::Any => "U-undefined-pinned",
                            _ => "U-undefined-tolerated",
                        },
                        1,
                    );
                }
                if n == 40 && item % 50 == 7 {
                    acc.sample(|| json!({"id": case.id, "template": case.source(), "bindings": case.describe_bindings(), "renders": out.show()}));
                }
                n += 1;
            }
        },
    );

    // ------------------------------------------------------------------------------------- T
    let t_vals = fam::t_values();
    let t_un = fam::t_unary_forms();
    let t_bin = fam::t_binary_forms();
    let nv = t_vals.len() as u64;
    run.extra(
        "T_alphabet",
        json!({
            "values": t_vals.iter().map(|v| v.describe()).collect::<Vec<_>>(),
            "one_operand_forms": t_un.iter().map(|(n, _)| n.clone()).collect::<Vec<_>>(),
            "two_operand_forms": t_bin.iter().map(|(n, _)| n.clone()).collect::<Vec<_>>(),
        }),
    );
    run.family(
        Family::new(
            "T",
            t_un.len() as u64 + t_bin.len() as u64 * nv,
            &format!("{} one-operand forms x {nv} values, {} two-operand forms x {nv}^2 ordered value pairs (every kind and encoding of the common alphabet, small magnitudes)", t_un.len(), t_bin.len()),
        ),
        |item, acc: &mut Acc| {
            if (item as usize) < t_un.len() {
                let (name, e) = &t_un[item as usize];
                let sp = Spellings::new(&Prog::Print(e.clone()));
                for (i, a) in t_vals.iter().enumerate() {
                    let case = Case::new(format!("T/{name}/{i}"), Prog::Print(e.clone()), vec![("a".into(), a.clone())]);
                    judge(&tera, &sp, "T", &format!("{name}:{}", kind_name(a)), &case, None, acc);
                }
            } else {
                let k = item as usize - t_un.len();
                let (name, e) = &t_bin[k / t_vals.len()];
                let (i, a) = (k % t_vals.len(), &t_vals[k % t_vals.len()]);
                let sp = Spellings::new(&Prog::Print(e.clone()));
                for (j, b) in t_vals.iter().enumerate() {
                    let case = Case::new(format!("T/{name}/{i},{j}"), Prog::Print(e.clone()), vec![("a".into(), a.clone()), ("b".into(), b.clone())]);
                    let (out, _) = judge(&tera, &sp, "T", &format!("{name}:{}/{}", kind_name(a), kind_name(b)), &case, None, acc);
                    if i == 5 && j == 30 {
                        acc.sample(|| json!({"id": case.id, "template": case.source(), "bindings": case.describe_bindings(), "renders": out.show()}));
                    }
                }
            }
        },
    );

    // ------------------------------------------------------------------------------------- L
    let l_cases = fam::l_cases();
    const L_CHUNK: usize = 16;
    run.family(
        Family::new(
            "L",
            l_cases.len().div_ceil(L_CHUNK) as u64,
            "array literals of 0..=3 entries over 12 entry kinds (items, spreads of arrays / maps / scalars / undefined), map literals of 0..=3 entries over 13 entry kinds (later key wins), comprehensions: 20 iterables x 8 elements x 7 conditions x value and key/value forms, loop.* inside comprehensions",
        ),
        |item, acc: &mut Acc| {
            for case in l_cases.iter().skip(item as usize * L_CHUNK).take(L_CHUNK) {
                let parts: Vec<&str> = case.id.split('/').collect();
                let which = if parts[1] == "comp" { format!("comp:{}", parts[2..].join(":")) } else { format!("{}:{}", parts[1], parts[2..].join(":")) };
                let sp = Spellings::new(&case.prog);
                let (out, _) = judge(&tera, &sp, "L", &which, case, None, acc);
                if item % 60 == 11 {
                    acc.sample(|| json!({"id": case.id, "template": case.source(), "bindings": case.describe_bindings(), "renders": out.show()}));
                }
            }
        },
    );

    // ------------------------------------------------------------------------------------- A
    // "arithmetic ... renders to the value the documentation assigns to it": integers are 128-bit,
    // so the sum, difference and product of two 64-bit operands is always exact. Operands at the
    // 64-bit seam (C13 owns the full numeric alphabet; this is the expression-level spot check that
    // an i64 fast path in `+ - *` cannot hide from - seeded change C02-7).
    let seam: Vec<i64> = vec![i64::MAX, i64::MAX - 1, i64::MIN + 1, 1 << 32, (1 << 31) - 1, 3_037_000_500, -3_037_000_500, 1, -1, 2, 0];
    run.family(
        Family::new("A", seam.len() as u64, &format!("all ordered pairs of {} integers at the 64-bit seam through + - *, operands as literals and as context values: the exact 128-bit result", seam.len())),
        |item, acc: &mut Acc| {
            let a = seam[item as usize];
            let lit = |x: i64| if x < 0 { format!("(-{})", x.unsigned_abs()) } else { x.to_string() };
            for &b in &seam {
                for (op, want) in [("+", (a as i128) + (b as i128)), ("-", (a as i128) - (b as i128)), ("*", (a as i128) * (b as i128))] {
                    let ctx = mccore::vals::context(&[("a", &V::I64(a)), ("b", &V::I64(b))]);
                    for src in [format!("{{{{ {} {op} {} }}}}", lit(a), lit(b)), format!("{{{{ a {op} b }}}}"), format!("{{{{ a {op} {} }}}}", lit(b))] {
                        let out = engine::render_str(&tera, &src, &ctx, false);
                        if out.ok() != Some(want.to_string().as_str()) {
                            acc.violation(
                                format!("A:wrong-value:{op}"),
                                format!("`{src}` with a={a}, b={b} renders {}, the exact result is {want}", out.show()),
                                || json!({"template": src, "a": a, "b": b, "expected": want.to_string()}),
                            );
                        }
                        acc.case(want > i64::MAX as i128 || want < i64::MIN as i128, out.class());
                    }
                }
            }
        },
    );

    // ------------------------------------------------------------------------------------- STR
    // String literals: what is written between the quotes, with the escapes \" \' \/ \\ \n \t \r
    // replaced (the lexer keeps literals without a backslash as a borrowed slice and builds an owned
    // string for the others: two routes). Every sequence of <= 3 pieces, both quote styles; the value
    // is observed printed, measured, compared with the same text from the context, and as a map key.
    {
        // (spelling inside the literal, the characters it stands for)
        let pieces: Vec<(&str, &str)> = vec![
            ("a", "a"), ("é", "é"), (" ", " "), ("\\\"", "\""), ("\\'", "'"), ("\\/", "/"), ("\\\\", "\\"), ("\\n", "\n"), ("\\t", "\t"), ("\\r", "\r"),
            ("{{", "{{"), ("%}", "%}"),
        ];
        let bad: Vec<&str> = vec!["\\x", "\\u", "\\0", "\\ ", "\\é", "\\N"];
        let np = pieces.len() as u64;
        let total: u64 = 1 + np + np * np + np * np * np;
        run.family(
            Family::new(
                "STR",
                np + 1,
                &format!("every sequence of <= 3 of {} literal pieces (plain characters, the seven escapes, delimiter look-alikes) in double and in single quotes: printed, `| length`, `==` the same text from the context, as a map-literal key looked up again ({total} literals x 2 quote styles x 4 observations); {} unknown escapes and a trailing backslash must be refused", pieces.len(), bad.len()),
            ),
            |item, acc: &mut Acc| {
                // item = first piece (np = the empty literal and the refusals)
                let mut seqs: Vec<Vec<usize>> = vec![];
                if item == np {
                    seqs.push(vec![]);
                    for b in &bad {
                        for q in ['"', '\''] {
                            for src in [format!("{{{{ {q}a{b}{q} }}}}"), format!("{{{{ {q}{b}{q} }}}}")] {
                                let out = engine::render_str(&tera, &src, &tera::Context::new(), false);
                                if !is_syntax_error(&out) {
                                    acc.violation("STR:unknown-escape-accepted", format!("`{src}` gave {}, an unknown escape must be refused", out.show()), || json!({"template": src}));
                                }
                                acc.case(true, out.class());
                            }
                        }
                    }
                    for src in ["{{ \"a\\\" }}", "{{ 'a\\' }}"] {
                        let out = engine::render_str(&tera, src, &tera::Context::new(), false);
                        if !is_syntax_error(&out) {
                            acc.violation("STR:unterminated-accepted", format!("`{src}` gave {}, the literal never closes", out.show()), || json!({"template": src}));
                        }
                        acc.case(true, out.class());
                    }
                } else {
                    let a = item as usize;
                    seqs.push(vec![a]);
                    for b in 0..pieces.len() {
                        seqs.push(vec![a, b]);
                        for c in 0..pieces.len() {
                            seqs.push(vec![a, b, c]);
                        }
                    }
                }
                for seq in seqs {
                    let want: String = seq.iter().map(|&i| pieces[i].1).collect();
                    for q in ['"', '\''] {
                        // the other quote character may stand unescaped inside; the same one needs its escape
                        let spelled: String = seq.iter().map(|&i| pieces[i].0).collect();
                        let lit = format!("{q}{spelled}{q}");
                        let ctx = mccore::vals::context(&[("w", &V::s(&want))]);
                        let checks: [(String, String); 4] = [
                            (format!("{{{{ {lit} }}}}"), want.clone()),
                            (format!("{{{{ {lit} | length }}}}"), want.chars().count().to_string()),
                            (format!("{{{{ {lit} == w }}}}|{{{{ w == {lit} }}}}"), "true|true".to_string()),
                            (format!("{{{{ {{{lit}: 1, \"zz\": 2}}[w] }}}}"), "1".to_string()),
                        ];
                        for (src, expect) in checks {
                            let out = engine::render_str(&tera, &src, &ctx, false);
                            if out.ok() != Some(expect.as_str()) {
                                acc.violation(
                                    format!("STR:wrong-value:{}", if src.contains("length") { "length" } else if src.contains("==") { "eq" } else if src.contains("zz") { "map-key" } else { "print" }),
                                    format!("`{src}` renders {}, expected {expect:?} (the literal stands for {want:?})", out.show()),
                                    || json!({"template": src, "literal_value": want}),
                                );
                            }
                            acc.case(spelled.contains('\\'), out.class());
                        }
                    }
                }
            },
        );
    }

    // ------------------------------------------------------------------------------------- D
    let doti = fam::doti_cases();
    run.family(Family::new("D", 1, "`.i` indexing of arrays: 5 programs"), |_item, acc: &mut Acc| {
        for case in &doti {
            let ctx = case.context();
            let src = case.prog.source(Parens::Minimal, Ws::Tight);
            let out = engine::render_str(&tera, &src, &ctx, false);
            let want = refeval::outcome(&case.prog, &case.bindings);
            if is_syntax_error(&out) {
                acc.violation(
                    "dot-integer-index-rejected",
                    format!("`{src}` is a syntax error ({}); the documentation says members of an array are accessed with the `.i` notation: expected {}", out.show(), want.show()),
                    || json!({"id": case.id, "template": src, "bindings": case.describe_bindings()}),
                );
            } else if let Some(m) = mismatch(&want, &out) {
                acc.violation(format!("dot-integer-index:{m}"), format!("`{src}` renders {}, documentation says {}", out.show(), want.show()), || {
                    json!({"id": case.id, "template": src, "bindings": case.describe_bindings()})
                });
            }
            acc.case(true, out.class());
        }
    });

    // ------------------------------------------------------------------------------------- REP
    // The parser's nesting limit is about NESTING: the same shallow expression written N times side
    // by side in one template (as N prints, as N elements of one array literal, as N operands of
    // one `~`) is as well-formed as one of them, for every N. (Seeded change C02-14 never gave the
    // depth slot of a parsed ternary back: the 39th ternary of a template was "too complex".)
    {
        // (name, one expression, its printed value)
        let units: [(&str, &str, &str); 8] = [
            ("ternary", "1 if t else 0", "1"),
            ("ternary-chain", "1 if f else 2 if t else 3", "2"),
            ("parenthesised", "((1 + 2) * 3)", "9"),
            ("and-or-not", "t and not f or f", "true"),
            ("filter-with-argument", "u | default(value=4)", "4"),
            ("test", "3 is odd", "true"),
            ("comprehension", "[x for x in [1] if t][0]", "1"),
            ("subscript-and-slice", "[5, 6][1:][0]", "6"),
        ];
        const NS: [usize; 9] = [1, 2, 37, 38, 39, 40, 41, 64, 100];
        let tera_rep = tera::Tera::default();
        run.family(
            Family::new("REP", (units.len() * NS.len()) as u64, &format!("{} shallow expressions x N in {NS:?} repetitions side by side in one template, as N prints, as the N elements of one array literal and as the N operands of one `~`: rendered like one of them, N times", units.len())),
            |item, acc: &mut Acc| {
                let (name, unit, val) = units[item as usize / NS.len()];
                let n = NS[item as usize % NS.len()];
                let ctx = mccore::vals::context(&[("t", &V::Bool(true)), ("f", &V::Bool(false))]);
                let prints: String = (0..n).map(|_| format!("{{{{ {unit} }}}}")).collect();
                let array = format!("{{{{ [{}] | join(sep=\"\") }}}}", vec![format!("({unit})"); n].join(", "));
                let concat = format!("{{{{ {} }}}}", vec![format!("({unit})"); n].join(" ~ "));
                let want = val.repeat(n);
                for (shape, src) in [("prints", prints), ("array-elements", array), ("concat-operands", concat)] {
                    let out = engine::render_str(&tera_rep, &src, &ctx, false);
                    if out.ok() != Some(want.as_str()) {
                        acc.violation(
                            format!("REP:{name}:{shape}"),
                            format!("{n} x `{unit}` as {shape} gave {}, expected {:?} repeated {n} times", out.show(), val),
                            || json!({"template": src, "context": "t = true, f = false, u unbound", "repetitions": n}),
                        );
                    }
                    acc.case(n > 1, out.class());
                }
            },
        );
    }

    // ------------------------------------------------------------------------------------- DOC
    let docs = fam::doc_examples();
    run.family(Family::new("DOC", 1, &format!("{} examples quoted from docs/content/_index.md and MIGRATION.md with the outcome stated there", docs.len())), |_item, acc: &mut Acc| {
        for (id, src, bindings, want) in &docs {
            let ctx = fam::context_of(bindings);
            let out = engine::render_str(&tera, src, &ctx, false);
            let ok = match (want, &out) {
                (Some(w), Out::Ok(s)) => s == w,
                (None, Out::Err(k, _)) => k != "SyntaxError",
                _ => false,
            };
            if !ok {
                acc.violation(
                    format!("doc-example:{id}"),
                    format!("`{src}` renders {}, the documentation says {}", out.show(), match want { Some(w) => format!("{w:?}"), None => "an error".into() }),
                    || json!({"id": id, "template": src, "bindings": fam::describe_bindings(bindings)}),
                );
            }
            acc.case(true, out.class());
        }
    });

    if run.is_supervisor() {
        for f in ["P2", "S", "U", "T", "L"] {
            let (ok, err) = (run.outcome(f, "ok"), run.outcome(f, "err"));
            run.guard(&format!("{f}-both-outcomes"), ok > 0 && err > 0, format!("ok={ok} err={err}"));
        }
        for f in ["S", "U", "T", "L"] {
            let (d_ok, d_err, pinned) = (
                run.counter(&format!("{f}-reference-ok")),
                run.counter(&format!("{f}-reference-err")),
                run.counter(&format!("{f}-reference-pinned")),
            );
            run.guard(
                &format!("{f}-reference-mostly-decisive"),
                d_ok > 0 && d_err > 0 && (d_ok + d_err) * 2 > pinned,
                format!("reference says Ok in {d_ok} cases, Err in {d_err}, leaves {pinned} open (pinned)"),
            );
        }
        let (tol, err, pin) = (run.counter("U-undefined-tolerated"), run.counter("U-undefined-is-error"), run.counter("U-undefined-pinned"));
        run.guard("U-undefined-both-ways", tol > 1000 && err > 1000, format!("chain met undefined/none: documented as tolerated in {tol} cases, as an error in {err}, pinned in {pin}"));
    }
    run.finish();
}
