//! C02 — expression AST, printers and program-family enumerators.
//!
//! Self-contained (mccore, tera, serde_json, std only) so that other checks can include it with
//! `#[path = "../c02/expr.rs"] mod expr;` (together with `refeval.rs`, which expects this module at
//! `crate::expr`).
//!
//! * [`Expr`] / [`Prog`]: the harness's own AST (never the engine's).
//! * Printers: [`Parens::Minimal`] puts exactly the parentheses the DOCUMENTED precedence table
//!   (docs/content/_index.md "Operator precedence", lowest to highest: `or`, `and`, `not`,
//!   `in`/`not in`/`is`/`is not`, comparisons, `+ -`, `* / // % ~`, `**`, `|`, unary `-`,
//!   `. [] ()`) and Python associativity (left; `**` and the ternary right) require, plus the ones
//!   the engine's *stated* limits require (no two consecutive unary operators, no bare unary
//!   operator directly after `~`); [`Parens::Full`] parenthesises every operator node;
//!   [`Parens::Erased`] prints no grouping parentheses at all (ambiguous text, used as the key that
//!   identifies the alternative groupings of one token sequence). [`Ws`] are the four whitespace
//!   spellings.
//! * [`families`]: exhaustive enumerators of the five program families of DESIGN.md §4 C02
//!   (P, S, U, T, L) plus two tiny ones (`.i` indexing, documentation examples); every enumerator
//!   yields [`families::Case`]s = (program, context bindings); `Case::source()` is the template.

#![allow(dead_code)]

use mccore::vals::{K, V};

// ------------------------------------------------------------------------------------------
// operators and the documented precedence levels
// ------------------------------------------------------------------------------------------

pub const L_TERNARY: u8 = 0;
pub const L_OR: u8 = 1;
pub const L_AND: u8 = 2;
pub const L_NOT: u8 = 3;
pub const L_IN_IS: u8 = 4;
pub const L_CMP: u8 = 5;
pub const L_ADD: u8 = 6;
pub const L_MUL: u8 = 7;
pub const L_POW: u8 = 8;
pub const L_PIPE: u8 = 9;
pub const L_NEG: u8 = 10;
pub const L_POSTFIX: u8 = 11;
pub const L_ATOM: u8 = 12;

#[derive(Clone, Copy, Debug, PartialEq, Eq, PartialOrd, Ord, Hash)]
pub enum BinOp {
    Or,
    And,
    In,
    NotIn,
    Eq,
    Ne,
    Lt,
    Le,
    Gt,
    Ge,
    Add,
    Sub,
    Mul,
    Div,
    FloorDiv,
    Mod,
    Concat,
    Pow,
}

impl BinOp {
    pub const ALL: [BinOp; 18] = [
        BinOp::Or,
        BinOp::And,
        BinOp::In,
        BinOp::NotIn,
        BinOp::Eq,
        BinOp::Ne,
        BinOp::Lt,
        BinOp::Le,
        BinOp::Gt,
        BinOp::Ge,
        BinOp::Add,
        BinOp::Sub,
        BinOp::Mul,
        BinOp::Div,
        BinOp::FloorDiv,
        BinOp::Mod,
        BinOp::Concat,
        BinOp::Pow,
    ];

    /// The operator's tokens (`not in` is two tokens).
    pub fn toks(self) -> &'static [&'static str] {
        match self {
            BinOp::Or => &["or"],
            BinOp::And => &["and"],
            BinOp::In => &["in"],
            BinOp::NotIn => &["not", "in"],
            BinOp::Eq => &["=="],
            BinOp::Ne => &["!="],
            BinOp::Lt => &["<"],
            BinOp::Le => &["<="],
            BinOp::Gt => &[">"],
            BinOp::Ge => &[">="],
            BinOp::Add => &["+"],
            BinOp::Sub => &["-"],
            BinOp::Mul => &["*"],
            BinOp::Div => &["/"],
            BinOp::FloorDiv => &["//"],
            BinOp::Mod => &["%"],
            BinOp::Concat => &["~"],
            BinOp::Pow => &["**"],
        }
    }

    pub fn name(self) -> String {
        self.toks().join(" ")
    }

    /// Level in the documented table.
    pub fn level(self) -> u8 {
        match self {
            BinOp::Or => L_OR,
            BinOp::And => L_AND,
            BinOp::In | BinOp::NotIn => L_IN_IS,
            BinOp::Eq | BinOp::Ne | BinOp::Lt | BinOp::Le | BinOp::Gt | BinOp::Ge => L_CMP,
            BinOp::Add | BinOp::Sub => L_ADD,
            BinOp::Mul | BinOp::Div | BinOp::FloorDiv | BinOp::Mod | BinOp::Concat => L_MUL,
            BinOp::Pow => L_POW,
        }
    }

    pub fn right_assoc(self) -> bool {
        self == BinOp::Pow
    }
}

#[derive(Clone, Copy, Debug, PartialEq, Eq, PartialOrd, Ord, Hash)]
pub enum UnOp {
    Not,
    Neg,
}

impl UnOp {
    pub fn tok(self) -> &'static str {
        match self {
            UnOp::Not => "not",
            UnOp::Neg => "-",
        }
    }
    pub fn level(self) -> u8 {
        match self {
            UnOp::Not => L_NOT,
            UnOp::Neg => L_NEG,
        }
    }
}

// ------------------------------------------------------------------------------------------
// AST
// ------------------------------------------------------------------------------------------

#[derive(Clone, Debug, PartialEq)]
pub enum Entry {
    Item(Expr),
    Spread(Expr),
}

#[derive(Clone, Debug, PartialEq)]
pub enum MapEntry {
    /// key literal (string, non-negative integer or bool) and value
    Kv(K, Expr),
    Spread(Expr),
}

#[derive(Clone, Debug, PartialEq)]
pub enum Expr {
    /// scalar literal: none, bool, non-negative i64, finite non-negative f64 (plain decimal), string
    Lit(V),
    Var(String),
    /// `base.name` / `base?.name` — the engine only accepts it on identifier chains
    Attr {
        base: Box<Expr>,
        name: String,
        opt: bool,
    },
    /// `base[key]` / `base?[key]` (`?[` only on identifier chains)
    Index {
        base: Box<Expr>,
        key: Box<Expr>,
        opt: bool,
    },
    /// `base[start:end:step]`
    Slice {
        base: Box<Expr>,
        start: Option<Box<Expr>>,
        end: Option<Box<Expr>>,
        step: Option<Box<Expr>>,
        opt: bool,
    },
    Unary(UnOp, Box<Expr>),
    Binary(BinOp, Box<Expr>, Box<Expr>),
    /// `expr is [not] name(kwargs)`
    Test {
        expr: Box<Expr>,
        name: String,
        negated: bool,
        kwargs: Vec<(String, Expr)>,
    },
    /// `expr | name(kwargs)`
    Filter {
        expr: Box<Expr>,
        name: String,
        kwargs: Vec<(String, Expr)>,
    },
    /// `then if cond else other`
    Ternary {
        cond: Box<Expr>,
        then: Box<Expr>,
        other: Box<Expr>,
    },
    /// `name(kwargs)`
    Call {
        name: String,
        kwargs: Vec<(String, Expr)>,
    },
    Array(Vec<Entry>),
    Map(Vec<MapEntry>),
    /// `[elem for [key,] var in iter [if cond]]`
    Comp {
        elem: Box<Expr>,
        key: Option<String>,
        var: String,
        iter: Box<Expr>,
        cond: Option<Box<Expr>>,
    },
}

#[derive(Clone, Copy, Debug, PartialEq, Eq)]
pub enum Parens {
    Minimal,
    Full,
    Erased,
}

#[derive(Clone, Copy, Debug, PartialEq, Eq)]
pub enum Ws {
    /// no whitespace except where two tokens would otherwise merge
    Tight,
    /// one space between any two tokens
    One,
    /// two spaces
    Two,
    /// alternating newline / tab
    NlTab,
}

impl Ws {
    pub const ALL: [Ws; 4] = [Ws::Tight, Ws::One, Ws::Two, Ws::NlTab];
    pub fn name(self) -> &'static str {
        match self {
            Ws::Tight => "tight",
            Ws::One => "one",
            Ws::Two => "two",
            Ws::NlTab => "nltab",
        }
    }
}

// constructors -----------------------------------------------------------------------------

impl Expr {
    pub fn var(n: &str) -> Expr {
        Expr::Var(n.to_string())
    }
    pub fn int(i: i64) -> Expr {
        assert!(i >= 0, "negative literals are spelled with unary minus");
        Expr::Lit(V::I64(i))
    }
    pub fn float(f: f64) -> Expr {
        assert!(f.is_finite() && f >= 0.0 && !f.is_sign_negative());
        Expr::Lit(V::F64(f))
    }
    pub fn str(s: &str) -> Expr {
        Expr::Lit(V::Str(s.to_string()))
    }
    pub fn bool(b: bool) -> Expr {
        Expr::Lit(V::Bool(b))
    }
    pub fn none() -> Expr {
        Expr::Lit(V::None)
    }
    pub fn bin(op: BinOp, l: Expr, r: Expr) -> Expr {
        Expr::Binary(op, Box::new(l), Box::new(r))
    }
    pub fn un(op: UnOp, e: Expr) -> Expr {
        Expr::Unary(op, Box::new(e))
    }
    pub fn test(e: Expr, name: &str, negated: bool) -> Expr {
        Expr::Test { expr: Box::new(e), name: name.to_string(), negated, kwargs: vec![] }
    }
    pub fn filter(e: Expr, name: &str, kwargs: Vec<(&str, Expr)>) -> Expr {
        Expr::Filter {
            expr: Box::new(e),
            name: name.to_string(),
            kwargs: kwargs.into_iter().map(|(k, v)| (k.to_string(), v)).collect(),
        }
    }
    pub fn tern(then: Expr, cond: Expr, other: Expr) -> Expr {
        Expr::Ternary { cond: Box::new(cond), then: Box::new(then), other: Box::new(other) }
    }
    pub fn call(name: &str, kwargs: Vec<(&str, Expr)>) -> Expr {
        Expr::Call {
            name: name.to_string(),
            kwargs: kwargs.into_iter().map(|(k, v)| (k.to_string(), v)).collect(),
        }
    }
    pub fn attr(base: Expr, name: &str, opt: bool) -> Expr {
        Expr::Attr { base: Box::new(base), name: name.to_string(), opt }
    }
    pub fn idx(base: Expr, key: Expr, opt: bool) -> Expr {
        Expr::Index { base: Box::new(base), key: Box::new(key), opt }
    }
    pub fn slice(base: Expr, start: Option<Expr>, end: Option<Expr>, step: Option<Expr>) -> Expr {
        Expr::Slice {
            base: Box::new(base),
            start: start.map(Box::new),
            end: end.map(Box::new),
            step: step.map(Box::new),
            opt: false,
        }
    }
    pub fn array(items: Vec<Expr>) -> Expr {
        Expr::Array(items.into_iter().map(Entry::Item).collect())
    }

    /// A literal expression denoting `v`, when the language can spell it without an operator
    /// (no negative numbers, no undefined / bytes / safe strings / non-finite floats).
    pub fn lit_of(v: &V) -> Option<Expr> {
        Some(match v {
            V::None | V::Bool(_) => Expr::Lit(v.clone()),
            V::I64(i) if *i >= 0 => Expr::Lit(v.clone()),
            V::F64(f) if f.is_finite() && !f.is_sign_negative() && plain_float(*f) => Expr::Lit(v.clone()),
            V::Str(s) if s.chars().all(|c| c != '\\' && c != '\n' && c != '\r' && c != '\t') => {
                Expr::Lit(v.clone())
            }
            V::Arr(xs) => Expr::Array(
                xs.iter().map(|x| Expr::lit_of(x).map(Entry::Item)).collect::<Option<Vec<_>>>()?,
            ),
            V::Map(kv) => {
                let mut out = vec![];
                for (k, x) in kv {
                    match k {
                        K::Str(s) if !s.contains('\\') && !s.contains('"') => {}
                        K::I64(i) if *i >= 0 => {}
                        K::Bool(_) => {}
                        _ => return None,
                    }
                    out.push(MapEntry::Kv(k.clone(), Expr::lit_of(x)?));
                }
                Expr::Map(out)
            }
            _ => return None,
        })
    }

    /// Level of the node in the documented table (atoms and access chains are above everything).
    pub fn level(&self) -> u8 {
        match self {
            Expr::Lit(_) | Expr::Var(_) | Expr::Call { .. } | Expr::Array(_) | Expr::Map(_) | Expr::Comp { .. } => {
                L_ATOM
            }
            Expr::Attr { .. } | Expr::Index { .. } | Expr::Slice { .. } => L_POSTFIX,
            Expr::Unary(op, _) => op.level(),
            Expr::Binary(op, ..) => op.level(),
            Expr::Test { .. } => L_IN_IS,
            Expr::Filter { .. } => L_PIPE,
            Expr::Ternary { .. } => L_TERNARY,
        }
    }

    /// identifier chain: `ident (.f | ?.f | [k] | ?[k] | [a:b])*`
    pub fn is_chain(&self) -> bool {
        match self {
            Expr::Var(_) => true,
            Expr::Attr { base, .. } | Expr::Index { base, .. } | Expr::Slice { base, .. } => base.is_chain(),
            _ => false,
        }
    }

    /// Replaces variables by other expressions (used for the literal-leaf spellings).
    pub fn subst(&self, f: &dyn Fn(&str) -> Option<Expr>) -> Expr {
        let b = |e: &Expr| Box::new(e.subst(f));
        let kw = |k: &Vec<(String, Expr)>| k.iter().map(|(n, e)| (n.clone(), e.subst(f))).collect::<Vec<_>>();
        match self {
            Expr::Lit(_) => self.clone(),
            Expr::Var(n) => f(n).unwrap_or_else(|| self.clone()),
            Expr::Attr { base, name, opt } => Expr::Attr { base: b(base), name: name.clone(), opt: *opt },
            Expr::Index { base, key, opt } => Expr::Index { base: b(base), key: b(key), opt: *opt },
            Expr::Slice { base, start, end, step, opt } => Expr::Slice {
                base: b(base),
                start: start.as_ref().map(|e| b(e)),
                end: end.as_ref().map(|e| b(e)),
                step: step.as_ref().map(|e| b(e)),
                opt: *opt,
            },
            Expr::Unary(op, e) => Expr::Unary(*op, b(e)),
            Expr::Binary(op, l, r) => Expr::Binary(*op, b(l), b(r)),
            Expr::Test { expr, name, negated, kwargs } => {
                Expr::Test { expr: b(expr), name: name.clone(), negated: *negated, kwargs: kw(kwargs) }
            }
            Expr::Filter { expr, name, kwargs } => Expr::Filter { expr: b(expr), name: name.clone(), kwargs: kw(kwargs) },
            Expr::Ternary { cond, then, other } => Expr::Ternary { cond: b(cond), then: b(then), other: b(other) },
            Expr::Call { name, kwargs } => Expr::Call { name: name.clone(), kwargs: kw(kwargs) },
            Expr::Array(items) => Expr::Array(
                items
                    .iter()
                    .map(|e| match e {
                        Entry::Item(x) => Entry::Item(x.subst(f)),
                        Entry::Spread(x) => Entry::Spread(x.subst(f)),
                    })
                    .collect(),
            ),
            Expr::Map(items) => Expr::Map(
                items
                    .iter()
                    .map(|e| match e {
                        MapEntry::Kv(k, x) => MapEntry::Kv(k.clone(), x.subst(f)),
                        MapEntry::Spread(x) => MapEntry::Spread(x.subst(f)),
                    })
                    .collect(),
            ),
            Expr::Comp { elem, key, var, iter, cond } => Expr::Comp {
                elem: b(elem),
                key: key.clone(),
                var: var.clone(),
                iter: b(iter),
                cond: cond.as_ref().map(|e| b(e)),
            },
        }
    }
}

fn plain_float(f: f64) -> bool {
    let s = format!("{f:?}");
    s.contains('.') && !s.contains('e') && !s.contains('E')
}

// ------------------------------------------------------------------------------------------
// printers
// ------------------------------------------------------------------------------------------

fn quote(s: &str) -> String {
    let mut out = String::with_capacity(s.len() + 2);
    out.push('"');
    for c in s.chars() {
        match c {
            '"' => out.push_str("\\\""),
            '\\' => out.push_str("\\\\"),
            '\n' => out.push_str("\\n"),
            '\t' => out.push_str("\\t"),
            '\r' => out.push_str("\\r"),
            c => out.push(c),
        }
    }
    out.push('"');
    out
}

fn lit_token(v: &V) -> String {
    match v {
        V::None => "none".into(),
        V::Bool(b) => format!("{b}"),
        V::I64(i) => format!("{i}"),
        V::F64(f) => format!("{f:?}"),
        V::Str(s) => quote(s),
        other => panic!("not a scalar literal: {other:?}"),
    }
}

fn key_token(k: &K) -> String {
    match k {
        K::Str(s) => quote(s),
        K::I64(i) => format!("{i}"),
        K::Bool(b) => format!("{b}"),
        other => panic!("not a literal key: {other:?}"),
    }
}

fn starts_with_unary(toks: &[String]) -> bool {
    matches!(toks.first().map(|s| s.as_str()), Some("-") | Some("not"))
}

impl Expr {
    /// Whether the node needs no parentheses wherever it stands (fully parenthesised spelling).
    fn is_atomic(&self) -> bool {
        match self {
            Expr::Lit(_) | Expr::Var(_) | Expr::Call { .. } | Expr::Array(_) | Expr::Map(_) | Expr::Comp { .. } => {
                true
            }
            Expr::Attr { .. } => true,
            Expr::Index { base, .. } | Expr::Slice { base, .. } => base.is_chain(),
            _ => false,
        }
    }

    pub fn tokens(&self, p: Parens) -> Vec<String> {
        let mut out = vec![];
        self.emit(p, &mut out);
        out
    }

    /// `need` = the table (or a stated engine limit) requires parentheses here.
    fn emit_child(&self, p: Parens, need: bool, out: &mut Vec<String>) {
        let wrap = match p {
            Parens::Minimal => need,
            Parens::Full => !self.is_atomic(),
            Parens::Erased => false,
        };
        if wrap {
            out.push("(".into());
            self.emit(p, out);
            out.push(")".into());
        } else {
            self.emit(p, out);
        }
    }

    /// Like `emit_child`, and additionally wraps when the operand would begin with a unary
    /// operator token (engine limits: "`-` and `not` cannot be used consecutively", "not allowed
    /// after `~`").
    fn emit_child_no_leading_unary(&self, p: Parens, need: bool, out: &mut Vec<String>) {
        if p == Parens::Minimal && !need {
            let toks = self.tokens(p);
            if starts_with_unary(&toks) {
                out.push("(".into());
                out.extend(toks);
                out.push(")".into());
            } else {
                out.extend(toks);
            }
        } else {
            self.emit_child(p, need, out);
        }
    }

    /// An expression in a position where the grammar starts afresh (inside brackets, kwargs,
    /// array items, map values): never needs parentheses.
    fn emit_top(&self, p: Parens, out: &mut Vec<String>) {
        self.emit(p, out);
    }

    fn emit_kwargs(kwargs: &[(String, Expr)], p: Parens, out: &mut Vec<String>) {
        out.push("(".into());
        for (i, (k, v)) in kwargs.iter().enumerate() {
            if i > 0 {
                out.push(",".into());
            }
            out.push(k.clone());
            out.push("=".into());
            v.emit_top(p, out);
        }
        out.push(")".into());
    }

    fn emit(&self, p: Parens, out: &mut Vec<String>) {
        match self {
            Expr::Lit(v) => out.push(lit_token(v)),
            Expr::Var(n) => out.push(n.clone()),
            Expr::Attr { base, name, opt } => {
                // only legal on identifier chains: never parenthesised
                base.emit(p, out);
                out.push(if *opt { "?." } else { "." }.into());
                out.push(name.clone());
            }
            Expr::Index { base, key, opt } => {
                if base.is_chain() {
                    base.emit(p, out);
                } else {
                    base.emit_child(p, base.level() < L_POSTFIX, out);
                }
                out.push(if *opt { "?[" } else { "[" }.into());
                key.emit_top(p, out);
                out.push("]".into());
            }
            Expr::Slice { base, start, end, step, opt } => {
                if base.is_chain() {
                    base.emit(p, out);
                } else {
                    base.emit_child(p, base.level() < L_POSTFIX, out);
                }
                out.push(if *opt { "?[" } else { "[" }.into());
                if let Some(s) = start {
                    s.emit_top(p, out);
                }
                out.push(":".into());
                if let Some(e) = end {
                    e.emit_top(p, out);
                }
                if let Some(s) = step {
                    out.push(":".into());
                    s.emit_top(p, out);
                }
                out.push("]".into());
            }
            Expr::Unary(op, e) => {
                out.push(op.tok().into());
                e.emit_child_no_leading_unary(p, e.level() < op.level(), out);
            }
            Expr::Binary(op, l, r) => {
                let lv = op.level();
                let (need_l, need_r) = if op.right_assoc() {
                    (l.level() <= lv, r.level() < lv)
                } else {
                    (l.level() < lv, r.level() <= lv)
                };
                l.emit_child(p, need_l, out);
                for t in op.toks() {
                    out.push((*t).into());
                }
                if *op == BinOp::Concat {
                    r.emit_child_no_leading_unary(p, need_r, out);
                } else {
                    r.emit_child(p, need_r, out);
                }
            }
            Expr::Test { expr, name, negated, kwargs } => {
                expr.emit_child(p, expr.level() < L_IN_IS, out);
                out.push("is".into());
                if *negated {
                    out.push("not".into());
                }
                out.push(name.clone());
                if !kwargs.is_empty() {
                    Expr::emit_kwargs(kwargs, p, out);
                }
            }
            Expr::Filter { expr, name, kwargs } => {
                expr.emit_child(p, expr.level() < L_PIPE, out);
                out.push("|".into());
                out.push(name.clone());
                if !kwargs.is_empty() {
                    Expr::emit_kwargs(kwargs, p, out);
                }
            }
            Expr::Ternary { cond, then, other } => {
                then.emit_child(p, then.level() <= L_TERNARY, out);
                out.push("if".into());
                cond.emit_child(p, cond.level() <= L_TERNARY, out);
                out.push("else".into());
                other.emit_child(p, false, out);
            }
            Expr::Call { name, kwargs } => {
                out.push(name.clone());
                Expr::emit_kwargs(kwargs, p, out);
            }
            Expr::Array(items) => {
                out.push("[".into());
                for (i, it) in items.iter().enumerate() {
                    if i > 0 {
                        out.push(",".into());
                    }
                    match it {
                        Entry::Item(e) => e.emit_top(p, out),
                        Entry::Spread(e) => {
                            out.push("...".into());
                            e.emit_top(p, out);
                        }
                    }
                }
                out.push("]".into());
            }
            Expr::Map(items) => {
                out.push("{".into());
                for (i, it) in items.iter().enumerate() {
                    if i > 0 {
                        out.push(",".into());
                    }
                    match it {
                        MapEntry::Kv(k, e) => {
                            out.push(key_token(k));
                            out.push(":".into());
                            e.emit_top(p, out);
                        }
                        MapEntry::Spread(e) => {
                            out.push("...".into());
                            e.emit_top(p, out);
                        }
                    }
                }
                out.push("}".into());
            }
            Expr::Comp { elem, key, var, iter, cond } => {
                out.push("[".into());
                elem.emit_top(p, out);
                out.push("for".into());
                if let Some(k) = key {
                    out.push(k.clone());
                    out.push(",".into());
                }
                out.push(var.clone());
                out.push("in".into());
                // the iterable and the condition may not be a bare ternary
                iter.emit_child(p, iter.level() <= L_TERNARY, out);
                if let Some(c) = cond {
                    out.push("if".into());
                    c.emit_child(p, c.level() <= L_TERNARY, out);
                }
                out.push("]".into());
            }
        }
    }

    /// The expression text in the given parenthesisation and whitespace spelling.
    pub fn print(&self, p: Parens, ws: Ws) -> String {
        join(&self.tokens(p), ws)
    }
}

fn is_word(c: char) -> bool {
    c.is_ascii_alphanumeric() || c == '_'
}

/// Joins tokens. `Ws::Tight` inserts a space only where two tokens would otherwise merge
/// (word next to word, `}` next to `}` — which would read as the closing delimiter).
pub fn join(tokens: &[String], ws: Ws) -> String {
    let mut out = String::new();
    for (i, t) in tokens.iter().enumerate() {
        if i > 0 {
            match ws {
                Ws::Tight => {
                    let a = out.chars().last().unwrap();
                    let b = t.chars().next().unwrap();
                    if (is_word(a) && is_word(b)) || (a == '}' && b == '}') || (a == '{' && (b == '{' || b == '%' || b == '#')) {
                        out.push(' ');
                    }
                }
                Ws::One => out.push(' '),
                Ws::Two => out.push_str("  "),
                Ws::NlTab => out.push(if i % 2 == 1 { '\n' } else { '\t' }),
            }
        }
        out.push_str(t);
    }
    out
}

/// `{{ expr }}` with the delimiters kept clear of `{{-`, `-}}` and `}}}`.
pub fn in_delims(open: &str, body: &str, close: &str, ws: Ws) -> String {
    match ws {
        Ws::Tight => {
            let lead = if body.starts_with('-') || body.starts_with('{') || open.ends_with(|c: char| is_word(c)) { " " } else { "" };
            let trail = if body.ends_with('}') || body.ends_with('-') || body.ends_with('%') { " " } else { "" };
            format!("{open}{lead}{body}{trail}{close}")
        }
        Ws::One => format!("{open} {body} {close}"),
        Ws::Two => format!("{open}  {body}  {close}"),
        Ws::NlTab => format!("{open}\n{body}\t{close}"),
    }
}

// ------------------------------------------------------------------------------------------
// programs (an expression in a statement position)
// ------------------------------------------------------------------------------------------

/// Definition of the component used by `Prog::Component` (prepended to the program source).
pub const COMPONENT_PRELUDE: &str = "{% component c(a) %}[{{ a }}]{% endcomponent c %}";

#[derive(Clone, Debug, PartialEq)]
pub enum Prog {
    /// `{{ E }}`
    Print(Expr),
    /// `{{ E1 }}|{{ E2 }}|…`
    Seq(Vec<Expr>),
    /// `{% if E %}T{% else %}F{% endif %}`
    If(Expr),
    /// `{% for x in E %}[{{ x }}]{% else %}EMPTY{% endfor %}`
    For(Expr),
    /// `{% for y in [1, 2] %}{{ E }};{% endfor %}` (E sees `y` and stands inside a loop)
    InFor(Expr),
    /// `{{ <c a={E} /> }}` with `COMPONENT_PRELUDE`
    Component(Expr),
    /// `{% set v = E %}{{ v }}`
    Set(Expr),
}

impl Prog {
    pub fn expr(&self) -> &Expr {
        match self {
            Prog::Print(e) | Prog::If(e) | Prog::For(e) | Prog::InFor(e) | Prog::Component(e) | Prog::Set(e) => e,
            Prog::Seq(es) => &es[0],
        }
    }

    pub fn map_expr(&self, f: &dyn Fn(&Expr) -> Expr) -> Prog {
        match self {
            Prog::Print(e) => Prog::Print(f(e)),
            Prog::Seq(es) => Prog::Seq(es.iter().map(|e| f(e)).collect()),
            Prog::If(e) => Prog::If(f(e)),
            Prog::For(e) => Prog::For(f(e)),
            Prog::InFor(e) => Prog::InFor(f(e)),
            Prog::Component(e) => Prog::Component(f(e)),
            Prog::Set(e) => Prog::Set(f(e)),
        }
    }

    pub fn source(&self, p: Parens, ws: Ws) -> String {
        let pr = |e: &Expr| e.print(p, ws);
        match self {
            Prog::Print(e) => in_delims("{{", &pr(e), "}}", ws),
            Prog::Seq(es) => es.iter().map(|e| in_delims("{{", &pr(e), "}}", ws)).collect::<Vec<_>>().join("|"),
            Prog::If(e) => format!("{}T{{% else %}}F{{% endif %}}", in_delims("{% if", &pr(e), "%}", ws)),
            Prog::For(e) => {
                format!("{}[{{{{ x }}}}]{{% else %}}EMPTY{{% endfor %}}", in_delims("{% for x in", &pr(e), "%}", ws))
            }
            Prog::InFor(e) => {
                format!("{{% for y in [1, 2] %}}{};{{% endfor %}}", in_delims("{{", &pr(e), "}}", ws))
            }
            Prog::Component(e) => {
                let mut toks: Vec<String> = ["<", "c", "a", "=", "{"].iter().map(|s| s.to_string()).collect();
                toks.extend(e.tokens(p));
                toks.extend(["}", "/", ">"].iter().map(|s| s.to_string()));
                format!("{COMPONENT_PRELUDE}{}", in_delims("{{", &join(&toks, ws), "}}", ws))
            }
            Prog::Set(e) => format!("{}{{{{ v }}}}", in_delims("{% set v =", &pr(e), "%}", ws)),
        }
    }
}

// ------------------------------------------------------------------------------------------
// families
// ------------------------------------------------------------------------------------------

pub mod families {
    use super::*;
    use std::collections::BTreeMap;

    /// One program with its context bindings (`V::Undef` = leave unbound).
    #[derive(Clone, Debug)]
    pub struct Case {
        /// stable textual id, e.g. `S/d2/and-R.or-R/div0/print`
        pub id: String,
        pub prog: Prog,
        pub bindings: Vec<(String, V)>,
    }

    impl Case {
        pub fn new(id: String, prog: Prog, bindings: Vec<(String, V)>) -> Case {
            Case { id, prog, bindings }
        }
        /// The template source (minimal parentheses, single spaces).
        pub fn source(&self) -> String {
            self.prog.source(Parens::Minimal, Ws::One)
        }
        pub fn context(&self) -> tera::Context {
            context_of(&self.bindings)
        }
        pub fn describe_bindings(&self) -> serde_json::Value {
            describe_bindings(&self.bindings)
        }
    }

    pub fn context_of(bindings: &[(String, V)]) -> tera::Context {
        let mut c = tera::Context::new();
        for (k, v) in bindings {
            if *v != V::Undef {
                c.insert_value(k.clone(), v.to_tera());
            }
        }
        c
    }

    pub fn describe_bindings(bindings: &[(String, V)]) -> serde_json::Value {
        serde_json::Value::Object(bindings.iter().map(|(k, v)| (k.clone(), serde_json::Value::String(v.describe()))).collect())
    }

    // ------------------------------------------------------------------ P: precedence
    #[derive(Clone, Copy, Debug, PartialEq, Eq, PartialOrd, Ord)]
    pub enum Slot {
        Bin(BinOp),
        Filter(&'static str),
        Test(&'static str, bool),
        Not,
        Neg,
        Ternary,
        Index0,
    }

    impl Slot {
        pub fn arity(self) -> usize {
            match self {
                Slot::Bin(_) => 2,
                Slot::Ternary => 3,
                _ => 1,
            }
        }
        pub fn name(self) -> String {
            match self {
                Slot::Bin(op) => op.name(),
                Slot::Filter(f) => format!("|{f}"),
                Slot::Test(t, false) => format!("is {t}"),
                Slot::Test(t, true) => format!("is not {t}"),
                Slot::Not => "not".into(),
                Slot::Neg => "neg".into(),
                Slot::Ternary => "if-else".into(),
                Slot::Index0 => "[0]".into(),
            }
        }
        fn build(self, mut kids: Vec<Expr>) -> Expr {
            match self {
                Slot::Bin(op) => {
                    let r = kids.pop().unwrap();
                    let l = kids.pop().unwrap();
                    Expr::bin(op, l, r)
                }
                Slot::Filter(f) => Expr::filter(kids.pop().unwrap(), f, vec![]),
                Slot::Test(t, neg) => Expr::test(kids.pop().unwrap(), t, neg),
                Slot::Not => Expr::un(UnOp::Not, kids.pop().unwrap()),
                Slot::Neg => Expr::un(UnOp::Neg, kids.pop().unwrap()),
                Slot::Ternary => {
                    // operand order = textual order: then, cond, else
                    let other = kids.pop().unwrap();
                    let cond = kids.pop().unwrap();
                    let then = kids.pop().unwrap();
                    Expr::tern(then, cond, other)
                }
                Slot::Index0 => Expr::idx(kids.pop().unwrap(), Expr::int(0), false),
            }
        }
    }

    /// The operator slots of family P: the 18 binary operators (`not in` included; `is`/`is not`
    /// appear as tests), three filters, two tests (plain and negated), `not`, unary `-`, the
    /// ternary and postfix `[0]`.
    pub fn p_slots() -> Vec<Slot> {
        p_classes().into_iter().flat_map(|(_, s)| s).collect()
    }

    /// Syntactic operator classes: the parser's grouping decision depends on the operator token,
    /// not on the filter / test name, so the slots that share a token form one class.
    pub fn p_classes() -> Vec<(String, Vec<Slot>)> {
        let mut c: Vec<(String, Vec<Slot>)> = BinOp::ALL.iter().map(|o| (o.name(), vec![Slot::Bin(*o)])).collect();
        c.push(("| filter".into(), vec![Slot::Filter("abs"), Slot::Filter("length"), Slot::Filter("upper")]));
        c.push(("is test".into(), vec![Slot::Test("odd", false), Slot::Test("string", false)]));
        c.push(("is not test".into(), vec![Slot::Test("odd", true), Slot::Test("string", true)]));
        c.push(("not".into(), vec![Slot::Not]));
        c.push(("unary -".into(), vec![Slot::Neg]));
        c.push(("if-else".into(), vec![Slot::Ternary]));
        c.push(("[0]".into(), vec![Slot::Index0]));
        c
    }

    /// The distinct slot multisets (sorted) that instantiate a multiset of classes.
    pub fn p_expand(classes: &[(String, Vec<Slot>)], ms: &[usize]) -> Vec<Vec<Slot>> {
        let mut out: Vec<Vec<Slot>> = vec![vec![]];
        for c in ms {
            let mut next = vec![];
            for partial in &out {
                for s in &classes[*c].1 {
                    let mut p = partial.clone();
                    p.push(*s);
                    next.push(p);
                }
            }
            out = next;
        }
        let mut uniq: Vec<Vec<Slot>> = vec![];
        for mut m in out {
            m.sort();
            if !uniq.contains(&m) {
                uniq.push(m);
            }
        }
        uniq
    }

    /// The tree with filter / test names replaced by placeholders (identifies a grouping up to
    /// the choice of filter / test).
    pub fn p_class_form(e: &Expr) -> Expr {
        match e {
            Expr::Unary(op, x) => Expr::Unary(*op, Box::new(p_class_form(x))),
            Expr::Binary(op, l, r) => Expr::Binary(*op, Box::new(p_class_form(l)), Box::new(p_class_form(r))),
            Expr::Test { expr, negated, .. } => Expr::Test { expr: Box::new(p_class_form(expr)), name: "TEST".into(), negated: *negated, kwargs: vec![] },
            Expr::Filter { expr, .. } => Expr::Filter { expr: Box::new(p_class_form(expr)), name: "FILTER".into(), kwargs: vec![] },
            Expr::Ternary { cond, then, other } => {
                Expr::Ternary { cond: Box::new(p_class_form(cond)), then: Box::new(p_class_form(then)), other: Box::new(p_class_form(other)) }
            }
            Expr::Index { base, key, opt } => Expr::Index { base: Box::new(p_class_form(base)), key: key.clone(), opt: *opt },
            other => other.clone(),
        }
    }

    /// All multisets of `k` classes (as sorted index vectors), in lexicographic order.
    pub fn p_multisets(k: usize) -> Vec<Vec<usize>> {
        let n = p_classes().len();
        let mut out = vec![];
        let mut cur = vec![0usize; k];
        fn rec(pos: usize, from: usize, n: usize, cur: &mut Vec<usize>, out: &mut Vec<Vec<usize>>) {
            if pos == cur.len() {
                out.push(cur.clone());
                return;
            }
            for i in from..n {
                cur[pos] = i;
                rec(pos + 1, i, n, cur, out);
            }
        }
        rec(0, 0, n, &mut cur, &mut out);
        out
    }

    fn raw_trees(slots: &[Slot]) -> Vec<Expr> {
        if slots.is_empty() {
            return vec![Expr::var("_")];
        }
        let mut out: Vec<Expr> = vec![];
        for (ri, root) in slots.iter().enumerate() {
            if slots[..ri].contains(root) {
                continue;
            }
            let rest: Vec<Slot> = slots.iter().enumerate().filter(|(i, _)| *i != ri).map(|(_, s)| *s).collect();
            let ar = root.arity();
            // every assignment of the remaining slots to operand positions
            let combos = ar.pow(rest.len() as u32);
            for c in 0..combos {
                let mut parts: Vec<Vec<Slot>> = vec![vec![]; ar];
                let mut x = c;
                for s in &rest {
                    parts[x % ar].push(*s);
                    x /= ar;
                }
                // cartesian product of the subtrees of each position
                let subs: Vec<Vec<Expr>> = parts.iter().map(|p| raw_trees(p)).collect();
                let mut idx = vec![0usize; ar];
                loop {
                    let kids: Vec<Expr> = (0..ar).map(|i| subs[i][idx[i]].clone()).collect();
                    let t = root.build(kids);
                    if !out.contains(&t) {
                        out.push(t);
                    }
                    let mut i = 0;
                    while i < ar {
                        idx[i] += 1;
                        if idx[i] < subs[i].len() {
                            break;
                        }
                        idx[i] = 0;
                        i += 1;
                    }
                    if i == ar {
                        break;
                    }
                }
            }
        }
        out
    }

    pub const LEAF_NAMES: [&str; 8] = ["a", "b", "c", "d", "e", "f", "g", "h"];

    /// Renames the placeholder leaves `a, b, c…` in textual (printing) order; returns the count.
    fn name_leaves(e: &mut Expr, next: &mut usize) {
        match e {
            Expr::Var(n) if n == "_" => {
                *n = LEAF_NAMES[*next].to_string();
                *next += 1;
            }
            Expr::Unary(_, x) => name_leaves(x, next),
            Expr::Binary(_, l, r) => {
                name_leaves(l, next);
                name_leaves(r, next);
            }
            Expr::Test { expr, .. } | Expr::Filter { expr, .. } => name_leaves(expr, next),
            Expr::Ternary { cond, then, other } => {
                name_leaves(then, next);
                name_leaves(cond, next);
                name_leaves(other, next);
            }
            Expr::Index { base, .. } => name_leaves(base, next),
            _ => {}
        }
    }

    /// Every expression tree that uses each slot of the multiset exactly once as an operator node
    /// (all nestings, all operand positions), leaves named in textual order. Trees with the same
    /// `print(Parens::Erased, ..)` are the alternative groupings of one token sequence.
    pub fn p_trees(slots: &[Slot]) -> Vec<(Expr, usize)> {
        raw_trees(slots)
            .into_iter()
            .map(|mut t| {
                let mut n = 0;
                name_leaves(&mut t, &mut n);
                (t, n)
            })
            .collect()
    }

    /// Leaf value pools, richer when there are few leaves (the number of assignments is the pool
    /// size to the power of the number of leaves).
    pub fn p_pool(n_leaves: usize, thorough: bool) -> Vec<V> {
        let all = vec![
            V::I64(3),
            V::I64(0),
            V::s("ab"),
            V::Bool(true),
            V::I64(-2),
            V::F64(0.5),
            V::Arr(vec![V::I64(3), V::Bool(true)]),
            V::I64(2),
            V::F64(0.1),
        ];
        let take = match (n_leaves, thorough) {
            (0..=3, _) => 9,
            (4, false) => 5,
            (4, true) => 6,
            (5, _) => 4,
            _ => 3,
        };
        all.into_iter().take(take).collect()
    }

    /// The `i`-th assignment of `n` leaves over `pool` (mixed radix, first leaf fastest).
    pub fn p_assignment(pool: &[V], n: usize, mut i: u64) -> Vec<(String, V)> {
        let mut out = vec![];
        for l in 0..n {
            out.push((LEAF_NAMES[l].to_string(), pool[(i % pool.len() as u64) as usize].clone()));
            i /= pool.len() as u64;
        }
        out
    }

    pub fn p_assignments(pool: &[V], n: usize) -> u64 {
        (pool.len() as u64).pow(n as u32)
    }

    // ------------------------------------------------------------------ S: short-circuit
    /// The erroring operand E: (name, expression). `u` is unbound, `arr` is `[1, 2]`.
    pub fn s_errors() -> Vec<(&'static str, Expr)> {
        vec![
            ("undef-attr", Expr::attr(Expr::var("u"), "f", false)),
            ("div0", Expr::bin(BinOp::Div, Expr::int(1), Expr::int(0))),
            ("throw", Expr::call("throw", vec![("message", Expr::str("x"))])),
            ("str-plus", Expr::bin(BinOp::Add, Expr::int(1), Expr::str("a"))),
            ("float-index", Expr::idx(Expr::var("arr"), Expr::float(1.5), false)),
            ("undef-math", Expr::bin(BinOp::Mul, Expr::var("u"), Expr::int(2))),
            ("undef-attr-attr", Expr::attr(Expr::attr(Expr::var("u"), "f", false), "g", false)),
        ]
    }

    pub const S_SHAPES: [&str; 7] = ["and-R", "or-R", "and-L", "or-L", "else-arm", "then-arm", "cond"];

    /// Shape `s` with guard `x` and hole content `e`.
    pub fn s_shape(s: usize, x: Expr, e: Expr) -> Expr {
        match s {
            0 => Expr::bin(BinOp::And, x, e),
            1 => Expr::bin(BinOp::Or, x, e),
            2 => Expr::bin(BinOp::And, e, x),
            3 => Expr::bin(BinOp::Or, e, x),
            4 => Expr::tern(Expr::str("A"), x, e),
            5 => Expr::tern(e, x, Expr::str("B")),
            6 => Expr::tern(x, e, Expr::str("B")),
            _ => unreachable!(),
        }
    }

    pub const S_WRAPPERS: [&str; 5] = ["print", "if", "kwarg", "set", "item"];

    pub fn s_wrap(w: usize, g: Expr) -> Prog {
        match w {
            0 => Prog::Print(g),
            1 => Prog::If(g),
            2 => Prog::Print(Expr::filter(Expr::int(1), "default", vec![("value", g)])),
            3 => Prog::Set(g),
            4 => Prog::Print(Expr::filter(Expr::array(vec![g]), "length", vec![])),
            _ => unreachable!(),
        }
    }

    /// Guard values of depth-1 programs: the common value alphabet.
    pub fn s_values_full() -> Vec<V> {
        let mut v = mccore::vals::alphabet_v();
        // the depth-64 array prints 130 characters of brackets: fine, but keep evidence readable
        v.truncate(v.len() - 1);
        v
    }

    /// Guard values of nested programs.
    pub fn s_values_small() -> Vec<V> {
        mccore::vals::alphabet_small()
    }

    pub fn s_values_tiny() -> Vec<V> {
        vec![V::Bool(true), V::I64(0), V::s(""), V::Undef, V::s("a"), V::None]
    }

    /// Work items of family S: (depth, shape indices outermost first, error index, wrapper index).
    pub fn s_items(thorough: bool) -> Vec<(usize, Vec<usize>, usize, usize)> {
        let ne = s_errors().len();
        let mut out = vec![];
        let max_depth = if thorough { 3 } else { 2 };
        for depth in 1..=max_depth {
            let combos = 7usize.pow(depth as u32);
            for c in 0..combos {
                let mut shapes = vec![];
                let mut x = c;
                for _ in 0..depth {
                    shapes.push(x % 7);
                    x /= 7;
                }
                // quick tier: nested programs only under the three main wrappers
                let nw = if depth >= 2 && !thorough { 3 } else { S_WRAPPERS.len() };
                for e in 0..ne {
                    for w in 0..nw {
                        out.push((depth, shapes.clone(), e, w));
                    }
                }
            }
        }
        out
    }

    /// The guard alphabet used at a depth.
    pub fn s_guard_values(depth: usize, thorough: bool) -> Vec<V> {
        match (depth, thorough) {
            (1, _) => s_values_full(),
            (2, false) => s_values_small(),
            (2, true) => s_values_full(),
            _ => s_values_tiny(),
        }
    }

    /// All cases of one S item: every combination of guard values.
    pub fn s_cases(item: &(usize, Vec<usize>, usize, usize), thorough: bool, f: &mut dyn FnMut(Case)) {
        let (depth, shapes, ei, w) = item;
        let errs = s_errors();
        let (ename, e) = &errs[*ei];
        let names = ["x", "y", "z"];
        // innermost shape is the last one
        let mut g = e.clone();
        for d in (0..*depth).rev() {
            g = s_shape(shapes[d], Expr::var(names[d]), g);
        }
        let prog = s_wrap(*w, g);
        let vals = s_guard_values(*depth, thorough);
        let n = vals.len();
        let total = n.pow(*depth as u32);
        let shape_name = shapes.iter().map(|s| S_SHAPES[*s]).collect::<Vec<_>>().join(".");
        for c in 0..total {
            let mut bindings = vec![("arr".to_string(), V::Arr(vec![V::I64(1), V::I64(2)]))];
            let mut x = c;
            let mut pick = vec![];
            for d in 0..*depth {
                bindings.push((names[d].to_string(), vals[x % n].clone()));
                pick.push(x % n);
                x /= n;
            }
            f(Case::new(
                format!("S/d{depth}/{shape_name}/{ename}/{}/{}", S_WRAPPERS[*w], pick.iter().map(|p| p.to_string()).collect::<Vec<_>>().join(",")),
                prog.clone(),
                bindings,
            ));
        }
    }

    // ------------------------------------------------------------------ U: undefined
    #[derive(Clone, Copy, Debug, PartialEq, Eq)]
    pub enum Step {
        Dot,
        OptDot,
        Sub,
        OptSub,
        Idx,
        OptIdx,
    }

    impl Step {
        pub const ALL: [Step; 6] = [Step::Dot, Step::OptDot, Step::Sub, Step::OptSub, Step::Idx, Step::OptIdx];
        pub fn name(self) -> &'static str {
            match self {
                Step::Dot => ".f",
                Step::OptDot => "?.f",
                Step::Sub => "[\"f\"]",
                Step::OptSub => "?[\"f\"]",
                Step::Idx => "[0]",
                Step::OptIdx => "?[0]",
            }
        }
        fn by_name(self) -> bool {
            !matches!(self, Step::Idx | Step::OptIdx)
        }
        fn apply(self, base: Expr) -> Expr {
            match self {
                Step::Dot => Expr::attr(base, "f", false),
                Step::OptDot => Expr::attr(base, "f", true),
                Step::Sub => Expr::idx(base, Expr::str("f"), false),
                Step::OptSub => Expr::idx(base, Expr::str("f"), true),
                Step::Idx => Expr::idx(base, Expr::int(0), false),
                Step::OptIdx => Expr::idx(base, Expr::int(0), true),
            }
        }
    }

    /// All access chains of length 1..=3.
    pub fn u_chains() -> Vec<Vec<Step>> {
        let mut out = vec![];
        for len in 1..=3usize {
            for c in 0..6usize.pow(len as u32) {
                let mut x = c;
                let mut ch = vec![];
                for _ in 0..len {
                    ch.push(Step::ALL[x % 6]);
                    x /= 6;
                }
                out.push(ch);
            }
        }
        out
    }

    pub fn u_chain_expr(chain: &[Step]) -> Expr {
        let mut e = Expr::var("b");
        for s in chain {
            e = s.apply(e);
        }
        e
    }

    fn nest(chain: &[Step], leaf: V) -> V {
        let mut v = leaf;
        for s in chain.iter().rev() {
            v = if s.by_name() { V::map(&[("f", v), ("z", V::I64(9))]) } else { V::Arr(vec![v, V::I64(9)]) };
        }
        v
    }

    /// Base values for a chain: (name, value bound to `b`). The "fitting" bases make the whole
    /// chain resolve to a leaf; the "cut at k" bases put something else where the base of step k
    /// should be: an empty map, a map without the field, an empty array, none, an int, a string —
    /// and, for k = 0, nothing at all (unbound).
    pub fn u_bases(chain: &[Step]) -> Vec<(String, V)> {
        let mut out = vec![];
        for (ln, leaf) in [("int", V::I64(7)), ("arr", V::Arr(vec![V::I64(1), V::I64(2)])), ("str", V::s("s")), ("none", V::None), ("zero", V::I64(0))] {
            out.push((format!("fit-{ln}"), nest(chain, leaf)));
        }
        out.push(("unbound".into(), V::Undef));
        for k in 0..chain.len() {
            for (fname, filler) in [
                ("emptymap", V::Map(vec![])),
                ("othermap", V::map(&[("g", V::I64(1))])),
                ("emptyarr", V::Arr(vec![])),
                ("none", V::None),
                ("int", V::I64(5)),
                ("str", V::s("s")),
            ] {
                out.push((format!("cut{k}-{fname}"), nest(&chain[..k], filler)));
            }
        }
        out
    }

    pub const U_CONSUMERS: [&str; 30] = [
        "print",
        "is-defined",
        "is-undefined",
        "default",
        "or-1",
        "and-1",
        "not",
        "eq-1",
        "plus-1",
        "neg",
        "lt-1",
        "in-arr",
        "contains-1",
        "if",
        "for",
        "upper",
        "length",
        "kwarg",
        "index-key",
        "slice-bound",
        "spread-arr",
        "spread-map",
        "component",
        "concat",
        "ternary-cond",
        "ternary-arm",
        "is-odd",
        "then-dot",
        "then-optdot",
        "set",
    ];

    pub fn u_consume(c: usize, e: Expr) -> Prog {
        let one = || Expr::int(1);
        let arr = || Expr::var("arr");
        match U_CONSUMERS[c] {
            "print" => Prog::Print(e),
            "is-defined" => Prog::Print(Expr::test(e, "defined", false)),
            "is-undefined" => Prog::Print(Expr::test(e, "undefined", false)),
            "default" => Prog::Print(Expr::filter(e, "default", vec![("value", one())])),
            "or-1" => Prog::Print(Expr::bin(BinOp::Or, e, one())),
            "and-1" => Prog::Print(Expr::bin(BinOp::And, e, one())),
            "not" => Prog::Print(Expr::un(UnOp::Not, e)),
            "eq-1" => Prog::Print(Expr::bin(BinOp::Eq, e, one())),
            "plus-1" => Prog::Print(Expr::bin(BinOp::Add, e, one())),
            "neg" => Prog::Print(Expr::un(UnOp::Neg, e)),
            "lt-1" => Prog::Print(Expr::bin(BinOp::Lt, e, one())),
            "in-arr" => Prog::Print(Expr::bin(BinOp::In, e, Expr::array(vec![one()]))),
            "contains-1" => Prog::Print(Expr::bin(BinOp::In, one(), e)),
            "if" => Prog::If(e),
            "for" => Prog::For(e),
            "upper" => Prog::Print(Expr::filter(e, "upper", vec![])),
            "length" => Prog::Print(Expr::filter(e, "length", vec![])),
            "kwarg" => Prog::Print(Expr::filter(Expr::var("u2"), "default", vec![("value", e)])),
            "index-key" => Prog::Print(Expr::idx(arr(), e, false)),
            "slice-bound" => Prog::Print(Expr::slice(arr(), Some(Expr::int(0)), Some(e), None)),
            "spread-arr" => Prog::Print(Expr::Array(vec![Entry::Item(Expr::int(0)), Entry::Spread(e)])),
            "spread-map" => Prog::Print(Expr::Map(vec![MapEntry::Kv(K::Str("k".into()), Expr::int(0)), MapEntry::Spread(e)])),
            "component" => Prog::Component(e),
            "concat" => Prog::Print(Expr::bin(BinOp::Concat, e, Expr::str("x"))),
            "ternary-cond" => Prog::Print(Expr::tern(Expr::str("A"), e, Expr::str("B"))),
            "ternary-arm" => Prog::Print(Expr::tern(e, Expr::bool(true), Expr::str("B"))),
            "is-odd" => Prog::Print(Expr::test(e, "odd", false)),
            "then-dot" => Prog::Print(Expr::bin(BinOp::Or, Expr::attr(e, "g", false), Expr::str("D"))),
            "then-optdot" => Prog::Print(Expr::bin(BinOp::Or, Expr::attr(e, "g", true), Expr::str("D"))),
            "set" => Prog::Set(e),
            other => unreachable!("{other}"),
        }
    }

    pub fn u_items() -> u64 {
        u_chains().len() as u64
    }

    /// All cases of one chain: bases x consumers.
    pub fn u_cases(chain: &[Step], f: &mut dyn FnMut(Case)) {
        let e = u_chain_expr(chain);
        let cname: String = chain.iter().map(|s| s.name()).collect();
        for (bname, bval) in u_bases(chain) {
            for c in 0..U_CONSUMERS.len() {
                f(Case::new(
                    format!("U/b{cname}/{bname}/{}", U_CONSUMERS[c]),
                    u_consume(c, e.clone()),
                    vec![("b".to_string(), bval.clone()), ("arr".to_string(), V::Arr(vec![V::I64(1), V::I64(2)]))],
                ));
            }
        }
    }

    // ------------------------------------------------------------------ T: operand kinds
    /// Operand values: the common alphabet without the integer / float boundaries (C13's job).
    pub fn t_values() -> Vec<V> {
        mccore::vals::alphabet_v()
            .into_iter()
            .filter(|v| match v {
                V::I64(i) => i.unsigned_abs() <= 7,
                V::U64(i) => *i <= 7,
                V::I128(i) => i.unsigned_abs() <= 7,
                V::U128(i) => *i <= 7,
                V::F64(f) => !f.is_finite() || f.abs() < 100.0,
                V::Arr(xs) => !matches!(xs.first(), Some(V::Arr(ys)) if matches!(ys.first(), Some(V::Arr(_)))),
                _ => true,
            })
            .collect()
    }

    /// One-operand forms: the two unary operators, five filters, nine tests.
    pub fn t_unary_forms() -> Vec<(String, Expr)> {
        let a = || Expr::var("a");
        let mut out = vec![("not".to_string(), Expr::un(UnOp::Not, a())), ("neg".to_string(), Expr::un(UnOp::Neg, a()))];
        for f in ["upper", "length", "str", "abs"] {
            out.push((format!("|{f}"), Expr::filter(a(), f, vec![])));
        }
        out.push(("|default".into(), Expr::filter(a(), "default", vec![("value", Expr::str("D"))])));
        out.push((
            "|default-bool".into(),
            Expr::filter(a(), "default", vec![("value", Expr::str("D")), ("boolean", Expr::bool(true))]),
        ));
        for t in ["defined", "undefined", "odd", "even", "string", "number", "integer", "float", "map", "array", "bool", "none", "iterable"] {
            out.push((format!("is {t}"), Expr::test(a(), t, false)));
            out.push((format!("is not {t}"), Expr::test(a(), t, true)));
        }
        out.push(("[0]".into(), Expr::idx(a(), Expr::int(0), false)));
        out.push(("[-1]".into(), Expr::idx(a(), Expr::un(UnOp::Neg, Expr::int(1)), false)));
        out.push(("[\"a\"]".into(), Expr::idx(a(), Expr::str("a"), false)));
        out.push((".a".into(), Expr::attr(a(), "a", false)));
        out.push(("?.a".into(), Expr::attr(a(), "a", true)));
        out.push(("?[0]".into(), Expr::idx(a(), Expr::int(0), true)));
        out.push(("[1:]".into(), Expr::slice(a(), Some(Expr::int(1)), None, None)));
        // the spellings of "everything": no bound at all, an explicit step of 1, `none` bounds
        out.push(("[:]".into(), Expr::slice(a(), None, None, None)));
        out.push(("[::1]".into(), Expr::slice(a(), None, None, Some(Expr::int(1)))));
        out.push(("[0:]".into(), Expr::slice(a(), Some(Expr::int(0)), None, None)));
        out.push(("[::-1]".into(), Expr::slice(a(), None, None, Some(Expr::un(UnOp::Neg, Expr::int(1))))));
        out.push(("if-cond".into(), Expr::tern(Expr::str("A"), a(), Expr::str("B"))));
        out
    }

    /// Two-operand forms: the 18 binary operators plus `x[a]`-style indexing by the right operand.
    pub fn t_binary_forms() -> Vec<(String, Expr)> {
        let mut out: Vec<(String, Expr)> =
            BinOp::ALL.iter().map(|op| (op.name(), Expr::bin(*op, Expr::var("a"), Expr::var("b")))).collect();
        out.push(("a[b]".into(), Expr::idx(Expr::var("a"), Expr::var("b"), false)));
        out.push(("a?[b]".into(), Expr::idx(Expr::var("a"), Expr::var("b"), true)));
        out
    }

    // ------------------------------------------------------------------ L: literals, spreads, comprehensions
    fn l_bindings() -> Vec<(String, V)> {
        vec![
            ("x".into(), V::I64(5)),
            ("xs".into(), V::Arr(vec![V::I64(1), V::s("a")])),
            ("e".into(), V::Arr(vec![])),
            ("m".into(), V::map(&[("a", V::I64(10)), ("c", V::I64(30))])),
            ("m2".into(), V::map(&[("b", V::I64(20))])),
            ("i".into(), V::I64(3)),
            ("s".into(), V::s("hé")),
            ("n".into(), V::None),
            ("t".into(), V::Bool(true)),
            ("fl".into(), V::F64(1.5)),
            ("by".into(), V::Bytes(b"ab".to_vec())),
            ("m3".into(), V::map(&[("p", V::I64(1)), ("q", V::I64(2)), ("r", V::I64(0))])),
            ("nums".into(), V::Arr(vec![V::I64(1), V::I64(2), V::I64(3), V::I64(150)])),
            ("em".into(), V::Map(vec![])),
            ("mi".into(), V::Map(vec![(K::I64(1), V::s("one")), (K::I64(2), V::s("two"))])),
        ]
    }

    fn l_array_entries() -> Vec<Entry> {
        vec![
            Entry::Item(Expr::int(1)),
            Entry::Item(Expr::var("x")),
            Entry::Item(Expr::str("s")),
            Entry::Item(Expr::array(vec![Expr::int(2)])),
            // a negative number literal: a unary minus on a constant (seeded change C02-9 counted it
            // as a literal and the constant folding of containers then dropped it)
            Entry::Item(Expr::un(UnOp::Neg, Expr::int(3))),
            Entry::Spread(Expr::var("xs")),
            Entry::Spread(Expr::var("e")),
            Entry::Spread(Expr::array(vec![Expr::int(7), Expr::int(8)])),
            Entry::Spread(Expr::var("m")),
            Entry::Spread(Expr::var("i")),
            Entry::Spread(Expr::var("s")),
            Entry::Spread(Expr::var("n")),
            Entry::Spread(Expr::var("u")),
        ]
    }

    fn l_map_entries() -> Vec<MapEntry> {
        let k = |s: &str| K::Str(s.to_string());
        vec![
            MapEntry::Kv(k("a"), Expr::int(1)),
            MapEntry::Kv(k("a"), Expr::int(2)),
            MapEntry::Kv(k("b"), Expr::var("x")),
            MapEntry::Kv(k("c"), Expr::str("s")),
            MapEntry::Kv(k("d"), Expr::un(UnOp::Neg, Expr::int(3))),
            MapEntry::Spread(Expr::var("m")),
            MapEntry::Spread(Expr::var("m2")),
            MapEntry::Spread(Expr::var("em")),
            MapEntry::Spread(Expr::Map(vec![MapEntry::Kv(k("a"), Expr::int(99))])),
            MapEntry::Spread(Expr::var("xs")),
            MapEntry::Spread(Expr::var("i")),
            MapEntry::Spread(Expr::var("s")),
            MapEntry::Spread(Expr::var("n")),
            MapEntry::Spread(Expr::var("u")),
        ]
    }

    fn l_comprehensions() -> Vec<(String, Prog)> {
        let v = Expr::var;
        let iters: Vec<(&str, Expr)> = vec![
            ("xs", v("xs")),
            ("nums", v("nums")),
            ("empty", v("e")),
            ("str", v("s")),
            ("map2", v("m")),
            ("map1", v("m2")),
            ("map3", v("m3")),
            ("emptymap", v("em")),
            ("intmap", v("mi")),
            ("bytes", v("by")),
            ("int", v("i")),
            ("none", v("n")),
            ("bool", v("t")),
            ("float", v("fl")),
            ("undef", v("u")),
            ("literal", Expr::array(vec![Expr::int(4), Expr::int(5), Expr::int(6)])),
            ("range", Expr::call("range", vec![("end", Expr::int(3))])),
            ("filtered", Expr::slice(v("nums"), Some(Expr::int(1)), None, None)),
            ("nested", Expr::Comp { elem: Box::new(Expr::bin(BinOp::Mul, v("w"), Expr::int(2))), key: None, var: "w".into(), iter: Box::new(v("nums")), cond: None }),
            ("ternary", Expr::tern(v("xs"), v("t"), v("e"))),
        ];
        let elems: Vec<(&str, Expr)> = vec![
            ("id", v("q")),
            ("concat", Expr::bin(BinOp::Concat, v("q"), Expr::str("!"))),
            ("wrap", Expr::array(vec![v("q")])),
            ("ternary", Expr::tern(v("q"), Expr::test(v("q"), "string", false), Expr::int(0))),
            ("outer", Expr::bin(BinOp::Concat, v("q"), v("x"))),
            ("loop-index", Expr::attr(v("loop"), "index", false)),
            ("loop-first", Expr::attr(v("loop"), "first", false)),
            ("const", Expr::int(1)),
        ];
        let conds: Vec<(&str, Option<Expr>)> = vec![
            ("none", None),
            ("truthy", Some(v("q"))),
            ("ne-a", Some(Expr::bin(BinOp::Ne, v("q"), Expr::str("a")))),
            ("false", Some(Expr::bool(false))),
            ("undef", Some(v("u"))),
            ("erroring", Some(Expr::attr(v("u"), "f", false))),
            ("ternary", Some(Expr::tern(Expr::bool(true), v("t"), Expr::bool(false)))),
        ];
        let mut out = vec![];
        for (iname, it) in &iters {
            for (ename, el) in &elems {
                for (cname, c) in &conds {
                    // value form
                    let comp = Expr::Comp { elem: Box::new(el.clone()), key: None, var: "q".into(), iter: Box::new(it.clone()), cond: c.clone().map(Box::new) };
                    let in_for = ename.starts_with("loop");
                    out.push((format!("comp/{iname}/{ename}/{cname}/value"), Prog::Print(comp.clone())));
                    if in_for {
                        out.push((format!("comp/{iname}/{ename}/{cname}/value/in-for"), Prog::InFor(comp.clone())));
                    }
                    // key, value form: the element sees k as well
                    let el_kv = Expr::Map(vec![MapEntry::Kv(K::Str("k".into()), v("k")), MapEntry::Kv(K::Str("v".into()), el.clone())]);
                    let comp_kv = Expr::Comp { elem: Box::new(el_kv), key: Some("k".into()), var: "q".into(), iter: Box::new(it.clone()), cond: c.clone().map(Box::new) };
                    out.push((format!("comp/{iname}/{ename}/{cname}/keyvalue"), Prog::Print(comp_kv)));
                }
            }
        }
        // shadowing: the comprehension variable hides and then restores the context variable
        let comp = Expr::Comp { elem: Box::new(v("x")), key: None, var: "x".into(), iter: Box::new(v("xs")), cond: None };
        out.push(("comp/shadow".into(), Prog::Seq(vec![v("x"), comp.clone(), v("x")])));
        out.push(("comp/index".into(), Prog::Print(Expr::idx(comp.clone(), Expr::int(1), false))));
        out.push(("comp/length".into(), Prog::Print(Expr::filter(comp.clone(), "length", vec![]))));
        out.push(("comp/in-array".into(), Prog::Print(Expr::array(vec![comp.clone(), Expr::int(0)]))));
        out.push(("comp/spread".into(), Prog::Print(Expr::Array(vec![Entry::Item(Expr::int(0)), Entry::Spread(comp)]))));
        // documentation examples
        let numbers = || v("nums");
        out.push((
            "comp/doc/odd".into(),
            Prog::Print(Expr::Comp { elem: Box::new(v("a")), key: None, var: "a".into(), iter: Box::new(numbers()), cond: Some(Box::new(Expr::test(v("a"), "odd", false))) }),
        ));
        out.push((
            "comp/doc/ternary".into(),
            Prog::Print(Expr::Comp {
                elem: Box::new(Expr::tern(v("x"), Expr::bin(BinOp::Gt, v("x"), Expr::int(1)), Expr::int(0))),
                key: None,
                var: "x".into(),
                iter: Box::new(numbers()),
                cond: None,
            }),
        ));
        out.push((
            "comp/doc/arith".into(),
            Prog::Print(Expr::Comp {
                elem: Box::new(Expr::bin(BinOp::Add, Expr::bin(BinOp::Mul, v("a"), Expr::int(2)), Expr::int(1))),
                key: None,
                var: "a".into(),
                iter: Box::new(numbers()),
                cond: None,
            }),
        ));
        out.push((
            "comp/doc/gt100".into(),
            Prog::Print(Expr::Comp { elem: Box::new(v("x")), key: None, var: "x".into(), iter: Box::new(numbers()), cond: Some(Box::new(Expr::bin(BinOp::Gt, v("x"), Expr::int(100)))) }),
        ));
        out.push((
            "comp/doc/str".into(),
            Prog::Print(Expr::Comp { elem: Box::new(Expr::filter(v("a"), "str", vec![])), key: None, var: "a".into(), iter: Box::new(numbers()), cond: None }),
        ));
        out
    }

    /// All cases of family L (arrays and maps of 0..=3 entries over the entry alphabets, every
    /// comprehension form).
    pub fn l_cases() -> Vec<Case> {
        let mut out = vec![];
        let b = l_bindings();
        let ae = l_array_entries();
        for len in 0..=3usize {
            for c in 0..ae.len().pow(len as u32) {
                let mut x = c;
                let mut items = vec![];
                let mut pick = vec![];
                for _ in 0..len {
                    items.push(ae[x % ae.len()].clone());
                    pick.push((x % ae.len()).to_string());
                    x /= ae.len();
                }
                out.push(Case::new(format!("L/array/{}", pick.join(",")), Prog::Print(Expr::Array(items)), b.clone()));
            }
        }
        let me = l_map_entries();
        for len in 0..=3usize {
            for c in 0..me.len().pow(len as u32) {
                let mut x = c;
                let mut items = vec![];
                let mut pick = vec![];
                for _ in 0..len {
                    items.push(me[x % me.len()].clone());
                    pick.push((x % me.len()).to_string());
                    x /= me.len();
                }
                out.push(Case::new(format!("L/map/{}", pick.join(",")), Prog::Print(Expr::Map(items)), b.clone()));
            }
        }
        // keys of other kinds, later-key-wins across kinds of spelling
        let kv = |k: K, e: Expr| MapEntry::Kv(k, e);
        for (name, m) in [
            ("intkeys", vec![kv(K::I64(2), Expr::int(1)), kv(K::I64(10), Expr::int(2)), kv(K::I64(2), Expr::int(3))]),
            ("boolkeys", vec![kv(K::Bool(true), Expr::int(1)), kv(K::Bool(false), Expr::int(2)), kv(K::Bool(true), Expr::int(3))]),
            ("intspread", vec![kv(K::I64(1), Expr::str("lit")), MapEntry::Spread(Expr::var("mi"))]),
            ("spreadint", vec![MapEntry::Spread(Expr::var("mi")), kv(K::I64(1), Expr::str("lit"))]),
            ("nested", vec![kv(K::Str("o".into()), Expr::Map(vec![kv(K::Str("i".into()), Expr::Map(vec![]))]))]),
        ] {
            out.push(Case::new(format!("L/map/{name}"), Prog::Print(Expr::Map(m.clone())), b.clone()));
            out.push(Case::new(format!("L/map/{name}/length"), Prog::Print(Expr::filter(Expr::Map(m), "length", vec![])), b.clone()));
        }
        for (id, p) in l_comprehensions() {
            out.push(Case::new(format!("L/{id}"), p, b.clone()));
        }
        out
    }

    // ------------------------------------------------------------------ `.i` indexing (F-doti)
    pub fn doti_cases() -> Vec<Case> {
        let b: Vec<(String, V)> = vec![
            ("a".into(), V::Arr(vec![V::I64(7), V::I64(8)])),
            ("m".into(), V::map(&[("f", V::Arr(vec![V::s("p"), V::s("q")]))])),
            ("aa".into(), V::Arr(vec![V::map(&[("f", V::I64(5))])])),
        ];
        vec![
            Case::new("D/a.0".into(), Prog::Print(Expr::attr(Expr::var("a"), "0", false)), b.clone()),
            Case::new("D/a.1".into(), Prog::Print(Expr::attr(Expr::var("a"), "1", false)), b.clone()),
            Case::new("D/m.f.1".into(), Prog::Print(Expr::attr(Expr::attr(Expr::var("m"), "f", false), "1", false)), b.clone()),
            Case::new("D/aa.0.f".into(), Prog::Print(Expr::attr(Expr::attr(Expr::var("aa"), "0", false), "f", false)), b.clone()),
            Case::new("D/a?.0".into(), Prog::Print(Expr::attr(Expr::var("a"), "0", true)), b),
        ]
    }

    // ------------------------------------------------------------------ documentation examples
    /// (id, verbatim template from the documentation, bindings, documented outcome:
    /// `Some(text)` or `None` = documented to be an error).
    pub fn doc_examples() -> Vec<(&'static str, &'static str, Vec<(String, V)>, Option<&'static str>)> {
        let none: Vec<(String, V)> = vec![];
        let b = |xs: &[(&str, V)]| xs.iter().map(|(k, v)| (k.to_string(), v.clone())).collect::<Vec<_>>();
        vec![
            ("math-add", "{{ 1 + 1 }}", none.clone(), Some("2")),
            ("math-sub", "{{ 2 - 1 }}", none.clone(), Some("1")),
            // The docs' "{{ 10 / 2 }} will print 5" is loose wording: `/` always yields the float
            // quotient (property C13), which prints as 5.0. Transcribed with the value, not the spelling.
            ("math-div", "{{ 10 / 2 }}", none.clone(), Some("5.0")),
            ("math-mul", "{{ 5 * 2 }}", none.clone(), Some("10")),
            ("math-mod", "{{ 2 % 2 }}", none.clone(), Some("0")),
            ("concat", "{{ \"hello \" ~ 'world' ~ `!` }}", none.clone(), Some("hello world!")),
            ("undef-print", "{{ hey }}", none.clone(), None),
            ("undef-field", "{{ existing.hey }}", b(&[("existing", V::map(&[("a", V::I64(1))]))]), None),
            ("undef-or", "{{ hey or 1 }}", none.clone(), Some("1")),
            ("false-and", "{{ false and user.name }}", none.clone(), Some("false")),
            ("if-undef-or-true", "{% if hey or true %}Y{% else %}N{% endif %}", none.clone(), Some("Y")),
            ("if-two-level", "{% if hey.other or true %}Y{% else %}N{% endif %}", none.clone(), None),
            ("two-level-or", "{{ hey.other or 1 }}", none.clone(), None),
            ("if-two-level-plain", "{% if not_existing.field %}Y{% endif %}", none.clone(), None),
            ("if-undef", "{% if my_var %}{{ my_var }}{% else %}Sorry{% endif %}", none.clone(), Some("Sorry")),
            ("optional-chain", "{{ a?.b?.c or \"should print\" }}", none.clone(), Some("should print")),
            ("optional-subscript", "{{ a?['b']?.c or \"should print\" }}", none.clone(), Some("should print")),
            ("optional-chain-none", "{{ a?.b?.c or \"should print\" }}", b(&[("a", V::map(&[("b", V::None)]))]), Some("should print")),
            ("optional-chain-value", "{{ a?.b?.c or \"should print\" }}", b(&[("a", V::map(&[("b", V::map(&[("c", V::s("v"))]))]))]), Some("v")),
            ("ternary", "{{ \"majeur\" if age >= 18 else \"mineur\" }}", b(&[("age", V::I64(18))]), Some("majeur")),
            ("ternary-else", "{{ \"majeur\" if age >= 18 else \"mineur\" }}", b(&[("age", V::I64(17))]), Some("mineur")),
            ("default-empty", "{{ \"\" | default (value=\"Louise Michel\") }}", none.clone(), Some("")),
            ("default-boolean", "{{ \"\" | default (value=\"Louise Michel\", boolean=true) }}", none.clone(), Some("Louise Michel")),
            ("default-undef", "{{ value | default(value=1) }}", none.clone(), Some("1")),
            ("abs", "{{ negative_number | abs }}", b(&[("negative_number", V::I64(-1))]), Some("1")),
            ("in-array", "{{ some_var in [1, 2, 3] }}", b(&[("some_var", V::I64(2))]), Some("true")),
            ("in-string", "{{ 'index' in page.path }}", b(&[("page", V::map(&[("path", V::s("/index.html"))]))]), Some("true")),
            ("not-in-map", "{{ an_ident not in  an_obj }}", b(&[("an_ident", V::s("k")), ("an_obj", V::map(&[("k", V::I64(1))]))]), Some("false")),
            ("bracket", "{{product['name']}}", b(&[("product", V::map(&[("name", V::s("Fred"))]))]), Some("Fred")),
            ("bracket-var", "{{product[my_field]}}", b(&[("product", V::map(&[("name", V::s("Fred"))])), ("my_field", V::s("name"))]), Some("Fred")),
            ("index-last", "{{ numbers[-1] }}", b(&[("numbers", V::Arr(vec![V::I64(1), V::I64(2), V::I64(3)]))]), Some("3")),
            ("string-index-last", "{{ product.name[-1] }}", b(&[("product", V::map(&[("name", V::s("Fred"))]))]), Some("d")),
            ("odd", "{% if my_number is odd %}Odd{% endif %}", b(&[("my_number", V::I64(3))]), Some("Odd")),
            ("not-odd", "{% if my_number is not odd %}Even{% endif %}", b(&[("my_number", V::I64(4))]), Some("Even")),
            ("if-python", "{% if price < 10 or always_show %}P{% elif price > 1000 and not rich %}E{% else %}N{% endif %}", b(&[("price", V::I64(2000)), ("always_show", V::Bool(false)), ("rich", V::Bool(false))]), Some("E")),
            ("throw", "{{ throw(message=\"boom\") }}", none.clone(), None),
        ]
    }

    // ------------------------------------------------------------------ convenience for other checks
    /// Visits every program of the quick (or thorough) S, U, T and L families and the pair (or
    /// triple) trees of P under their first `p_assignments_cap` leaf assignments.
    pub fn for_each_program(thorough: bool, p_assignments_cap: u64, f: &mut dyn FnMut(Case)) {
        let classes = p_classes();
        let k = if thorough { 3 } else { 2 };
        for ms in p_multisets(k) {
            for sl in p_expand(&classes, &ms) {
                let name = sl.iter().map(|s| s.name()).collect::<Vec<_>>().join("+");
                for (ti, (tree, n)) in p_trees(&sl).into_iter().enumerate() {
                    let pool = p_pool(n, thorough);
                    let total = p_assignments(&pool, n).min(p_assignments_cap);
                    for a in 0..total {
                        f(Case::new(format!("P/{name}/t{ti}/a{a}"), Prog::Print(tree.clone()), p_assignment(&pool, n, a)));
                    }
                }
            }
        }
        for it in s_items(thorough) {
            s_cases(&it, thorough, f);
        }
        for ch in u_chains() {
            u_cases(&ch, f);
        }
        let vals = t_values();
        for (name, e) in t_unary_forms() {
            for (i, a) in vals.iter().enumerate() {
                f(Case::new(format!("T/{name}/{i}"), Prog::Print(e.clone()), vec![("a".into(), a.clone())]));
            }
        }
        for (name, e) in t_binary_forms() {
            for (i, a) in vals.iter().enumerate() {
                for (j, b) in vals.iter().enumerate() {
                    f(Case::new(format!("T/{name}/{i},{j}"), Prog::Print(e.clone()), vec![("a".into(), a.clone()), ("b".into(), b.clone())]));
                }
            }
        }
        for c in l_cases() {
            f(c);
        }
        let _ = BTreeMap::<u8, u8>::new();
    }
}
