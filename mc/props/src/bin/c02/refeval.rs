//! C02 — reference tree evaluator over `crate::expr::{Expr, Prog}`.
//!
//! Written from the documentation (docs/content/_index.md: literals, variables, dot / bracket
//! notation, optional chaining, math, comparisons, logic, `~`, `in`, spread, slicing, ternary,
//! list comprehension, operator precedence, built-in filters / tests; MIGRATION.md: the
//! "one level of undefined-ness" rules) and from the property statement — not from the engine.
//! Values are `mccore::vals::V`; "undefined" is the typed value `V::Undef`.
//!
//! The evaluator answers one of three things (`Outcome`):
//!   `Text(s)` — the documentation assigns this rendering,
//!   `Err`     — the documentation (or the property statement) makes this an error,
//!   `Any`     — the documentation is silent / ambiguous here (*pinned, not asserted*): no claim.
//! plus `OneOf` when the only freedom is the iteration order of a map.
//!
//! Pinned (=> `Any`): `~` with operands other than strings / numbers; `==`/`!=` with undefined;
//! left operands of `in` outside {int, string, bool} (and int / bool needles in a string);
//! `.`/`[]` on a base that is not a map / array / string (scalars, none); out-of-range indexes;
//! bool map keys used as index; truthiness of bytes and NaN; ordering of none / arrays / maps /
//! bytes / undefined-with-undefined; `/` of two integers when the quotient is integral (the
//! documentation prints `5` for `10 / 2`, the engine prints `5.0`); `//`, `%` with a negative
//! divisor; `**` with a negative integer exponent; division by a float zero; kind tests, `str`
//! and `default(boolean=true)` on undefined; spreading a string / map into an array or an array /
//! string into a map; one-variable iteration over a map; key/value iteration over a non-map;
//! iteration over bytes; `loop.*` inside a comprehension that itself stands inside a `for`; an
//! undefined value passed to a component or stored by `set`; the printed form of none inside
//! containers, of undefined inside containers, of bytes and of maps with keys of mixed kinds.
//! Value formatting otherwise follows what the engine documents in `Value::format`'s contract as
//! observed (integers in decimal, floats as Rust `{:?}`, strings raw at top level and quoted with
//! `{:?}` inside containers, arrays `[a, b]`, maps `{k: v}` sorted by key, none as the empty
//! string): C02 decides *which value* an expression has, not how values print.

#![allow(dead_code)]

use crate::expr::{BinOp, Entry, Expr, MapEntry, Prog, UnOp};
use mccore::numref::{cmp_exact, num_of};
use mccore::vals::{K, Kind, V};
use std::cell::Cell;
use std::cmp::Ordering;

#[derive(Clone, Debug, PartialEq)]
pub enum Outcome {
    Text(String),
    /// any of these texts (map iteration order)
    OneOf(Vec<String>),
    Err,
    Any,
}

impl Outcome {
    pub fn class(&self) -> &'static str {
        match self {
            Outcome::Text(_) | Outcome::OneOf(_) => "ok",
            Outcome::Err => "err",
            Outcome::Any => "pinned",
        }
    }
    pub fn show(&self) -> String {
        match self {
            Outcome::Text(s) => format!("Ok({s:?})"),
            Outcome::OneOf(v) => format!("Ok(one of {v:?})"),
            Outcome::Err => "Err".into(),
            Outcome::Any => "unspecified".into(),
        }
    }
    /// Does an observed engine result (Ok text / Err) agree with the reference?
    pub fn accepts(&self, observed: Result<&str, ()>) -> bool {
        match (self, observed) {
            (Outcome::Any, _) => true,
            (Outcome::Text(s), Ok(t)) => s == t,
            (Outcome::OneOf(v), Ok(t)) => v.iter().any(|s| s == t),
            (Outcome::Err, Err(())) => true,
            _ => false,
        }
    }
}

/// Why evaluation stopped without a value.
#[derive(Clone, Copy, Debug, PartialEq, Eq)]
pub enum Stop {
    Err,
    Any,
}

pub type R = Result<V, Stop>;

pub struct Env {
    vars: Vec<(String, V)>,
    /// which permutation of map entries an iteration over a map uses
    perm: usize,
    /// number of iterations over maps with >= 2 entries (more than one => order claims dropped)
    map_iters: Cell<u32>,
    /// `loop` refers to an enclosing `for` (pinned) rather than being an unbound name
    loop_pinned: bool,
}

impl Env {
    pub fn new(bindings: &[(String, V)]) -> Env {
        Env { vars: bindings.iter().filter(|(_, v)| *v != V::Undef).cloned().collect(), perm: 0, map_iters: Cell::new(0), loop_pinned: false }
    }
    fn get(&self, n: &str) -> V {
        self.vars.iter().rev().find(|(k, _)| k == n).map(|(_, v)| v.clone()).unwrap_or(V::Undef)
    }
    fn with<T>(&mut self, binds: Vec<(String, V)>, f: impl FnOnce(&mut Env) -> T) -> T {
        let n = self.vars.len();
        self.vars.extend(binds);
        let r = f(self);
        self.vars.truncate(n);
        r
    }
}

// ------------------------------------------------------------------------------------------
// value helpers
// ------------------------------------------------------------------------------------------

fn str_of(v: &V) -> Option<&str> {
    match v {
        V::Str(s) | V::Safe(s) => Some(s),
        _ => None,
    }
}

/// Truthiness; `None` = not documented (bytes, NaN).
pub fn truthy(v: &V) -> Option<bool> {
    Some(match v {
        V::Undef | V::None => false,
        V::Bool(b) => *b,
        V::I64(i) => *i != 0,
        V::U64(i) => *i != 0,
        V::I128(i) => *i != 0,
        V::U128(i) => *i != 0,
        V::F64(f) => {
            if f.is_nan() {
                return None;
            }
            *f != 0.0
        }
        V::Str(s) | V::Safe(s) => !s.is_empty(),
        V::Bytes(_) => return None,
        V::Arr(a) => !a.is_empty(),
        V::Map(m) => !m.is_empty(),
    })
}

fn has_nan(v: &V) -> bool {
    match v {
        V::F64(f) => f.is_nan(),
        V::Arr(xs) => xs.iter().any(has_nan),
        V::Map(kv) => kv.iter().any(|(_, x)| has_nan(x)),
        _ => false,
    }
}

fn has_undef(v: &V) -> bool {
    match v {
        V::Undef => true,
        V::Arr(xs) => xs.iter().any(has_undef),
        V::Map(kv) => kv.iter().any(|(_, x)| has_undef(x)),
        _ => false,
    }
}

fn key_eq(a: &K, b: &K) -> bool {
    match (a, b) {
        (K::Str(x), K::Str(y)) => x == y,
        (K::Bool(x), K::Bool(y)) => x == y,
        (K::Str(_), _) | (_, K::Str(_)) | (K::Bool(_), _) | (_, K::Bool(_)) => false,
        _ => cmp_exact(&num_of(&a.as_v()).unwrap(), &num_of(&b.as_v()).unwrap()) == Ordering::Equal,
    }
}

/// Structural equality: numbers by mathematical value across encodings, strings by text
/// (safe or not), containers element-wise, different kinds unequal. Callers exclude undefined
/// and NaN (pinned).
pub fn ref_eq(a: &V, b: &V) -> bool {
    match (a.kind(), b.kind()) {
        (Kind::Undef, Kind::Undef) | (Kind::None, Kind::None) => true,
        (Kind::Bool, Kind::Bool) => a == b,
        (Kind::Int | Kind::Float, Kind::Int | Kind::Float) => cmp_exact(&num_of(a).unwrap(), &num_of(b).unwrap()) == Ordering::Equal,
        (Kind::Str, Kind::Str) => str_of(a) == str_of(b),
        (Kind::Bytes, Kind::Bytes) => a == b,
        (Kind::Arr, Kind::Arr) => {
            let (V::Arr(x), V::Arr(y)) = (a, b) else { unreachable!() };
            x.len() == y.len() && x.iter().zip(y).all(|(p, q)| ref_eq(p, q))
        }
        (Kind::Map, Kind::Map) => {
            let (V::Map(x), V::Map(y)) = (a, b) else { unreachable!() };
            x.len() == y.len() && x.iter().all(|(k, v)| y.iter().any(|(k2, v2)| key_eq(k, k2) && ref_eq(v, v2)))
        }
        _ => false,
    }
}

fn int_of(v: &V) -> Option<i128> {
    v.as_i128()
}

fn float_of(v: &V) -> Option<f64> {
    match v {
        V::F64(f) => Some(*f),
        other => other.as_i128().map(|i| i as f64).or(match other {
            V::U128(u) => Some(*u as f64),
            _ => None,
        }),
    }
}

fn mk_int(i: i128) -> V {
    if let Ok(x) = i64::try_from(i) { V::I64(x) } else { V::I128(i) }
}

/// Removes duplicate keys (later wins, position of the first occurrence is irrelevant: maps
/// print sorted).
fn map_insert(m: &mut Vec<(K, V)>, k: K, v: V) {
    if let Some(e) = m.iter_mut().find(|(k2, _)| key_eq(k2, &k)) {
        e.1 = v;
    } else {
        m.push((k, v));
    }
}

fn key_of(v: &V) -> Option<K> {
    Some(match v {
        V::Str(s) | V::Safe(s) => K::Str(s.clone()),
        V::Bool(b) => K::Bool(*b),
        V::I64(i) => K::I64(*i),
        V::U64(i) => K::U64(*i),
        V::I128(i) => K::I128(*i),
        V::U128(i) => K::U128(*i),
        _ => return None,
    })
}

/// The printed form of a value; `None` where the form is pinned.
pub fn fmt_value(v: &V) -> Option<String> {
    fmt_inner(v, true)
}

fn fmt_inner(v: &V, top: bool) -> Option<String> {
    Some(match v {
        V::Undef => return None,
        V::None => {
            if top {
                String::new()
            } else {
                return None;
            }
        }
        V::Bool(b) => format!("{b}"),
        V::I64(i) => format!("{i}"),
        V::U64(i) => format!("{i}"),
        V::I128(i) => format!("{i}"),
        V::U128(i) => format!("{i}"),
        V::F64(f) => format!("{f:?}"),
        V::Str(s) | V::Safe(s) => {
            if top {
                s.clone()
            } else {
                format!("{s:?}")
            }
        }
        V::Bytes(_) => return None,
        V::Arr(xs) => {
            let parts: Option<Vec<String>> = xs.iter().map(|x| fmt_inner(x, false)).collect();
            format!("[{}]", parts?.join(", "))
        }
        V::Map(kv) => {
            let all_str = kv.iter().all(|(k, _)| matches!(k, K::Str(_)));
            let all_int = kv.iter().all(|(k, _)| matches!(k, K::I64(_) | K::U64(_) | K::I128(_) | K::U128(_)));
            let all_bool = kv.iter().all(|(k, _)| matches!(k, K::Bool(_)));
            let mut entries: Vec<&(K, V)> = kv.iter().collect();
            if all_str {
                entries.sort_by(|a, b| match (&a.0, &b.0) {
                    (K::Str(x), K::Str(y)) => x.cmp(y),
                    _ => unreachable!(),
                });
            } else if all_int {
                entries.sort_by(|a, b| cmp_exact(&num_of(&a.0.as_v()).unwrap(), &num_of(&b.0.as_v()).unwrap()));
            } else if all_bool {
                entries.sort_by_key(|e| matches!(e.0, K::Bool(true)));
            } else {
                return None;
            }
            let mut parts = vec![];
            for (k, x) in entries {
                let ks = match k {
                    K::Str(s) => format!("{s:?}"),
                    K::Bool(b) => format!("{b}"),
                    K::I64(i) => format!("{i}"),
                    K::U64(i) => format!("{i}"),
                    K::I128(i) => format!("{i}"),
                    K::U128(i) => format!("{i}"),
                };
                parts.push(format!("{ks}: {}", fmt_inner(x, false)?));
            }
            format!("{{{}}}", parts.join(", "))
        }
    })
}

fn py_slice<T: Clone>(items: &[T], start: Option<i128>, end: Option<i128>, step: i128) -> Vec<T> {
    let len = items.len() as i128;
    let (lo, hi) = if step > 0 { (0, len) } else { (-1, len - 1) };
    let fix = |p: Option<i128>, default: i128| match p {
        None => default,
        Some(p) => (if p < 0 { p + len } else { p }).clamp(lo, hi),
    };
    let s = fix(start, if step > 0 { lo } else { hi });
    let e = fix(end, if step > 0 { hi } else { lo });
    let mut out = vec![];
    let mut i = s;
    while if step > 0 { i < e } else { i > e } {
        out.push(items[i as usize].clone());
        i += step;
    }
    out
}

fn permutation(n: usize, mut idx: usize) -> Vec<usize> {
    let mut pool: Vec<usize> = (0..n).collect();
    let mut out = vec![];
    for k in (1..=n).rev() {
        out.push(pool.remove(idx % k));
        idx /= k;
    }
    out
}

fn factorial(n: usize) -> usize {
    (1..=n).product::<usize>().max(1)
}

// ------------------------------------------------------------------------------------------
// evaluation
// ------------------------------------------------------------------------------------------

pub fn eval(e: &Expr, env: &mut Env) -> R {
    match e {
        Expr::Lit(v) => Ok(v.clone()),
        Expr::Var(n) => {
            if n == "loop" && env.loop_pinned {
                return Err(Stop::Any);
            }
            Ok(env.get(n))
        }
        Expr::Attr { base, name, opt } => {
            let b = eval(base, env)?;
            if *opt && matches!(b, V::Undef | V::None) {
                return Ok(V::Undef);
            }
            match &b {
                // looking up a field on an undefined value is an error
                V::Undef => Err(Stop::Err),
                V::Map(kv) => Ok(kv
                    .iter()
                    .find(|(k, _)| matches!(k, K::Str(s) if s == name))
                    .map(|(_, v)| v.clone())
                    .unwrap_or(V::Undef)),
                // "Specific members of an array or tuple are accessed by using the .i notation"
                V::Arr(xs) if !name.is_empty() && name.chars().all(|c| c.is_ascii_digit()) => {
                    match name.parse::<usize>().ok().and_then(|i| xs.get(i)) {
                        Some(v) => Ok(v.clone()),
                        None => Err(Stop::Any),
                    }
                }
                _ => Err(Stop::Any),
            }
        }
        Expr::Index { base, key, opt } => {
            let b = eval(base, env)?;
            let k = eval(key, env);
            if *opt && matches!(b, V::Undef | V::None) {
                return match k {
                    Ok(_) => Ok(V::Undef),
                    // whether the key is evaluated at all when the base short-circuits is not documented
                    Err(_) => Err(Stop::Any),
                };
            }
            if b == V::Undef {
                // error either way (the key may fail first)
                return match k {
                    Err(Stop::Any) => Err(Stop::Any),
                    _ => Err(Stop::Err),
                };
            }
            let k = k?;
            if k == V::Undef {
                return Err(Stop::Err);
            }
            match &b {
                V::Map(kv) => match k.kind() {
                    Kind::Str | Kind::Int => {
                        let kk = key_of(&k).unwrap();
                        Ok(kv.iter().find(|(k2, _)| key_eq(k2, &kk)).map(|(_, v)| v.clone()).unwrap_or(V::Undef))
                    }
                    Kind::Bool => Err(Stop::Any),
                    // "Only variables evaluating to string or integer number can be used as index:
                    // anything else will be an error."
                    _ => Err(Stop::Err),
                },
                V::Arr(xs) => match k.kind() {
                    Kind::Int => match int_of(&k) {
                        Some(i) => {
                            let n = xs.len() as i128;
                            let j = if i < 0 { i + n } else { i };
                            if (0..n).contains(&j) { Ok(xs[j as usize].clone()) } else { Err(Stop::Any) }
                        }
                        None => Err(Stop::Any),
                    },
                    Kind::Str => Err(Stop::Any),
                    _ => Err(Stop::Err),
                },
                V::Str(s) | V::Safe(s) => match k.kind() {
                    Kind::Int => match int_of(&k) {
                        Some(i) => {
                            let chars: Vec<char> = s.chars().collect();
                            let n = chars.len() as i128;
                            let j = if i < 0 { i + n } else { i };
                            if (0..n).contains(&j) { Ok(V::Str(chars[j as usize].to_string())) } else { Err(Stop::Any) }
                        }
                        None => Err(Stop::Any),
                    },
                    Kind::Str => Err(Stop::Any),
                    _ => Err(Stop::Err),
                },
                _ => Err(Stop::Any),
            }
        }
        Expr::Slice { base, start, end, step, opt } => {
            let b = eval(base, env)?;
            let mut bounds: Vec<Option<V>> = vec![];
            for x in [start, end, step] {
                bounds.push(match x {
                    Some(e) => Some(eval(e, env)?),
                    None => None,
                });
            }
            if *opt && matches!(b, V::Undef | V::None) {
                return Ok(V::Undef);
            }
            if b == V::Undef {
                return Err(Stop::Err);
            }
            let mut ints: Vec<Option<i128>> = vec![];
            for x in &bounds {
                ints.push(match x {
                    None | Some(V::None) => None,
                    Some(V::Undef) => return Err(Stop::Err),
                    Some(v) if v.kind() == Kind::Int => match int_of(v) {
                        Some(i) => Some(i),
                        None => return Err(Stop::Any),
                    },
                    Some(_) => return Err(Stop::Any),
                });
            }
            let st = ints[2].unwrap_or(1);
            if st == 0 {
                return Err(Stop::Any);
            }
            match &b {
                V::Arr(xs) => Ok(V::Arr(py_slice(xs, ints[0], ints[1], st))),
                V::Str(s) | V::Safe(s) => {
                    let chars: Vec<char> = s.chars().collect();
                    Ok(V::Str(py_slice(&chars, ints[0], ints[1], st).into_iter().collect()))
                }
                // only arrays and strings can be sliced: an operation on an unsupported operand
                // type fails, whatever the bounds are (seeded change C02-13 answered `n[:]` with a
                // copy of n before looking at its kind)
                _ => Err(Stop::Err),
            }
        }
        Expr::Unary(UnOp::Not, x) => {
            let v = eval(x, env)?;
            truthy(&v).map(|t| V::Bool(!t)).ok_or(Stop::Any)
        }
        Expr::Unary(UnOp::Neg, x) => {
            let v = eval(x, env)?;
            match &v {
                V::F64(f) => Ok(V::F64(-f)),
                _ if v.kind() == Kind::Int => match int_of(&v).and_then(|i| i.checked_neg()) {
                    Some(i) => Ok(mk_int(i)),
                    None => Err(Stop::Any),
                },
                // math is only allowed on numbers; math on undefined is an error
                _ => Err(Stop::Err),
            }
        }
        Expr::Binary(op, l, r) => eval_binary(*op, l, r, env),
        Expr::Test { expr, name, negated, kwargs } => {
            let v = eval(expr, env)?;
            for (_, k) in kwargs {
                eval(k, env)?;
            }
            let res = eval_test(name, &v)?;
            Ok(V::Bool(res != *negated))
        }
        Expr::Filter { expr, name, kwargs } => {
            let v = eval(expr, env)?;
            let mut kw = vec![];
            for (n, k) in kwargs {
                kw.push((n.as_str(), eval(k, env)?));
            }
            eval_filter(name, v, &kw)
        }
        Expr::Ternary { cond, then, other } => {
            let c = eval(cond, env)?;
            match truthy(&c) {
                Some(true) => eval(then, env),
                Some(false) => eval(other, env),
                None => Err(Stop::Any),
            }
        }
        Expr::Call { name, kwargs } => {
            let mut kw = vec![];
            for (n, k) in kwargs {
                kw.push((n.as_str(), eval(k, env)?));
            }
            match name.as_str() {
                "throw" => Err(Stop::Err),
                "range" => {
                    let get = |n: &str| kw.iter().find(|(k, _)| *k == n).map(|(_, v)| v);
                    let end = match get("end") {
                        Some(v) if v.kind() == Kind::Int => int_of(v).ok_or(Stop::Any)?,
                        _ => return Err(Stop::Any),
                    };
                    if get("start").is_some() || get("step_by").is_some() || !(0..1000).contains(&end) {
                        return Err(Stop::Any);
                    }
                    Ok(V::Arr((0..end).map(mk_int).collect()))
                }
                _ => Err(Stop::Any),
            }
        }
        Expr::Array(items) => {
            let mut out = vec![];
            for it in items {
                match it {
                    Entry::Item(x) => out.push(eval(x, env)?),
                    Entry::Spread(x) => match eval(x, env)? {
                        V::Arr(xs) => out.extend(xs),
                        V::Str(_) | V::Safe(_) | V::Map(_) | V::Bytes(_) => return Err(Stop::Any),
                        // no coerced result for an unsupported operand
                        _ => return Err(Stop::Err),
                    },
                }
            }
            Ok(V::Arr(out))
        }
        Expr::Map(items) => {
            let mut out: Vec<(K, V)> = vec![];
            for it in items {
                match it {
                    MapEntry::Kv(k, x) => {
                        let v = eval(x, env)?;
                        map_insert(&mut out, k.clone(), v);
                    }
                    MapEntry::Spread(x) => match eval(x, env)? {
                        V::Map(kv) => {
                            for (k, v) in kv {
                                map_insert(&mut out, k, v);
                            }
                        }
                        V::Arr(_) | V::Str(_) | V::Safe(_) | V::Bytes(_) => return Err(Stop::Any),
                        _ => return Err(Stop::Err),
                    },
                }
            }
            Ok(V::Map(out))
        }
        Expr::Comp { elem, key, var, iter, cond } => {
            let it = eval(iter, env)?;
            let rows = iterate(&it, key.is_some(), env)?;
            let mut out = vec![];
            for (k, v) in rows {
                let mut binds = vec![(var.clone(), v)];
                if let (Some(kn), Some(kv)) = (key, k) {
                    binds.push((kn.clone(), kv));
                }
                let r: Result<Option<V>, Stop> = env.with(binds, |env| {
                    if let Some(c) = cond {
                        let cv = eval(c, env)?;
                        match truthy(&cv) {
                            Some(true) => {}
                            Some(false) => return Ok(None),
                            None => return Err(Stop::Any),
                        }
                    }
                    Ok(Some(eval(elem, env)?))
                });
                if let Some(v) = r? {
                    out.push(v);
                }
            }
            Ok(V::Arr(out))
        }
    }
}

/// The (key, value) rows an iteration visits.
fn iterate(it: &V, key_value: bool, env: &Env) -> Result<Vec<(Option<V>, V)>, Stop> {
    match it {
        V::Arr(xs) => {
            if key_value {
                return Err(Stop::Any);
            }
            Ok(xs.iter().map(|x| (None, x.clone())).collect())
        }
        V::Str(s) | V::Safe(s) => {
            if key_value {
                return Err(Stop::Any);
            }
            Ok(s.chars().map(|c| (None, V::Str(c.to_string()))).collect())
        }
        V::Map(kv) => {
            if !key_value {
                return Err(Stop::Any);
            }
            // distinct keys only (context maps are built that way)
            let mut entries: Vec<(K, V)> = vec![];
            for (k, v) in kv {
                map_insert(&mut entries, k.clone(), v.clone());
            }
            if entries.len() >= 2 {
                env.map_iters.set(env.map_iters.get() + 1);
            }
            let p = permutation(entries.len(), env.perm % factorial(entries.len()));
            Ok(p.into_iter().map(|i| (Some(entries[i].0.as_v()), entries[i].1.clone())).collect())
        }
        V::Bytes(_) => Err(Stop::Any),
        // "can be iterated over in Tera (i.e. is an array, a map or a string)"
        _ => Err(Stop::Err),
    }
}

fn eval_binary(op: BinOp, l: &Expr, r: &Expr, env: &mut Env) -> R {
    if matches!(op, BinOp::And | BinOp::Or) {
        let a = eval(l, env)?;
        let t = truthy(&a).ok_or(Stop::Any)?;
        // evaluate left to right, stop at the deciding operand and yield it
        return if (op == BinOp::And) == t { eval(r, env) } else { Ok(a) };
    }
    let a = eval(l, env)?;
    let b = eval(r, env)?;
    match op {
        BinOp::Add | BinOp::Sub | BinOp::Mul | BinOp::Div | BinOp::FloorDiv | BinOp::Mod | BinOp::Pow => arith(op, &a, &b),
        BinOp::Lt | BinOp::Le | BinOp::Gt | BinOp::Ge => {
            let ord = ordering(&a, &b)?;
            Ok(V::Bool(match op {
                BinOp::Lt => ord == Ordering::Less,
                BinOp::Le => ord != Ordering::Greater,
                BinOp::Gt => ord == Ordering::Greater,
                _ => ord != Ordering::Less,
            }))
        }
        BinOp::Eq | BinOp::Ne => {
            if has_undef(&a) || has_undef(&b) || has_nan(&a) || has_nan(&b) {
                return Err(Stop::Any);
            }
            Ok(V::Bool(ref_eq(&a, &b) == (op == BinOp::Eq)))
        }
        BinOp::Concat => {
            let part = |v: &V| -> Result<String, Stop> {
                match v.kind() {
                    Kind::Str | Kind::Int | Kind::Float => fmt_value(v).ok_or(Stop::Any),
                    _ => Err(Stop::Any),
                }
            };
            // "The output of a ~ operator will always be a string"
            Ok(V::Str(format!("{}{}", part(&a)?, part(&b)?)))
        }
        BinOp::In | BinOp::NotIn => {
            let res = contains(&b, &a)?;
            Ok(V::Bool(res == (op == BinOp::In)))
        }
        BinOp::And | BinOp::Or => unreachable!(),
    }
}

fn contains(container: &V, needle: &V) -> Result<bool, Stop> {
    let supported = matches!(needle.kind(), Kind::Int | Kind::Str | Kind::Bool);
    match container {
        V::Arr(xs) => {
            if !supported || xs.iter().any(|x| has_nan(x) || has_undef(x)) {
                return Err(Stop::Any);
            }
            Ok(xs.iter().any(|x| ref_eq(x, needle)))
        }
        V::Str(s) | V::Safe(s) => match str_of(needle) {
            Some(n) => Ok(s.contains(n)),
            None => Err(Stop::Any),
        },
        V::Map(kv) => {
            if !supported {
                return Err(Stop::Any);
            }
            let k = key_of(needle).unwrap();
            Ok(kv.iter().any(|(k2, _)| key_eq(k2, &k)))
        }
        // "Only literals/variables resulting in an array, a string and a map are supported on
        // the right hand side: everything else will raise an error."
        _ => Err(Stop::Err),
    }
}

fn ordering(a: &V, b: &V) -> Result<Ordering, Stop> {
    match (a.kind(), b.kind()) {
        (Kind::Int | Kind::Float, Kind::Int | Kind::Float) => {
            if has_nan(a) || has_nan(b) {
                return Err(Stop::Any);
            }
            Ok(cmp_exact(&num_of(a).unwrap(), &num_of(b).unwrap()))
        }
        (Kind::Str, Kind::Str) => Ok(str_of(a).unwrap().cmp(str_of(b).unwrap())),
        (Kind::Bool, Kind::Bool) => {
            let (V::Bool(x), V::Bool(y)) = (a, b) else { unreachable!() };
            Ok(x.cmp(y))
        }
        (x, y) if x == y => Err(Stop::Any),
        // different kinds (undefined included): no coerced result
        _ => Err(Stop::Err),
    }
}

fn arith(op: BinOp, a: &V, b: &V) -> R {
    // "Math operations are only allowed with numbers, using them on any other kind of values will
    // result in an error."
    if !a.is_number() || !b.is_number() {
        return Err(Stop::Err);
    }
    let both_int = a.kind() == Kind::Int && b.kind() == Kind::Int;
    if both_int {
        let (Some(x), Some(y)) = (int_of(a), int_of(b)) else { return Err(Stop::Any) };
        let r = match op {
            BinOp::Add => x.checked_add(y),
            BinOp::Sub => x.checked_sub(y),
            BinOp::Mul => x.checked_mul(y),
            BinOp::Div => {
                if y == 0 {
                    return Err(Stop::Err);
                }
                if x % y == 0 {
                    // documentation: `{{ 10 / 2 }}` prints `5`; engine prints `5.0` — see the
                    // dedicated documentation-example family
                    return Err(Stop::Any);
                }
                return Ok(V::F64(x as f64 / y as f64));
            }
            BinOp::FloorDiv => {
                if y == 0 {
                    return Err(Stop::Err);
                }
                if y < 0 {
                    return Err(Stop::Any);
                }
                x.checked_div_euclid(y)
            }
            BinOp::Mod => {
                if y == 0 {
                    return Err(Stop::Err);
                }
                if y < 0 {
                    return Err(Stop::Any);
                }
                // a modulo: the result lies in [0, y)
                x.checked_rem_euclid(y)
            }
            BinOp::Pow => {
                if y < 0 {
                    return Err(Stop::Any);
                }
                match u32::try_from(y) {
                    Ok(e) => x.checked_pow(e),
                    Err(_) => None,
                }
            }
            _ => unreachable!(),
        };
        return r.map(mk_int).ok_or(Stop::Any);
    }
    let (Some(x), Some(y)) = (float_of(a), float_of(b)) else { return Err(Stop::Any) };
    if x.is_nan() || y.is_nan() {
        return Err(Stop::Any);
    }
    let r = match op {
        BinOp::Add => x + y,
        BinOp::Sub => x - y,
        BinOp::Mul => x * y,
        BinOp::Div => {
            if y == 0.0 {
                return Err(Stop::Any);
            }
            x / y
        }
        BinOp::FloorDiv => {
            if y == 0.0 || y < 0.0 || !x.is_finite() || !y.is_finite() {
                return Err(Stop::Any);
            }
            x.div_euclid(y)
        }
        BinOp::Mod => {
            if y == 0.0 || y < 0.0 || !x.is_finite() || !y.is_finite() {
                return Err(Stop::Any);
            }
            x.rem_euclid(y)
        }
        BinOp::Pow => x.powf(y),
        _ => unreachable!(),
    };
    if r.is_nan() {
        return Err(Stop::Any);
    }
    Ok(V::F64(r))
}

fn eval_test(name: &str, v: &V) -> Result<bool, Stop> {
    let kind_test = |k: bool| if *v == V::Undef { Err(Stop::Any) } else { Ok(k) };
    match name {
        "defined" => Ok(*v != V::Undef),
        "undefined" => Ok(*v == V::Undef),
        "odd" | "even" => match v.kind() {
            Kind::Int => match v {
                V::U128(u) => Ok((u % 2 == 1) == (name == "odd")),
                _ => Ok((int_of(v).unwrap().rem_euclid(2) == 1) == (name == "odd")),
            },
            Kind::Float => Err(Stop::Any),
            _ => Err(Stop::Err),
        },
        "string" => kind_test(v.kind() == Kind::Str),
        "number" => kind_test(v.is_number()),
        "integer" => kind_test(v.kind() == Kind::Int),
        "float" => kind_test(v.kind() == Kind::Float),
        "map" => kind_test(v.kind() == Kind::Map),
        "array" => kind_test(v.kind() == Kind::Arr),
        "bool" => kind_test(v.kind() == Kind::Bool),
        "none" => kind_test(v.kind() == Kind::None),
        "iterable" => {
            if v.kind() == Kind::Bytes {
                Err(Stop::Any)
            } else {
                kind_test(matches!(v.kind(), Kind::Arr | Kind::Map | Kind::Str))
            }
        }
        _ => Err(Stop::Any),
    }
}

fn eval_filter(name: &str, v: V, kw: &[(&str, V)]) -> R {
    let get = |n: &str| kw.iter().find(|(k, _)| *k == n).map(|(_, v)| v.clone());
    match name {
        "upper" | "lower" => match str_of(&v) {
            Some(s) => Ok(V::Str(if name == "upper" { s.to_uppercase() } else { s.to_lowercase() })),
            None => Err(Stop::Err),
        },
        "length" => match &v {
            V::Arr(xs) => Ok(V::I64(xs.len() as i64)),
            V::Map(kv) => Ok(V::I64(kv.len() as i64)),
            V::Str(s) | V::Safe(s) => Ok(V::I64(s.chars().count() as i64)),
            V::Bytes(_) => Err(Stop::Any),
            _ => Err(Stop::Err),
        },
        "default" => {
            let Some(d) = get("value") else { return Err(Stop::Any) };
            let boolean = match get("boolean") {
                None => false,
                Some(V::Bool(b)) => b,
                Some(_) => return Err(Stop::Any),
            };
            if v == V::Undef {
                return Ok(d);
            }
            if boolean {
                return match truthy(&v) {
                    Some(true) => Ok(v),
                    Some(false) => Ok(d),
                    None => Err(Stop::Any),
                };
            }
            Ok(v)
        }
        "str" => match v.kind() {
            Kind::Str => Ok(V::Str(str_of(&v).unwrap().to_string())),
            Kind::Int | Kind::Float | Kind::Bool => fmt_value(&v).map(V::Str).ok_or(Stop::Any),
            _ => Err(Stop::Any),
        },
        "abs" => match &v {
            V::F64(f) => Ok(V::F64(f.abs())),
            V::U128(_) => Ok(v),
            _ if v.kind() == Kind::Int => int_of(&v).and_then(|i| i.checked_abs()).map(mk_int).ok_or(Stop::Any),
            _ => Err(Stop::Err),
        },
        _ => Err(Stop::Any),
    }
}

// ------------------------------------------------------------------------------------------
// programs
// ------------------------------------------------------------------------------------------

fn print_value(r: R) -> Result<String, Stop> {
    match r? {
        // printing an undefined value is an error
        V::Undef => Err(Stop::Err),
        v => fmt_value(&v).ok_or(Stop::Any),
    }
}

fn run_prog(p: &Prog, env: &mut Env) -> Result<String, Stop> {
    match p {
        Prog::Print(e) => print_value(eval(e, env)),
        Prog::Seq(es) => {
            let mut parts = vec![];
            for e in es {
                parts.push(print_value(eval(e, env))?);
            }
            Ok(parts.join("|"))
        }
        Prog::If(e) => {
            let v = eval(e, env)?;
            truthy(&v).map(|t| if t { "T".to_string() } else { "F".to_string() }).ok_or(Stop::Any)
        }
        Prog::For(e) => {
            let v = eval(e, env)?;
            let rows = iterate(&v, false, env)?;
            if rows.is_empty() {
                return Ok("EMPTY".into());
            }
            let mut out = String::new();
            for (_, x) in rows {
                out.push('[');
                out.push_str(&print_value(Ok(x))?);
                out.push(']');
            }
            Ok(out)
        }
        Prog::InFor(e) => {
            let mut out = String::new();
            for y in [1i64, 2] {
                let was = env.loop_pinned;
                env.loop_pinned = true;
                let r = env.with(vec![("y".into(), V::I64(y))], |env| print_value(eval(e, env)));
                env.loop_pinned = was;
                out.push_str(&r?);
                out.push(';');
            }
            Ok(out)
        }
        Prog::Component(e) => match eval(e, env)? {
            V::Undef => Err(Stop::Any),
            v => Ok(format!("[{}]", fmt_value(&v).ok_or(Stop::Any)?)),
        },
        Prog::Set(e) => match eval(e, env)? {
            V::Undef => Err(Stop::Any),
            v => fmt_value(&v).ok_or(Stop::Any),
        },
    }
}

/// The documented outcome of a program under the bindings.
pub fn outcome(p: &Prog, bindings: &[(String, V)]) -> Outcome {
    let mut texts: Vec<String> = vec![];
    let mut perm = 0;
    loop {
        let mut env = Env::new(bindings);
        env.perm = perm;
        let r = run_prog(p, &mut env);
        let maps = env.map_iters.get();
        match r {
            Err(Stop::Any) => return Outcome::Any,
            Err(Stop::Err) => {
                if maps == 0 || texts.is_empty() {
                    // an error that depends on the iteration order would be odd: only claim it
                    // when no order-dependent iteration happened before it
                    return if maps <= 1 && perm == 0 { Outcome::Err } else { Outcome::Any };
                }
                return Outcome::Any;
            }
            Ok(t) => {
                if maps == 0 {
                    return Outcome::Text(t);
                }
                if maps > 1 {
                    return Outcome::Any;
                }
                if !texts.contains(&t) {
                    texts.push(t);
                }
            }
        }
        perm += 1;
        if perm >= 6 {
            break;
        }
    }
    if texts.len() == 1 { Outcome::Text(texts.pop().unwrap()) } else { Outcome::OneOf(texts) }
}

/// Convenience: the value of an expression (no printing), for checks that need values.
pub fn value(e: &Expr, bindings: &[(String, V)]) -> R {
    let mut env = Env::new(bindings);
    eval(e, &mut env)
}
