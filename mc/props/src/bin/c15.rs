//! C15 — equality, ordering and map-key lookup are coherent across all value kinds.
//!
//! Families (all executed on the real `tera::Value` / `tera::value::Key` / template engine):
//!   laws      every ordered triple (a, b, c) of the value alphabet: `==` is an equivalence that
//!             agrees with an independent structural/mathematical reference; `Ord::cmp` is
//!             antisymmetric, transitive, `Equal` only on `==`, and agrees with `partial_cmp`.
//!   template  every ordered pair through `{{ a == b }}`, `!=`, `<`, `<=`, `>`, `>=`,
//!             `[a, b] | sort`, `[a, b] | unique`.
//!   keys      Key Eq/Ord/Hash laws over all pairs of key encodings, and lookup
//!             (`m[k]`, `m.k`, `k in m`, `get`, `containing`) in maps of 0..=8 entries.

use mccore::engine::{self, Out};
use mccore::numref::{cmp_exact, num_of};
use mccore::vals::{self, K, Kind, V};
use mccore::{Acc, Family, Run, json};
use std::cmp::Ordering;
use std::collections::hash_map::DefaultHasher;
use std::hash::{Hash, Hasher};
use tera::value::Key;

/// Independent reference for `==`.
fn ref_eq(a: &V, b: &V) -> bool {
    match (a.kind(), b.kind()) {
        (Kind::Undef, Kind::Undef) | (Kind::None, Kind::None) => true,
        (Kind::Bool, Kind::Bool) => a == b,
        (Kind::Int | Kind::Float, Kind::Int | Kind::Float) => {
            cmp_exact(&num_of(a).unwrap(), &num_of(b).unwrap()) == Ordering::Equal
        }
        (Kind::Str, Kind::Str) => str_of(a) == str_of(b),
        (Kind::Bytes, Kind::Bytes) => a == b,
        (Kind::Arr, Kind::Arr) => {
            let (V::Arr(x), V::Arr(y)) = (a, b) else { unreachable!() };
            x.len() == y.len() && x.iter().zip(y).all(|(p, q)| ref_eq(p, q))
        }
        (Kind::Map, Kind::Map) => {
            let (V::Map(x), V::Map(y)) = (a, b) else { unreachable!() };
            x.len() == y.len()
                && x.iter().all(|(k, v)| {
                    y.iter()
                        .any(|(k2, v2)| ref_key_eq(k, k2) && ref_eq(v, v2))
                })
        }
        _ => false,
    }
}

fn str_of(v: &V) -> &str {
    match v {
        V::Str(s) | V::Safe(s) => s,
        _ => unreachable!(),
    }
}

fn ref_key_eq(a: &K, b: &K) -> bool {
    match (a, b) {
        (K::Str(x), K::Str(y)) => x == y,
        (K::Bool(x), K::Bool(y)) => x == y,
        (K::Str(_), _) | (_, K::Str(_)) | (K::Bool(_), _) | (_, K::Bool(_)) => false,
        _ => ref_eq(&a.as_v(), &b.as_v()),
    }
}

fn extended_alphabet(thorough: bool) -> Vec<V> {
    let mut v = vals::alphabet_v();
    // the shapes F-ord was about: arrays with incomparable elements, distinct maps, nested ones
    v.push(V::Arr(vec![V::s("b")]));
    v.push(V::Arr(vec![V::I64(0)]));
    v.push(V::Arr(vec![V::I64(2)]));
    v.push(V::Arr(vec![V::I64(1), V::I64(2)]));
    v.push(V::Arr(vec![V::map(&[("a", V::I64(1))])]));
    v.push(V::Arr(vec![V::map(&[("a", V::I64(2))])]));
    v.push(V::map(&[("a", V::I64(1)), ("b", V::I64(1))]));
    v.push(V::map(&[("a", V::F64(1.0))]));
    v.push(V::map(&[("a", V::s("x"))]));
    v.push(V::Map(vec![(K::U64(1), V::s("x"))]));
    v.push(V::Map(vec![(K::I128(1), V::s("y"))]));
    // maps that differ in a BOOL key only (seeded change C16-9: bool keys compared Equal, so the map
    // order used by `unique` could not tell these apart)
    v.push(V::Map(vec![(K::Bool(true), V::I64(1))]));
    v.push(V::Map(vec![(K::Bool(false), V::I64(1))]));
    v.push(V::Arr(vec![V::Map(vec![(K::Bool(true), V::I64(1))])]));
    v.push(V::Arr(vec![V::Map(vec![(K::Bool(false), V::I64(1))])]));
    // more than one integer that only u128 can hold (two such values must still differ)
    v.push(V::U128(1u128 << 127));
    v.push(V::U128(u128::MAX - 1));
    v.push(V::F64(3.402823669209385e38)); // 2^128 as a double
    // negative floats with a fraction next to the integers they truncate / floor to
    v.push(V::F64(-0.5));
    v.push(V::F64(-1.5));
    v.push(V::I64(-2));
    v.push(V::I128(-3));
    // strings that differ by trailing NUL characters only, around the 21-byte inline capacity of the
    // engine's small-string representation (seeded change C15-11 compared inline strings by their
    // zero-padded buffers: `"a" < "a\0"` and `"a\0" < "a"` both false while `==` is false)
    v.push(V::s("\0"));
    v.push(V::s("a\0"));
    v.push(V::s("abcdefghijklmnopqrst\0")); // 21 bytes; its prefix of 20 follows
    v.push(V::s("abcdefghijklmnopqrst"));
    // arrays equal up to and including an (incomparable) map / nested array with a map, differing after it
    v.push(V::Arr(vec![V::map(&[("a", V::I64(1))]), V::s("x")]));
    v.push(V::Arr(vec![V::map(&[("a", V::I64(1))]), V::s("y")]));
    v.push(V::Arr(vec![V::Arr(vec![V::map(&[("a", V::I64(1))])]), V::I64(1)]));
    v.push(V::Arr(vec![V::Arr(vec![V::map(&[("a", V::I64(1))])]), V::I64(2)]));
    if thorough {
        for i in [-3i64, 4, 5, 10, i64::MAX] {
            v.push(V::I64(i));
        }
        for u in [u64::MAX, (1u64 << 53) + 1] {
            v.push(V::U64(u));
        }
        for i in [(1i128 << 53) + 1, -(1i128 << 64), i128::MAX - 1] {
            v.push(V::I128(i));
        }
        for u in [1u128 << 64, (1u128 << 127) + 1, (1u128 << 127) - 1] {
            v.push(V::U128(u));
        }
        for f in [
            -1.0,
            2.0,
            0.5,
            9007199254740993.0,
            1.8446744073709552e19,
            1.7014118346046923e38,
            -1.7014118346046923e38,
            f64::MAX,
            f64::MIN_POSITIVE,
        ] {
            v.push(V::F64(f));
        }
        for s in ["A", "aa", "ab", "é", "z", "\u{10ffff}"] {
            v.push(V::s(s));
        }
        v.push(V::Bytes(b"a".to_vec()));
        v.push(V::Bytes(b"b".to_vec()));
        v.push(V::Arr(vec![V::None, V::I64(1)]));
        v.push(V::Arr(vec![V::Bool(true)]));
        v.push(V::Arr(vec![V::Arr(vec![V::s("a")])]));
        v.push(V::Arr(vec![V::Arr(vec![V::I64(2)])]));
        v.push(V::Arr(vec![V::F64(f64::NAN)]));
        v.push(V::map(&[("a", V::Arr(vec![V::I64(1)]))]));
        v.push(V::map(&[("a", V::map(&[("b", V::I64(2))]))]));
        v.push(V::map(&[("c", V::None)]));
    }
    v
}

fn ord_name(o: Ordering) -> &'static str {
    match o {
        Ordering::Less => "Less",
        Ordering::Equal => "Equal",
        Ordering::Greater => "Greater",
    }
}

fn key_alphabet() -> Vec<K> {
    let mut ks = vec![
        K::Str("a".into()),
        K::Str("b".into()),
        K::Str("k0".into()),
        K::Str("".into()),
        K::Str("1".into()),
        K::Str("true".into()),
        K::Str("é".into()),
        K::Str(vals::LONG_ASCII.into()),
        // names that are prefixes / suffixes of one another, that contain a dot or a blank, that
        // differ in case or in normalisation only, and the longest inline string (21 bytes)
        K::Str("ab".into()),
        K::Str("a.b".into()),
        K::Str("a b".into()),
        K::Str("A".into()),
        K::Str("k00".into()),
        K::Str("e\u{301}".into()),
        K::Str("abcdefghijklmnopqrstu".into()),
        K::Bool(true),
        K::Bool(false),
    ];
    for i in [0i64, 1, -1, 7, i64::MAX, i64::MIN] {
        ks.push(K::I64(i));
        ks.push(K::I128(i as i128));
        if i >= 0 {
            ks.push(K::U64(i as u64));
            ks.push(K::U128(i as u128));
        }
    }
    ks.push(K::U64(u64::MAX));
    ks.push(K::I128(u64::MAX as i128));
    ks.push(K::U128(u64::MAX as u128));
    ks.push(K::I128(i128::MAX));
    ks.push(K::U128(i128::MAX as u128));
    ks.push(K::I128(i128::MIN));
    ks.push(K::U128(u128::MAX));
    ks
}

fn hash_of(k: &Key<'_>) -> u64 {
    let mut h = DefaultHasher::new();
    k.hash(&mut h);
    h.finish()
}

fn main() {
    let mut run = Run::from_env("C15", "exploration");
    // the full bounds cost only a few seconds: both tiers run them
    let thorough = true;
    run.rule(
        "laws: every ordered triple of the value alphabet (one case per triple; non-trivial = the triple \
         exercises a law premise: two of the values are ==, or cmp is Equal, or a<=b<=c holds). \
         template: every ordered pair rendered through 8 programs (non-trivial = both operands defined). \
         keys: every ordered pair of key encodings (Eq/Ord/Hash), and every (map size 0..=8, probe key, \
         present?) lookup through five template forms (non-trivial = the probe key is present in another encoding or absent). \
         Cases are distinct by construction of the enumeration.",
    );
    run.assume("value alphabet of DESIGN.md §4 plus the F-ord shapes; nested values to depth 64 only");
    run.assume("independent reference for == : structural on containers, exact rational comparison on numbers (mccore::numref)");

    let mut vs = extended_alphabet(thorough);
    let mut tv: Vec<tera::Value> = vs.iter().map(|v| v.to_tera()).collect();
    // the same maps with BORROWED string keys (what a serialised struct gives; `V::to_tera` makes
    // owned keys): equal to their owned twins, ordered like them (seeded change C15-3: Ord for Key
    // forgot the owned/borrowed pair)
    for (desc, entries) in [
        (V::map(&[("a", V::I64(1))]), vec![("a", 1i64)]),
        (V::map(&[("b", V::I64(1))]), vec![("b", 1)]),
        (V::map(&[("a", V::I64(2))]), vec![("a", 2)]),
        (V::map(&[("a", V::I64(1)), ("b", V::I64(1))]), vec![("a", 1), ("b", 1)]),
    ] {
        let mut m = tera::value::Map::new();
        for (k, v) in entries {
            m.insert(Key::Str(k), tera::Value::from(v));
        }
        vs.push(desc.clone());
        tv.push(tera::Value::from(m.clone()));
        // and nested in an array
        vs.push(V::Arr(vec![desc]));
        tv.push(tera::Value::from(vec![tera::Value::from(m)]));
    }
    let n = vs.len() as u64;
    run.extra("value_alphabet_size", json!(n));

    // ---------------------------------------------------------------- laws
    run.family(
        Family::new("laws", n * n, &format!("all {n}^3 ordered triples of the value alphabet")),
        |item, acc: &mut Acc| {
            let (ia, ib) = ((item / n) as usize, (item % n) as usize);
            let (a, b) = (&tv[ia], &tv[ib]);
            let (va, vb) = (&vs[ia], &vs[ib]);
            let case = |extra: &str| json!({"a": va.describe(), "b": vb.describe(), "note": extra});
            // pair laws, once per pair
            let r = engine::guarded(|| {
                (a == b, b == a, a.partial_cmp(b), b.partial_cmp(a), a.cmp(b), b.cmp(a))
            });
            let (eq_ab, eq_ba, p_ab, p_ba, c_ab, c_ba) = match r {
                Ok(t) => t,
                Err(p) => {
                    acc.violation("panic:compare", format!("comparison panicked: {p}"), || case(""));
                    return;
                }
            };
            let want_eq = ref_eq(va, vb);
            if eq_ab != want_eq {
                acc.violation(
                    format!("eq-mismatch:{:?}/{:?}", va.kind(), vb.kind()),
                    format!("a == b is {eq_ab}, reference says {want_eq}"),
                    || case(""),
                );
            }
            if eq_ab != eq_ba {
                acc.violation("eq-asymmetric", format!("a==b is {eq_ab} but b==a is {eq_ba}"), || case(""));
            }
            if ia == ib && !eq_ab {
                acc.violation("eq-irreflexive", "a == a is false", || case(""));
            }
            if c_ab != c_ba.reverse() {
                acc.violation(
                    format!("cmp-antisymmetry:{:?}/{:?}", va.kind(), vb.kind()),
                    format!("cmp(a,b)={} but cmp(b,a)={}", ord_name(c_ab), ord_name(c_ba)),
                    || case(""),
                );
            }
            if (c_ab == Ordering::Equal) != eq_ab {
                acc.violation(
                    format!("cmp-equal-vs-eq:{:?}/{:?}", va.kind(), vb.kind()),
                    format!("cmp(a,b)={} while a==b is {eq_ab}", ord_name(c_ab)),
                    || case(""),
                );
            }
            if let Some(p) = p_ab
                && p != c_ab
            {
                acc.violation(
                    "cmp-vs-partial_cmp",
                    format!("partial_cmp={} but cmp={}", ord_name(p), ord_name(c_ab)),
                    || case(""),
                );
            }
            if p_ab.map(|o| o.reverse()) != p_ba {
                acc.violation(
                    "partial_cmp-antisymmetry",
                    format!("partial_cmp(a,b)={p_ab:?} but partial_cmp(b,a)={p_ba:?}"),
                    || case(""),
                );
            }
            if let (Some(x), Some(y)) = (num_of(va), num_of(vb)) {
                let want = cmp_exact(&x, &y);
                if p_ab != Some(want) {
                    acc.violation(
                        "numeric-order",
                        format!("partial_cmp={p_ab:?}, exact mathematical order is {}", ord_name(want)),
                        || case(""),
                    );
                }
            }
            // triple laws
            for ic in 0..vs.len() {
                let c = &tv[ic];
                let r = engine::guarded(|| (b == c, a == c, b.cmp(c), a.cmp(c)));
                let (eq_bc, eq_ac, c_bc, c_ac) = match r {
                    Ok(t) => t,
                    Err(p) => {
                        acc.violation("panic:compare", format!("comparison panicked: {p}"), || {
                            json!({"a": va.describe(), "b": vb.describe(), "c": vs[ic].describe()})
                        });
                        continue;
                    }
                };
                let tcase = || json!({"a": va.describe(), "b": vb.describe(), "c": vs[ic].describe()});
                let mut nontrivial = false;
                if eq_ab && eq_bc {
                    nontrivial = true;
                    if !eq_ac {
                        acc.violation("eq-intransitive", "a==b and b==c but a!=c", tcase);
                    }
                }
                if c_ab != Ordering::Greater && c_bc != Ordering::Greater {
                    nontrivial = true;
                    let strict = c_ab == Ordering::Less || c_bc == Ordering::Less;
                    let ok = if strict { c_ac == Ordering::Less } else { c_ac == Ordering::Equal };
                    if !ok {
                        acc.violation(
                            format!("cmp-intransitive:{:?}/{:?}/{:?}", va.kind(), vb.kind(), vs[ic].kind()),
                            format!(
                                "cmp(a,b)={}, cmp(b,c)={} but cmp(a,c)={}",
                                ord_name(c_ab),
                                ord_name(c_bc),
                                ord_name(c_ac)
                            ),
                            tcase,
                        );
                    }
                }
                acc.case(nontrivial, if nontrivial { "premise-held" } else { "premise-not-held" });
                if ia == 5 && ib == 9 && ic < 2 {
                    acc.sample(tcase);
                }
            }
        },
    );

    // ---------------------------------------------------------------- template
    let tera_inst = tera::Tera::default();
    run.family(
        Family::new("template", n * n, &format!("all {n}^2 ordered pairs through ==, !=, <, <=, >, >=, sort, unique")),
        |item, acc: &mut Acc| {
            let (ia, ib) = ((item / n) as usize, (item % n) as usize);
            let (va, vb) = (&vs[ia], &vs[ib]);
            let (a, b) = (&tv[ia], &tv[ib]);
            let ctx = vals::context(&[("a", va), ("b", vb)]);
            let defined = *va != V::Undef && *vb != V::Undef;
            let case = |src: &str| json!({"template": src, "a": va.describe(), "b": vb.describe()});
            let want_eq = ref_eq(va, vb);
            let pc = a.partial_cmp(b);
            let progs: [(&str, Option<bool>); 6] = [
                ("{{ a == b }}", Some(want_eq)),
                ("{{ a != b }}", Some(!want_eq)),
                ("{{ a < b }}", pc.map(|o| o == Ordering::Less)),
                ("{{ a <= b }}", pc.map(|o| o != Ordering::Greater)),
                ("{{ a > b }}", pc.map(|o| o == Ordering::Greater)),
                ("{{ a >= b }}", pc.map(|o| o != Ordering::Less)),
            ];
            for (src, want) in progs {
                let out = engine::render_str(&tera_inst, src, &ctx, false);
                let ok = match (&out, want) {
                    (Out::Ok(s), Some(w)) => s == if w { "true" } else { "false" },
                    (Out::Err(..), None) => true,
                    _ => false,
                };
                if !ok {
                    acc.violation(
                        format!("template-compare:{}", &src[5..7].trim()),
                        format!("{src} gave {}, expected {}", out.show(), match want { Some(w) => format!("{w}"), None => "an error (values not comparable)".into() }),
                        || case(src),
                    );
                }
                acc.case(defined, out.class());
            }
            if defined {
                // sort: Err iff neither is none and the two are not comparable
                let src = "{{ [a, b] | sort }}|{{ [a, b] }}|{{ [b, a] }}";
                let sort_out = engine::render_str(&tera_inst, "{{ [a, b] | sort }}", &ctx, false);
                let comparable = pc.is_some() || *va == V::None || *vb == V::None;
                match (&sort_out, comparable) {
                    (Out::Ok(s), true) => {
                        let ab = engine::render_str(&tera_inst, "{{ [a, b] }}", &ctx, false);
                        let ba = engine::render_str(&tera_inst, "{{ [b, a] }}", &ctx, false);
                        let want = if a.cmp(b) == Ordering::Greater { &ba } else { &ab };
                        if want.ok() != Some(s.as_str()) {
                            acc.violation(
                                "template-sort-order",
                                format!("sort gave {s:?}, expected {}", want.show()),
                                || case(src),
                            );
                        }
                    }
                    (Out::Err(..), false) => {}
                    _ => acc.violation(
                        "template-sort-refusal",
                        format!("sort gave {}, comparable={comparable}", sort_out.show()),
                        || case(src),
                    ),
                }
                acc.case(true, sort_out.class());
                let src = "{{ [a, b] | unique | length }}";
                let u = engine::render_str(&tera_inst, src, &ctx, false);
                let want = if want_eq { "1" } else { "2" };
                if u.ok() != Some(want) {
                    acc.violation(
                        format!("template-unique:{:?}/{:?}", va.kind(), vb.kind()),
                        format!("unique kept {} element(s), expected {want}", u.show()),
                        || case(src),
                    );
                }
                acc.case(true, u.class());
                if ia == 6 && ib < 3 {
                    acc.sample(|| case("{{ a == b }} {{ a < b }} {{ [a, b] | sort }} {{ [a, b] | unique | length }}"));
                }
            }
        },
    );

    // ---------------------------------------------------------------- key laws
    let ks = key_alphabet();
    // the tera keys under test: every key owned, string keys additionally borrowed
    let tks: Vec<(Key<'static>, &K, &'static str)> = {
        let mut v: Vec<(Key<'static>, &K, &'static str)> = vec![];
        for k in &ks {
            v.push((k.to_tera(), k, "owned"));
            if let K::Str(s) = k {
                let leaked: &'static str = Box::leak(s.clone().into_boxed_str());
                v.push((Key::Str(leaked), k, "borrowed"));
            }
        }
        v
    };
    let ntk = tks.len() as u64;
    run.family(
        Family::new("key-laws-owned-borrowed", ntk * ntk, &format!("all {ntk}^3 ordered triples of tera keys (every key encoding owned, string keys also borrowed): Eq / Ord / Hash against the reference")),
        |item, acc: &mut Acc| {
            let (ia, ib) = ((item / ntk) as usize, (item % ntk) as usize);
            let (ka, ra, sa) = &tks[ia];
            let (kb, rb, sb) = &tks[ib];
            let case = || json!({"a": format!("{} ({sa})", ra.describe()), "b": format!("{} ({sb})", rb.describe())});
            let want = ref_key_eq(ra, rb);
            if (ka == kb) != want {
                acc.violation("key-eq:owned-borrowed", format!("Key == is {}, reference {want}", ka == kb), case);
            }
            if want && hash_of(ka) != hash_of(kb) {
                acc.violation("key-hash:owned-borrowed", "equal keys hash differently", case);
            }
            let c_ab = ka.cmp(kb);
            if (c_ab == Ordering::Equal) != want {
                acc.violation("key-cmp-equal-vs-eq:owned-borrowed", format!("cmp is {} while the keys are {}equal", ord_name(c_ab), if want { "" } else { "not " }), case);
            }
            if c_ab != kb.cmp(ka).reverse() {
                acc.violation("key-cmp-antisymmetry:owned-borrowed", "cmp(a,b) != reverse(cmp(b,a))", case);
            }
            for (kc, rc, sc) in &tks {
                let (c_bc, c_ac) = (kb.cmp(kc), ka.cmp(kc));
                let mut nontrivial = false;
                if c_ab != Ordering::Greater && c_bc != Ordering::Greater {
                    nontrivial = true;
                    let strict = c_ab == Ordering::Less || c_bc == Ordering::Less;
                    let ok = if strict { c_ac == Ordering::Less } else { c_ac == Ordering::Equal };
                    if !ok {
                        acc.violation("key-cmp-intransitive:owned-borrowed", "a<=b<=c but not a<=c consistently", || {
                            json!({"a": format!("{} ({sa})", ra.describe()), "b": format!("{} ({sb})", rb.describe()), "c": format!("{} ({sc})", rc.describe())})
                        });
                    }
                }
                acc.case(nontrivial, if nontrivial { "premise-held" } else { "premise-not-held" });
            }
        },
    );
    let nk = ks.len() as u64;
    run.extra("key_alphabet_size", json!(nk));
    run.family(
        Family::new("key-laws", nk * nk, &format!("all {nk}^3 ordered triples of key encodings: Eq/Ord/Hash")),
        |item, acc: &mut Acc| {
            let (ia, ib) = ((item / nk) as usize, (item % nk) as usize);
            let (ka, kb) = (ks[ia].to_tera(), ks[ib].to_tera());
            let case = || json!({"a": ks[ia].describe(), "b": ks[ib].describe()});
            let want = ref_key_eq(&ks[ia], &ks[ib]);
            let got = ka == kb;
            if got != want {
                acc.violation("key-eq", format!("Key == is {got}, reference {want}"), case);
            }
            if got && hash_of(&ka) != hash_of(&kb) {
                acc.violation("key-hash", "equal keys hash differently", case);
            }
            // borrowed vs owned string spelling
            if let K::Str(s) = &ks[ia] {
                let borrowed = Key::Str(s.as_str());
                if borrowed != ka || hash_of(&borrowed) != hash_of(&ka) {
                    acc.violation("key-borrowed-owned", "Key::Str and Key::String of the same text differ in ==/hash", case);
                }
            }
            let c_ab = ka.cmp(&kb);
            if c_ab != kb.cmp(&ka).reverse() {
                acc.violation("key-cmp-antisymmetry", "cmp(a,b) != reverse(cmp(b,a))", case);
            }
            if (c_ab == Ordering::Equal) != got {
                acc.violation("key-cmp-equal-vs-eq", format!("cmp is {} while == is {got}", ord_name(c_ab)), case);
            }
            for ic in 0..ks.len() {
                let kc = ks[ic].to_tera();
                let (c_bc, c_ac) = (kb.cmp(&kc), ka.cmp(&kc));
                let mut nontrivial = false;
                if c_ab != Ordering::Greater && c_bc != Ordering::Greater {
                    nontrivial = true;
                    let strict = c_ab == Ordering::Less || c_bc == Ordering::Less;
                    let ok = if strict { c_ac == Ordering::Less } else { c_ac == Ordering::Equal };
                    if !ok {
                        acc.violation("key-cmp-intransitive", "a<=b<=c but not a<=c consistently", || {
                            json!({"a": ks[ia].describe(), "b": ks[ib].describe(), "c": ks[ic].describe()})
                        });
                    }
                }
                acc.case(nontrivial, if nontrivial { "premise-held" } else { "premise-not-held" });
            }
            if item == 3 {
                acc.sample(case);
            }
        },
    );

    // ---------------------------------------------------------------- lookup
    // Maps of size 0..=8 whose entries are "filler" string keys f0..f7 plus (optionally) one
    // subject key in some encoding; probed with every key of the alphabet in every form.
    let sizes: Vec<usize> = (0..=8).collect();
    let items = nk * sizes.len() as u64;
    run.family(
        Family::new(
            "lookup",
            items,
            "every inserted key encoding x map size 0..=8 (both sides of the 6-entry scan/hash cut-over) x every probe key encoding x five lookup forms",
        ),
        |item, acc: &mut Acc| {
            let ins = &ks[(item / sizes.len() as u64) as usize];
            let size = sizes[(item % sizes.len() as u64) as usize];
            // map with `size` entries: the subject key first (if size > 0), then fillers
            let mut entries: Vec<(K, V)> = vec![];
            if size > 0 {
                entries.push((ins.clone(), V::s("HIT")));
            }
            // fillers of every key kind, string keys in between (seeded change C15-5: the scan of
            // small maps stopped at the first key that is not a string)
            let mut f = 0;
            while entries.len() < size {
                let k = match f % 6 {
                    0 => K::I64(100 + f as i64),
                    1 => K::Str(format!("f{f}")),
                    2 => K::Bool(true),
                    3 => K::Str(format!("f{f}")),
                    4 => K::U128(200 + f as u128),
                    _ => K::Str(format!("f{f}")),
                };
                f += 1;
                if !entries.iter().any(|(e, _)| ref_key_eq(e, &k)) {
                    entries.push((k, V::s("filler")));
                }
            }
            let m = V::Map(entries.clone());
            // probes: every key of the alphabet, and every filler key of this map
            let mut probes: Vec<K> = ks.clone();
            for (k, _) in entries.iter().skip(1) {
                if !probes.iter().any(|p| p == k) {
                    probes.push(k.clone());
                }
            }
            for probe in &probes {
                let present = entries.iter().any(|(k, _)| ref_key_eq(k, probe));
                let is_subject = size > 0 && ref_key_eq(ins, probe);
                let ctx = vals::context(&[("m", &m), ("k", &probe.as_v())]);
                let case = |src: &str| {
                    json!({"template": src, "map": m.describe(), "probe": probe.describe(), "present": present})
                };
                let mut forms: Vec<(String, String)> = vec![
                    (
                        "{% if m[k] is defined %}{{ m[k] }}{% else %}MISS{% endif %}".into(),
                        if present { if is_subject { "HIT".into() } else { "filler".into() } } else { "MISS".into() },
                    ),
                    ("{{ k in m }}".into(), format!("{present}")),
                    ("{{ m is containing(pat=k) }}".into(), format!("{present}")),
                ];
                if let K::Str(s) = probe {
                    forms.push((
                        "{{ m | get(key=k, default=\"MISS\") }}".into(),
                        if present { if is_subject { "HIT".into() } else { "filler".into() } } else { "MISS".into() },
                    ));
                    let ident = !s.is_empty()
                        && s.chars().all(|c| c.is_ascii_alphanumeric() || c == '_')
                        && !s.chars().next().unwrap().is_ascii_digit()
                        && s != "true";
                    if ident {
                        forms.push((
                            format!("{{% if m.{s} is defined %}}{{{{ m.{s} }}}}{{% else %}}MISS{{% endif %}}"),
                            if present { if is_subject { "HIT".into() } else { "filler".into() } } else { "MISS".into() },
                        ));
                        forms.push((
                            format!("{{{{ m.{s} | default(value=\"MISS\") }}}}"),
                            if present { if is_subject { "HIT".into() } else { "filler".into() } } else { "MISS".into() },
                        ));
                    }
                }
                for (src, want) in &forms {
                    let out = engine::render_str(&tera_inst, src, &ctx, false);
                    if out.ok() != Some(want.as_str()) {
                        let form = if src.contains(" in ") { "in" } else if src.contains("containing") { "containing" } else if src.contains("get(") { "get" } else if src.contains("m[k]") { "subscript" } else { "dot" };
                        acc.violation(
                            format!("lookup:{form}"),
                            format!("{src} gave {}, expected {want:?}", out.show()),
                            || case(src),
                        );
                    }
                    // non-trivial: the probe is the subject key in another encoding, or absent
                    let other_encoding = is_subject && probe != ins;
                    acc.case(other_encoding || !present, out.class());
                }
                // Membership is about KEYS: the same map with `none` and with an undefined value
                // stored under every key (a map literal built from a missing variable, or
                // Value::undefined() put in by the embedder) still has them. (Seeded change C15-13
                // answered `k in m` through subscripting: "found and not undefined".)
                for (vname, stored) in [("none", V::None), ("undefined", V::Undef)] {
                    let m2 = V::Map(entries.iter().map(|(k, _)| (k.clone(), stored.clone())).collect());
                    // (vals::context leaves an undefined binding out; the map itself is always bound)
                    let ctx2 = vals::context(&[("m", &m2), ("k", &probe.as_v())]);
                    for (src, want) in [("{{ k in m }}", format!("{present}")), ("{{ k not in m }}", format!("{}", !present)), ("{{ m is containing(pat=k) }}", format!("{present}")), ("{{ k in (m | keys) }}", format!("{present}"))] {
                        let out = engine::render_str(&tera_inst, src, &ctx2, false);
                        if out.ok() != Some(want.as_str()) {
                            acc.violation(
                                format!("lookup:{}:stored-{vname}", if src.contains("containing") { "containing" } else if src.contains("keys") { "keys" } else { "in" }),
                                format!("{src} on a map storing {vname} under every key gave {}, expected {want:?}", out.show()),
                                || json!({"template": src, "map": m2.describe(), "probe": probe.describe(), "present": present}),
                            );
                        }
                        acc.case(present, out.class());
                    }
                }
                if item == 40 && matches!(probe, K::U64(1)) {
                    acc.sample(|| case("{{ m[k] }} / {{ k in m }} / {{ m is containing(pat=k) }}"));
                }
            }
        },
    );

    if run.is_supervisor() {
        let held = run.outcome("laws", "premise-held");
        run.guard("laws-premises-exercised", held > 1000, format!("{held} triples exercised a law premise"));
        let errs = run.outcome("template", "err");
        let oks = run.outcome("template", "ok");
        run.guard("template-both-outcomes", errs > 0 && oks > 0, format!("ok={oks} err={errs}"));
    }
    run.finish();
}
